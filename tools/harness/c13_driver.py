"""C13 driver: runs ownership histories against the real library under the allocator interposer.

Usage (started by tools/props/C13.py with LD_PRELOAD=/verif/build/interpose/libinterpose.so):
    c13_driver.py <cases.json> <out.jsonl>
cases.json = {"backend": "llvm"|"cffi", "cases": [{"id": int, "ops": [op, ...], "wf": [bool per op]}, ...]}
op = ["eval", out, [ins...], shape] | ["build", out, shape] | ["alias", new, old] | ["structref", new, old]
   | ["read", n] | ["pickle", new, old] | ["del", n] | ["collect"]
shape = "s0" (format s) | "s1" (format ss) | "e" (format s, empty result) | "d" | "0" (scalar)

For every history one JSON line is appended to out.jsonl (flushed, so a crash of this process
identifies the history that caused it):
  {"id", "steps": [[outcome, [free count of every kernel block allocated so far, in allocation order]], ...],
   "final": [...counts after deleting every name and gc.collect()...],
   "oracle": [violations of the property itself, found without the model]}

The driver holds NO reference to tensors or structures except through the `names` dictionary that
the history manipulates (addresses are kept as integers), so it does not change any lifetime.
"""
import ctypes
import gc
import json
import os
import pickle
import sys

_preload = os.environ.pop("LD_PRELOAD", None)  # children (gcc for the cffi back end) must not inherit it
os.environ.pop("INTERPOSE_LOG", None)
os.environ.pop("INTERPOSE_ALL", None)

_lib = ctypes.CDLL(None)
try:
    _lib.interpose_serial.restype = ctypes.c_uint64
    _lib.interpose_stray_double.restype = ctypes.c_uint64
    _lib.interpose_release.restype = ctypes.c_uint64
except AttributeError:
    print("interposer not loaded", file=sys.stderr)
    sys.exit(3)


def _call4(fn, a):
    out = (ctypes.c_uint64 * 4)()
    fn(ctypes.c_void_p(a), out)
    return int(out[0]), int(out[1]), int(out[2]), int(out[3])


from tensora import Tensor  # noqa: E402
from tensora.compile import evaluate_cffi, evaluate_tensora, tensor_cdefs as ffi  # noqa: E402

BASE = {
    "c": Tensor.from_lol([1.0, 0.0, 2.0], format="s"),
    "e": Tensor.from_lol([0.0, 0.0, 0.0], format="s"),
    "m": Tensor.from_lol([[1.0, 0.0, 2.0], [0.0, 0.0, 0.0], [0.0, 3.0, 0.0]], format="ss"),
}
# out shape -> (target, output format, base factor, base tensor names)
OUT = {
    "s0": ("o(i)", "s", "c(i)", ["c"]),
    "s1": ("o(i,j)", "ss", "m(i,j)", ["m"]),
    "e": ("o(i)", "s", "e(i)", ["e"]),
    "d": ("o(i)", "d", "c(i)", ["c"]),
    "0": ("o()", "", "c(i)", ["c"]),
}
BUILD = {
    "s0": lambda: Tensor.from_lol([4.0, 0.0, 5.0], format="s"),
    "s1": lambda: Tensor.from_lol([[0.0, 1.0, 0.0], [0.0, 0.0, 0.0], [6.0, 0.0, 7.0]], format="ss"),
    "e": lambda: Tensor.from_lol([0.0, 0.0, 0.0], format="s"),
    "d": lambda: Tensor.from_lol([1.0, 2.0, 3.0], format="d"),
    "0": lambda: Tensor.from_lol(2.5),
}


def struct_addr(s) -> int:
    return int(ffi.cast("uintptr_t", s))


def array_addrs(s) -> list[int]:
    """Addresses stored in the pos/crd arrays of compressed levels, then vals (NULLs skipped)."""
    out = []
    order = s.order
    modes = s.mode_types[0:order]
    lev = ffi.cast("int32_t***", s.indices)
    for i, mode in enumerate(modes):
        if mode == 1:
            out.append(int(ffi.cast("uintptr_t", lev[i][0])))
            out.append(int(ffi.cast("uintptr_t", lev[i][1])))
    out.append(int(ffi.cast("uintptr_t", s.vals)))
    return [a for a in out if a != 0]


class History:
    def __init__(self, evaluate):
        self.evaluate = evaluate
        self.names = {}
        self.blocks = []  # tracked kernel blocks in allocation order: dict(addr, serial, saddr, rec)
        self.records = []  # one per successful Eval: dict(saddr, alive, blocks=[indexes])
        self.snap = {}  # struct address -> (indices, vals) as read when the structure was created
        self.oracle = []

    # -- reachability through the names of the history (the property's notion of "a reference") --
    def reached_structs(self) -> set[int]:
        r = set()
        for v in self.names.values():
            r.add(struct_addr(v.cffi_tensor if isinstance(v, Tensor) else v))
        return r

    def counts(self) -> list[int]:
        res = []
        for b in self.blocks:
            _, serial, _live, frees = _call4(_lib.interpose_query, b["addr"])
            res.append(frees if serial == b["serial"] else max(frees, 1) + 1000)
        return res

    def check(self, where: str, collected: bool):
        """The property itself, without the model."""
        reached = self.reached_structs()
        counts = self.counts()
        for rec in self.records:
            if rec["alive"] and rec["saddr"] not in reached:
                rec["alive"] = False
                self.snap.pop(rec["saddr"], None)
            for bi in rec["blocks"]:
                n = counts[bi]
                if n > 1:
                    self.oracle.append({"kind": "double-free", "where": where, "block": bi, "frees": n})
                if rec["alive"] and n != 0:
                    self.oracle.append({"kind": "freed-while-referenced", "where": where, "block": bi, "frees": n})
                if collected and not rec["alive"] and n != 1:
                    self.oracle.append({"kind": "leak" if n == 0 else "double-free", "where": where,
                                        "block": bi, "frees": n})
        for sa in [sa for sa in self.snap if sa not in reached]:
            self.snap.pop(sa, None)

    # -- operations --
    def op_eval(self, out, ins, shape):
        target, fmt, base, base_names = OUT[shape]
        factors = [base]
        kwargs = {b: BASE[b] for b in base_names}
        for k, n in enumerate(ins):
            x = self.names[n]  # NameError -> rejected by the caller
            order = x.order if isinstance(x, Tensor) else None
            idx = ",".join(f"{'pqrstu'[k]}{j}" for j in range(order or 0))
            factors.append(f"x{k}({idx})")
            kwargs[f"x{k}"] = x
        assignment = f"{target} = " + " * ".join(factors)
        s0 = _lib.interpose_serial()
        result = self.evaluate(assignment, fmt, **kwargs)
        s1 = _lib.interpose_serial()
        s = result.cffi_tensor
        sa = struct_addr(s)
        rec = {"saddr": sa, "alive": True, "blocks": []}
        intact = True
        for a in array_addrs(s):
            found, serial, live, frees = _call4(_lib.interpose_watch, a)
            bi = len(self.blocks)
            self.blocks.append({"addr": a, "serial": serial})
            rec["blocks"].append(bi)
            if not found:
                self.oracle.append({"kind": "untracked-block", "where": f"eval->{out}", "block": bi})
            elif not live or frees:
                intact = False
                self.oracle.append({"kind": "freed-before-return", "where": f"eval->{out}", "block": bi,
                                    "frees": frees})
            elif not (s0 < serial <= s1):
                self.oracle.append({"kind": "block-not-allocated-by-this-call", "where": f"eval->{out}",
                                    "block": bi})
        self.records.append(rec)
        if intact:  # never read through a pointer the allocator already took back
            self.snap[sa] = (result.taco_indices, result.taco_vals)
        del s
        self.names[out] = result

    def op_build(self, out, shape):
        t = BUILD[shape]()
        self.snap[struct_addr(t.cffi_tensor)] = (t.taco_indices, t.taco_vals)
        self.names[out] = t

    def op_read(self, n):
        v = self.names[n]
        t = v if isinstance(v, Tensor) else Tensor(v)
        sa = struct_addr(t.cffi_tensor)
        for rec in self.records:  # do not dereference arrays that have already been released
            if rec["alive"] and rec["saddr"] == sa and any(self.counts()[bi] for bi in rec["blocks"]):
                self.oracle.append({"kind": "read-of-freed-array", "where": f"read {n}"})
                return
        got = (t.taco_indices, t.taco_vals)
        exp = self.snap.get(sa)
        if exp is not None and got != exp:
            self.oracle.append({"kind": "corrupt-read", "where": f"read {n}", "expected": repr(exp), "got": repr(got)})

    def op_pickle(self, new, old):
        t = pickle.loads(pickle.dumps(self.names[old]))
        self.snap[struct_addr(t.cffi_tensor)] = (t.taco_indices, t.taco_vals)
        self.names[new] = t

    def run_op(self, op, wf=True) -> str:
        kind = op[0]
        try:
            if kind == "eval":
                self.op_eval(op[1], op[2], op[3])
            elif kind == "build":
                self.op_build(op[1], op[2])
            elif kind == "alias":
                self.names[op[1]] = self.names[op[2]]
            elif kind == "structref":
                self.names[op[1]] = self.names[op[2]].cffi_tensor
            elif kind == "read":
                self.op_read(op[1])
            elif kind == "pickle":
                self.op_pickle(op[1], op[2])
            elif kind == "del":
                del self.names[op[1]]
            elif kind == "collect":
                gc.collect()
            else:
                raise RuntimeError(f"unknown op {op!r}")
        except (KeyError, TypeError, AttributeError, pickle.PicklingError) as ex:
            return "rejected:" + type(ex).__name__
        except Exception as ex:
            if not wf:  # an ill-formed operation may be refused with any exception
                return "rejected:" + type(ex).__name__
            # anything else on a well-formed operation is a failure of the library
            self.oracle.append({"kind": "exception", "where": str(op), "error": f"{type(ex).__name__}: {ex}"[:300]})
            return "error:" + type(ex).__name__
        return "ok"


def run_history(ops, evaluate, wf=None):
    h = History(evaluate)
    steps = []
    for i, op in enumerate(ops):
        oc = h.run_op(op, True if wf is None else wf[i])
        h.check(f"step {i} {op}", collected=(op[0] == "collect"))
        steps.append([oc, h.counts()])
    h.names.clear()
    gc.collect()
    h.check("end (all names deleted, gc.collect())", collected=True)
    final = h.counts()
    _lib.interpose_release()
    return {"steps": steps, "final": final, "oracle": h.oracle[:20], "stray_double": int(_lib.interpose_stray_double())}


def evaluate_direct(assignment, output_format, **inputs):
    """An evaluation through the public TensorMethod(Problem(...)) route with the formats listed
    INPUTS FIRST, output last (Problem keeps the order it is given; make_problem would reorder)."""
    from returns.functions import raise_exception

    from tensora.compile._tensor_method import TensorMethod
    from tensora.expression import parse_assignment
    from tensora.format import parse_format
    from tensora.problem import Problem

    a = parse_assignment(assignment).alt(raise_exception).unwrap()
    fmts = {n: t.format for n, t in inputs.items() if isinstance(t, Tensor)}
    if len(fmts) != len(inputs):
        raise TypeError("non-Tensor input")
    fmts[a.target.name] = parse_format(output_format).alt(raise_exception).unwrap()
    return TensorMethod(Problem(a, fmts))(**inputs)


def main():
    spec = json.loads(open(sys.argv[1]).read())
    evaluate = {"cffi": evaluate_cffi, "direct": evaluate_direct}.get(spec["backend"], evaluate_tensora)
    gc.collect()
    gc.freeze()  # the interpreter's own long-lived objects: keeps every later gc.collect() cheap
    with open(sys.argv[2], "a") as out:
        for case in spec["cases"]:
            out.write(json.dumps({"id": case["id"], "begin": True}) + "\n")
            out.flush()
            res = run_history(case["ops"], evaluate, case.get("wf"))
            res["id"] = case["id"]
            out.write(json.dumps(res) + "\n")
            out.flush()


if __name__ == "__main__":
    main()
