"""`rot`: the IR tree the C compiler actually parses from the text tensora's C printer emits.
ir_to_c_add prints no parentheses and ir_to_c_multiply none around a Multiply operand, so a right
operand of the same precedence class is re-associated to the left (known finding K-C06-1)."""
from __future__ import annotations

import dataclasses


def rot(e):
    from tensora.ir import ast as ir

    def add_chain(x):
        if isinstance(x, ir.Add):
            return add_chain(x.left) + add_chain(x.right)
        if isinstance(x, ir.Subtract):
            return add_chain(x.left) + [("-", rot(x.right))]
        return [("+", rot(x))]

    def mul_chain(x):
        if isinstance(x, ir.Multiply):
            return mul_chain(x.left) + mul_chain(x.right)
        return [rot(x)]

    if isinstance(e, (ir.Add, ir.Subtract)):
        ch = add_chain(e)
        acc = ch[0][1]
        for sgn, a in ch[1:]:
            acc = ir.Add(acc, a) if sgn == "+" else ir.Subtract(acc, a)
        return acc
    if isinstance(e, ir.Multiply):
        ch = mul_chain(e)
        acc = ch[0]
        for a in ch[1:]:
            acc = ir.Multiply(acc, a)
        return acc
    if (isinstance(e, ir.Assignment) and isinstance(e.value, (ir.Add, ir.Subtract, ir.Multiply))
            and e.value.left == e.target):
        # printed with the compound-assignment sugar  t op= r : C evaluates r as a whole
        return ir.Assignment(rot(e.target), type(e.value)(rot(e.value.left), rot(e.value.right)))
    if dataclasses.is_dataclass(e) and isinstance(e, (ir.Statement, ir.FunctionDefinition)):
        kw = {}
        for f in dataclasses.fields(e):
            v = getattr(e, f.name)
            if isinstance(v, list):
                kw[f.name] = [rot(x) if isinstance(x, ir.Statement) else x for x in v]
            elif isinstance(v, ir.Statement):
                kw[f.name] = rot(v)
            else:
                kw[f.name] = v
        return type(e)(**kw)
    return e
