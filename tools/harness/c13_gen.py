"""C13: generation of ownership histories and their translation to Coq terms.

A history is a list of JSON ops (see c13_driver.py).  The generator keeps an abstract state
(name -> ('T'|'S', format, structurally_empty)) so that it only emits well-formed operations when
asked to, and so that it knows which model shape an evaluation has: a sparse output computed from a
structurally empty sparse input has no stored entry, and then the kernel's realloc(crd, 0) leaves
NULL in the structure (model shape SparseEmpty).
"""
from __future__ import annotations

FMT = {"s0": "s", "s1": "ss", "e": "s", "d": "d", "0": ""}
SHAPES = ["s0", "s1", "e", "d", "0"]


def abstract_step(st: dict, op: list) -> tuple[dict, bool, str | None]:
    """Returns (new abstract state, well_formed, model shape term or None)."""
    st = dict(st)
    k = op[0]
    if k == "eval":
        _, out, ins, shape = op
        if not all(n in st and st[n][0] == "T" for n in ins):
            return st, False, coq_shape(shape, False)
        empty_in = any(st[n][2] for n in ins)
        empty = shape == "e" or (shape in ("s0", "s1") and empty_in)
        st[out] = ("T", FMT[shape], empty)
        return st, True, coq_shape(shape, empty)
    if k == "build":
        _, out, shape = op
        st[out] = ("T", FMT[shape], shape == "e")
        return st, True, coq_shape(shape, shape == "e")
    if k == "alias":
        _, new, old = op
        if old not in st:
            return st, False, None
        st[new] = st[old]
        return st, True, None
    if k == "structref":
        _, new, old = op
        if old not in st or st[old][0] != "T":
            return st, False, None
        st[new] = ("S",) + st[old][1:]
        return st, True, None
    if k == "read":
        return st, op[1] in st, None
    if k == "pickle":
        _, new, old = op
        if old not in st or st[old][0] != "T":
            return st, False, None
        st[new] = st[old]
        return st, True, None
    if k == "del":
        if op[1] not in st:
            return st, False, None
        del st[op[1]]
        return st, True, None
    if k == "collect":
        return st, True, None
    raise ValueError(op)


def coq_shape(shape: str, empty: bool) -> str:
    if shape == "s0":
        return "(SparseEmpty 0)" if empty else "(Sparse 0)"
    if shape == "s1":
        return "(SparseEmpty 1)" if empty else "(Sparse 1)"
    if shape == "e":
        return "(SparseEmpty 0)"
    if shape == "d":
        return "Dense"
    return "Scalar"


def coq_ops(ops: list) -> str:
    st: dict = {}
    terms = []
    for op in ops:
        st, _wf, shp = abstract_step(st, op)
        k = op[0]
        if k == "eval":
            terms.append(f"Eval {op[1]} [{';'.join(str(i) for i in op[2])}] {shp}")
        elif k == "build":
            terms.append(f"Build {op[1]} {shp}")
        elif k == "alias":
            terms.append(f"Alias {op[1]} {op[2]}")
        elif k == "structref":
            terms.append(f"StructRef {op[1]} {op[2]}")
        elif k == "read":
            terms.append(f"Read {op[1]}")
        elif k == "pickle":
            terms.append(f"Pickle {op[1]} {op[2]}")
        elif k == "del":
            terms.append(f"Del {op[1]}")
        else:
            terms.append("Collect")
    return "[" + "; ".join(terms) + "]"


def coq_obs(steps: list) -> str:
    out = []
    for oc, counts in steps:
        o = "Ok" if oc == "ok" else ("Rejected" if oc.startswith("rejected") else "Fault")  # "error:*" -> Fault
        out.append(f"({o}, [{';'.join(str(c) for c in counts)}])")
    return "[" + "; ".join(out) + "]"


# ------------------------------------------------------------------ enumeration

def successors(st: dict, nnames: int, rich: bool):
    """Well-formed operations in abstract state st, without shapes (shape = None placeholder).

    Names are introduced in order (renaming symmetry).  `rich` adds same-name rebinding through
    structref/pickle and two-input evaluations."""
    bound = sorted(st)
    tens = [n for n in bound if st[n][0] == "T"]
    targets = [n for n in range(nnames) if n in st or all(m in st for m in range(n))]
    ops = []
    for out in targets:
        ops.append(["eval", out, [], None])
        for i in tens:
            ops.append(["eval", out, [i], None])
        if rich:
            for i in tens:
                for j in tens:
                    if i <= j:
                        ops.append(["eval", out, [i, j], None])
            ops.append(["build", out, None])
    for new in targets:
        for old in bound:
            if new != old:
                ops.append(["alias", new, old])
        for old in tens:
            if new != old or rich:
                ops.append(["structref", new, old])
                ops.append(["pickle", new, old])
    for n in bound:
        ops.append(["read", n])
        ops.append(["del", n])
    ops.append(["collect"])
    return ops


def enumerate_skeletons(max_len: int, nnames: int, rich: bool, first_ops=None):
    """All well-formed skeleton histories of length 1..max_len (first op creates name 0)."""
    res = []

    def rec(prefix, st):
        if prefix:
            res.append(prefix)
        if len(prefix) == max_len:
            return
        for op in successors(st, nnames, rich):
            if not prefix and op[0] not in ("eval", "build"):
                continue
            probe = [x if x is not None else "s0" for x in op]
            st2, wf, _ = abstract_step(st, probe)
            assert wf
            rec(prefix + [op], st2)

    rec([], {})
    return res


def assign_shapes(skel: list, rng) -> list:
    ops = []
    for op in skel:
        if op[0] in ("eval", "build"):
            ops.append([rng.choice(SHAPES) if x is None else x for x in op])
        else:
            ops.append(list(op))
    return ops


def random_history(rng, length: int, nnames: int, p_illformed: float = 0.1) -> list:
    st: dict = {}
    ops = []
    while len(ops) < length:
        if rng.random() < p_illformed:
            # an arbitrary, possibly ill-formed operation (unbound name, struct where a Tensor is needed)
            n1, n2 = rng.randrange(nnames + 1), rng.randrange(nnames + 1)
            op = rng.choice([
                ["eval", n1, [n2], rng.choice(SHAPES)], ["alias", n1, n2], ["structref", n1, n2],
                ["read", n1], ["pickle", n1, n2], ["del", n1],
            ])
        else:
            cand = successors(st, nnames, True)
            if not ops:
                cand = [c for c in cand if c[0] in ("eval", "build")]
            # favour the interesting operations a little
            weights = [3 if c[0] in ("eval", "del") else 1 for c in cand]
            op = assign_shapes([rng.choices(cand, weights)[0]], rng)[0]
        st, _wf, _ = abstract_step(st, op)
        ops.append(op)
    return ops


def mentions(sk: list, n: int) -> bool:
    for op in sk:
        if op[0] == "eval":
            if op[1] == n or n in op[2]:
                return True
        elif n in op[1:3]:
            return True
    return False


def map_shapes(ops: list, m: dict) -> list:
    out = []
    for op in ops:
        op = list(op)
        if op[0] == "eval":
            op[3] = m.get(op[3], op[3])
        elif op[0] == "build":
            op[2] = m.get(op[2], op[2])
        out.append(op)
    return out


def wellformed_flags(ops: list) -> list:
    """Per operation: is it well-formed in the abstract state reached so far (an ill-formed one must raise)."""
    st: dict = {}
    flags = []
    for op in ops:
        st, wf, _ = abstract_step(st, op)
        flags.append(bool(wf))
    return flags
