"""Implementation side of the RELATIONAL kernel-kind certificate (coq/proofs/Certs3*.v,
props/CERT_kinds.v).

Reads a JSON config on stdin, generates the REAL IR of the evaluate / assemble / compute kernels of
swept problems with the library under test and writes shard files <outdir>/<prefix>_<k>.v.  Each
shard defines the three kernels of each problem as Coq terms and evaluates, by vm_compute,

  kinds_assemble   assemble_cert fe fa     evaluate ~ assemble   (CERT_kinds_assemble_sound)
  kinds_compute    compute_cert3 fe fc     evaluate ~ compute    (alignment checked; see CERT_kinds.md)

(kinds_cert fe fa fc is their conjunction); the single `Eval vm_compute` prints the indexes of the
cases that are `false`.  <outdir>/<prefix>_index.json describes every case.

config: seed, outdir, prefix, templates (default sweep.TEMPLATES), priority [[tpl, formats]...],
max_problems, fmt_cap, per_shard, optimise.
"""

from __future__ import annotations

import json
import os
import random
import sys

sys.path.insert(0, os.path.join(os.path.dirname(os.path.abspath(__file__)), ".."))

from harness import irdump as D  # noqa: E402
from harness import sweep as S  # noqa: E402
from harness.certgen import failing_expr  # noqa: E402
from harness.mgen import refusal  # noqa: E402

HEADER = """From Coq Require Import ZArith Bool List String.
From Flocq Require Import Core BinarySingleNaN.
From TV Require Import spec.Num gen.IRAst spec.IRSem proofs.Certs3Defs.
Import ListNotations.
Open Scope Z_scope.
"""

KINDS = ("evaluate", "assemble", "compute")


def main():
    cfg = json.load(sys.stdin)
    rng = random.Random(cfg["seed"])
    outdir, prefix = cfg["outdir"], cfg["prefix"]
    per_shard = cfg.get("per_shard", 12)
    fmt_cap = cfg.get("fmt_cap", 3)
    max_problems = cfg.get("max_problems", 100)
    problems = []
    for tpl in cfg.get("templates") or S.TEMPLATES:
        for fm in S.format_choices(tpl, rng, fmt_cap):
            problems.append((tpl, fm))
    rng.shuffle(problems)
    prio = [tuple(x) for x in cfg.get("priority", [])]
    problems = prio + problems
    seen, uniq = set(), []
    for tpl, fm in problems:
        key = (tpl, json.dumps(fm, sort_keys=True))
        if key not in seen:
            seen.add(key)
            uniq.append((tpl, fm))
    problems = uniq

    index = {"shards": [], "skipped": {}, "problems": 0, "kernels": 0}
    defs, cases, metas = [], [], []
    shard_no = 0
    nprob = 0

    def flush():
        nonlocal defs, cases, metas, shard_no, nprob
        if not cases:
            return
        name = f"{prefix}_{shard_no}"
        text = HEADER + "\n".join(defs) + "\n"
        text += "Definition cases : list bool := [\n  " + ";\n  ".join(cases) + "\n].\n" + failing_expr()
        with open(os.path.join(outdir, name + ".v"), "w") as f:
            f.write(text)
        index["shards"].append({"name": name, "cases": metas})
        defs, cases, metas = [], [], []
        shard_no += 1
        nprob = 0

    for pno, (tpl, fm) in enumerate(problems):
        if index["problems"] >= max_problems:
            break
        try:
            prob, fns = D.generate_functions(tpl, fm, KINDS, optimise=cfg.get("optimise", True))
        except Exception as e:  # typed refusals of the generator are not this check's business
            n = refusal(e)
            if n is None:
                n = "GENERATOR-EXCEPTION " + type(e).__name__
                index.setdefault("generator_errors", []).append(
                    {"assignment": tpl, "formats": fm, "error": type(e).__name__ + ": " + str(e)[:200]})
            index["skipped"][n] = index["skipped"].get(n, 0) + 1
            continue
        index["problems"] += 1
        names = {}
        for k, fn in zip(KINDS, fns):
            names[k] = f"f{pno}_{k}"
            defs.append(f"Definition f{pno}_{k} := {D.coq_function(fn)}.")
            index["kernels"] += 1
        base = {"assignment": tpl, "formats": fm}
        cases.append(f"assemble_cert {names['evaluate']} {names['assemble']}")
        metas.append(dict(base, cert="kinds_assemble", kernel="assemble"))
        cases.append(f"compute_cert3 {names['evaluate']} {names['compute']}")
        metas.append(dict(base, cert="kinds_compute", kernel="compute"))
        nprob += 1
        if nprob >= per_shard:
            flush()
    flush()
    with open(os.path.join(outdir, prefix + "_index.json"), "w") as f:
        json.dump(index, f)
    print(json.dumps({"shards": len(index["shards"]), "cases": sum(len(s["cases"]) for s in index["shards"]),
                      "problems": index["problems"], "kernels": index["kernels"], "skipped": index["skipped"],
                      "generator_errors": len(index.get("generator_errors", []))}))


if __name__ == "__main__":
    main()
