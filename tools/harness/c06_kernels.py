"""C06: real kernels through the C back end (cffi + gcc) vs the LLVM back end, bit for bit.
Differences are re-run on the IR machine with the kernel IR re-associated the way C parses the
printed text (harness.crot.rot): if that reproduces the C result exactly, the difference is the
known finding K-C06-1; otherwise it is a violation.

stdin JSON: seed, outdir, prefix, max_problems, n_inputs, fmt_cap, templates(optional)."""
from __future__ import annotations

import json
import os
import random
import sys

from harness import irdump as D
from harness import irmachine as M
from harness import sweep as S
from harness.crot import rot

EXTRA = [
    "a(i) = b(i) + (c(i) + d(i))",
    "a(i) = b(i) * (c(i) * d(i))",
    "a(i) = b(i) + (c(i) - d(i))",
    "a(i,j) = b(i,j) - (c(i,j) - d(i,j))",
    "a(i) = b(i) * c(i) + d(i) * e(i)",
    "a(i) = (b(i) + c(i)) * (d(i) + e(i))",
    "a(i) = 0.1 * b(i) + 0.2",
    "a(i) = b(i) - c(i)",
    "a(i,j) = b(i,j) - c(i,j) * d(j)",
]


def main():
    cfg = json.load(sys.stdin)
    rng = random.Random(cfg["seed"])
    templates = cfg.get("templates") or (EXTRA + S.TEMPLATES)
    problems = []
    for tpl in templates:
        for fm in S.format_choices(tpl, rng, cfg.get("fmt_cap", 2)):
            problems.append((tpl, fm))
    # the first format choices of every EXTRA template are always kept; make sure the plain
    # dense-output / sparse-first-operand variants of the subtraction templates are among them
    problems.insert(0, ("a(i) = b(i) - c(i)", {"a": "d", "b": "s", "c": "d"}))
    problems.insert(1, ("a(i,j) = b(i,j) - c(i,j) * d(j)", {"a": "dd", "b": "ds", "c": "dd", "d": "d"}))
    head, tail = problems[: 2 * len(EXTRA) + 2], problems[2 * len(EXTRA) + 2:]
    rng.shuffle(tail)
    problems = (head + tail)[: cfg.get("max_problems", 30)]
    fvals = [0.1, 0.2, 0.3, 1e16, -1.0, 0.7, 1.5, 3.0, 0.0, 0.0, -0.0]
    index = {"compared": 0, "differences": [], "errors": [], "skipped": {}, "shards": []}
    defs, cases, metas = [], [], []
    for pno, (tpl, fm) in enumerate(problems):
        for rep in range(cfg.get("n_inputs", 2)):
            sizes = {i: rng.choice([1, 2, 3]) for i in S.index_sizes_choices(tpl, rng, 1)[0]}
            ins = S.make_inputs(tpl, sizes, rng)
            if not ins and S.tensor_occurrences(tpl):
                continue
            if rep == 0:
                # full tensors with one constant per tensor (0.1, 0.2, 0.3, 1e16): the classic
                # non-associativity witness
                import itertools
                consts = [0.1, 0.2, 0.3, 1e16, 0.7]
                ins = {n: {"dims": v["dims"], "entries": {c: consts[k % len(consts)] for c in itertools.product(*[range(d) for d in v["dims"]])}}
                       for k, (n, v) in enumerate(ins.items())}
            elif rep == 1:
                # signed zeros: the first input keeps a sparse pattern, the others are full and
                # hold exact zeros of both signs (bit-identity includes the sign of zero)
                import itertools
                new = {}
                for k, (n, v) in enumerate(ins.items()):
                    cells = list(itertools.product(*[range(d) for d in v["dims"]]))
                    if k == 0:
                        new[n] = {"dims": v["dims"], "entries": {c: rng.choice([0.5, -1.5]) for c in cells if rng.random() < 0.4}}
                    else:
                        new[n] = {"dims": v["dims"], "entries": {c: rng.choice([0.0, 0.0, -0.0, 2.0]) for c in cells}}
                ins = new
            else:
                ins = {n: {"dims": v["dims"], "entries": {c: rng.choice(fvals) for c in v["entries"]}} for n, v in ins.items()}
            # marker for the parent: if this process dies inside native code, the last marker names the case
            print("CASE " + json.dumps({"assignment": tpl, "formats": fm, "inputs": {n: {"dims": v["dims"], "entries": [[list(c), x] for c, x in v["entries"].items()]} for n, v in ins.items()}}),
                  file=sys.stderr, flush=True)
            st1, o1 = S.run_evaluate(tpl, fm, ins, backend="llvm")
            if st1 != "ok":
                index["skipped"][o1] = index["skipped"].get(o1, 0) + 1
                break
            st2, o2 = S.run_evaluate(tpl, fm, ins, backend="cffi")
            meta = {"assignment": tpl, "formats": fm, "kind": "c_vs_llvm",
                    "inputs": {n: {"dims": v["dims"], "entries": [[list(c), x] for c, x in v["entries"].items()]} for n, v in ins.items()}}
            if st2 != "ok":
                index["errors"].append(dict(meta, error=o2))
                continue
            index["compared"] += 1
            h1 = dict(o1, vals=[float(x).hex() for x in o1["vals"]])
            h2 = dict(o2, vals=[float(x).hex() for x in o2["vals"]])
            if h1 != h2:
                index["differences"].append(dict(meta, llvm=h1, c=h2))
                prob, fns = D.generate_functions(tpl, fm, ("evaluate",))
                if rot(fns[0]) == fns[0]:
                    # nothing in this kernel is re-associated by the C printer: not K-C06-1
                    index.setdefault("unexplained", []).append(dict(meta, llvm=h1, c=h2))
                    continue
                defs.append(f"Definition r{len(defs)} := {D.coq_function(rot(fns[0]))}.")
                names = list(prob.formats.keys())
                raws = {n: S.raw(S.build(fm[n], v["dims"], v["entries"])) for n, v in ins.items()}
                out_modes = "".join(m.character for m in prob.formats[names[0]].modes)
                tins = "[" + "; ".join([M.tin_output(o2["dims"], out_modes)] + [M.tin_input(raws[n]) for n in names[1:]]) + "]"
                exact = "true" if "s" not in out_modes else "false"
                cases.append(f"run_check 400000 r{len(defs) - 1} {tins} {M.levels_term(o2['modes'], o2['indices'])} {M.fl(o2['vals'])} {exact}")
                metas.append(dict(meta, llvm=h1, c=h2, kind="rotated"))
    if cases:
        text = M.HEADER + "\n".join(defs) + "\nDefinition cases : list verdict := [\n  " + ";\n  ".join(cases) + "\n].\n"
        text += "Eval vm_compute in (failing_from 0 (fun v => v) cases).\n"
        open(os.path.join(cfg["outdir"], cfg["prefix"] + "_rot.v"), "w").write(text)
        index["shards"].append({"name": cfg["prefix"] + "_rot", "cases": metas})
    json.dump(index, open(os.path.join(cfg["outdir"], cfg["prefix"] + "_index.json"), "w"))
    print(json.dumps({"compared": index["compared"], "differences": len(index["differences"]), "errors": len(index["errors"]),
                      "skipped": index["skipped"], "shards": len(index["shards"]), "cases": len(cases), "impl_errors": 0, "generator_errors": 0}))


if __name__ == "__main__":
    main()
