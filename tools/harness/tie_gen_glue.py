"""TIE self-check for the regenerated glue functions (gen/GlueGen.v): the REAL Python functions of /repo
(to_identifiable, index_dimensions, best_algorithm, KernelType.is_assemble / is_compute, generate_module_tensora,
generate_code, the body and the typer defaults of cli.tensora) against the Gallina functions, inside coqc.

generate_ir, the printers, generate_code (for the CLI) are replaced by recording stubs in the namespace of the module
under test; the Gallina side gets the same stubs (they check that they are called with the expected definition / graph /
kinds / language).  See design.d/TIE_glue.md."""

from __future__ import annotations

from harness.tie_gen import HEAD, cbool, clist, cstr, cz, ex_term, gen_ex_expr, id_term
from harness.tie_gen_graphs import EQB as GRAPH_EQB
from harness.tie_gen_graphs import de_term, format_term, formats_term, gen_format, gen_problem, graph_term

EQB = GRAPH_EQB.split("Inductive tcase")[0] + """
Definition td_eqb (a b : TensorDimension) : bool :=
  String.eqb (TensorDimension_name a) (TensorDimension_name b) && Z.eqb (TensorDimension_dimension a) (TensorDimension_dimension b).
Definition format_eqb (a b : Format) : bool :=
  list_eqb Mode_eqb (Format_modes a) (Format_modes b) && list_eqb Z.eqb (Format_ordering a) (Format_ordering b).
Definition formats_eqb (a b : pydict string Format) : bool := list_eqb (pair_eqb String.eqb format_eqb) a b.
Definition dims_eqb (a b : pydict string TensorDimension) : bool := list_eqb (pair_eqb String.eqb td_eqb) a b.
Definition definition_eqb (a b : IgDefinition) : bool :=
  id_expr_eqb (IgDefinition_output_variable a) (IgDefinition_output_variable b)
  && formats_eqb (IgDefinition_formats a) (IgDefinition_formats b) && dims_eqb (IgDefinition_indexes a) (IgDefinition_indexes b).
Definition sum_eqb {A} (e : A -> A -> bool) (a b : A + string) : bool :=
  match a, b with inl x, inl y => e x y | inr x, inr y => String.eqb x y | _, _ => false end.
Definition fd_name (f : function_definition) : string :=
  match f with FunctionDefinition (Var n) _ _ _ => n | _ => "?" end.
Definition names_of (m : module) : list string := match m with IRModule fs => map fd_name fs end.
(* stubs: the same on both sides *)
Definition stub_ir (want : option (IgDefinition * ig_graph)) (d : IgDefinition) (g : ig_graph) (k : KernelType) : pres function_definition :=
  match want with
  | Some (d0, g0) => if definition_eqb d d0 && ig_eqb g g0
                     then POk (FunctionDefinition (Var (KernelType_value k)) [] TInteger (Block [] None))
                     else PRaise "WrongPlan"
  | None => PRaise "UnexpectedCall"
  end.
Definition gm_table (r : pres (module + string)) (p : Problem) (ks : list KernelType) : pres (module + string) := r.
Definition printer (tag : string) (raises : bool) (m : module) : pres string :=
  if raises then PRaise "NotImplementedError" else POk (tag ++ String.concat "," (names_of m))%string.
Definition table {A} (t : list (string * A)) (dflt : A) (s : string) : A :=
  match dict_get String.eqb s t with Some x => x | None => dflt end.
Inductive tcase :=
| CIdent (t : de_expr) (fs : pydict string Format) (want : pres id_expr)
| CDims (a : de_assignment) (want : pydict string TensorDimension)
| CDimsE (e : de_expr) (want : pydict string TensorDimension)
| CBest (a : de_assignment) (fs : pydict string Format) (want : pres (ig_graph + string))
| CKind (k : KernelType) (asm cmp : bool) (name : string)
| CModule (p : Problem) (ks : list KernelType) (plan : option (IgDefinition * ig_graph)) (want : pres (list string + string))
| CCode (r : pres (module + string)) (lang : Language) (craise lraise : bool) (want : pres (string + string))
| CCli (pa : list (string * (ex_assignment + string))) (pf : list (string * ((string * Format) + string)))
       (a : string) (strs : list string) (ks : list KernelType) (lang : Language)
       (want_formats : pydict string Format) (mp : pres (Problem + string)) (gc : pres (string + string)) (want : pres string)
| CDefaults (ks : list KernelType) (lang : Language).
Definition dummy_problem : Problem := MkProblem (ExAssignment (ExTensor "x" []) (ExInteger 0)) [].
Definition ok (c : tcase) : bool :=
  match c with
  | CIdent t fs w => res_eqb id_expr_eqb (to_identifiable t fs) w
  | CDims a w => dims_eqb (index_dimensions a) w
  | CDimsE e w => dims_eqb (index_dimensions_expression e) w
  | CBest a fs w => res_eqb (sum_eqb ig_eqb) (best_algorithm a fs) w
  | CKind k a c n => Bool.eqb (KernelType_is_assemble k) a && Bool.eqb (KernelType_is_compute k) c && String.eqb (KernelType_value k) n
  | CModule p ks plan w =>
      res_eqb (sum_eqb (list_eqb String.eqb))
        (match generate_module_tensora (fun _ l => l) 64 (stub_ir plan) p ks with
         | POk (inl m) => POk (inl (names_of m)) | POk (inr e) => POk (inr e) | PRaise e => PRaise e end) w
  | CCode r lang cr lr w =>
      res_eqb (sum_eqb String.eqb) (generate_code (gm_table r) (printer "C:" cr) (printer "LLVM:" lr) dummy_problem [] lang) w
  | CCli pa pf a strs ks lang wf mp gc w =>
      res_eqb String.eqb
        (cli_tensora (table pa (inr "ParseError")) (table pf (inr "ParseError"))
           (fun _ fmts => if formats_eqb fmts wf then mp else PRaise "WrongFormats")
           (fun _ ks' lang' => if list_eqb KernelType_eqb ks' ks && Language_eqb lang' lang then gc else PRaise "WrongRequest")
           a strs ks lang) w
  | CDefaults ks lang => list_eqb KernelType_eqb cli_default_kernel_types ks && Language_eqb cli_default_language lang
  end.
"""


def res_term(f, term):
    try:
        return f"(POk {term(f())})"
    except Exception as e:  # noqa: BLE001
        return f"(PRaise {cstr(type(e).__name__)})"


def dims_term(d):
    return clist(f"({cstr(k)}, MkTensorDimension {cstr(v.name)} {cz(v.dimension)})" for k, v in d.items())


def result_term(r, term):
    from returns.result import Failure, Success

    match r:
        case Success(x):
            return f"(inl {term(x)})"
        case Failure(e):
            return f"(inr {cstr(type(e).__name__)})"
    raise TypeError(r)


def kt_term(k):
    return "KernelType_" + k.name


def sugar_problem(rng):
    """a valid Problem whose desugaring does not depend on a set iteration order (<= 1 contracted index)"""
    from tensora.expression import ast as A
    from tensora.format import Format, Mode
    from tensora.problem import Problem

    orders = {"A": 2, "B": 1, "C": 0, "D": 3}

    def gen(depth):
        c = rng.random()
        if depth <= 0 or c < 0.3:
            k = rng.random()
            if k < 0.12:
                return A.Integer(rng.choice([0, 1, 2, 7]))
            if k < 0.2:
                return A.Float(rng.choice([0.5, 2.0]))
            name = rng.choice(sorted(orders))
            return A.Tensor(name, tuple(rng.sample(["i", "j", "k"], orders[name])))
        return rng.choice([A.Add, A.Subtract, A.Multiply, A.Multiply])(gen(depth - 1), gen(depth - 1))

    for _ in range(50):
        e = gen_ex_expr(rng, rng.choice([0, 1, 2])) if rng.random() < 0.2 else gen(rng.choice([0, 1, 2, 2, 3]))
        tix = tuple(rng.sample(["i", "j", "k"], rng.choice([2, 2, 3])))
        try:
            a = A.Assignment(A.Tensor("T", tix), e)
        except Exception:  # noqa: BLE001
            continue
        fs = {}
        for name, order in a.variable_orders().items():
            modes = tuple(rng.choice([Mode.dense, Mode.dense, Mode.compressed]) for _ in range(order))
            ordering = list(range(order))
            if rng.random() < 0.4:
                rng.shuffle(ordering)
            fs[name] = Format(modes, tuple(ordering))
        return Problem(a, fs)
    raise RuntimeError("could not generate a problem")


def problem_term(p):
    return f"(MkProblem (ExAssignment {ex_term(p.assignment.target)} {ex_term(p.assignment.expression)}) {formats_term(p.formats)})"


def definition_term(d):
    return f"(MkDefinition {id_term(d.output_variable)} {formats_term(d.formats)} {dims_term(d.indexes)})"


def module_case(rng):
    import tensora.generate._tensora as GT
    from tensora.ir import types
    from tensora.ir.ast import Block, FunctionDefinition, Variable
    from tensora.kernel_type import KernelType

    p = sugar_problem(rng)
    ks = [rng.choice(list(KernelType)) for _ in range(rng.choice([0, 1, 1, 2, 3, 3, 4]))]
    if rng.random() < 0.3:
        ks = [KernelType.evaluate, KernelType.assemble, KernelType.compute]
    calls = []

    def stub(definition, graph, kernel_type):
        calls.append((definition, graph, kernel_type))
        return FunctionDefinition(Variable(kernel_type.name), [], types.integer, Block([]))

    saved = GT.generate_ir
    GT.generate_ir = stub
    try:
        want = res_term(lambda: GT.generate_module_tensora(p, ks),
                        lambda r: result_term(r, lambda m: clist(cstr(f.name.name) for f in m.definitions)))
    finally:
        GT.generate_ir = saved
    plan = "None"
    same = True
    if calls:
        d0, g0, _ = calls[0]
        # ONE definition and ONE graph object for all kinds, kinds in the order requested
        same = all(d is d0 and g is g0 for d, g, _ in calls) and [k for _, _, k in calls] == ks[:len(calls)]
        plan = f"(Some ({definition_term(d0)}, {graph_term(g0)}))"
    if not same:
        want = '(PRaise "DifferentPlanPerKind")'
    return (f"CModule {problem_term(p)} {clist(kt_term(k) for k in ks)} {plan} {want}",
            f"generate_module_tensora({p.assignment.deparse()}, {({k: v.deparse() for k, v in p.formats.items()})}, {[k.name for k in ks]})")


def code_case(rng):
    import tensora.generate._base as GB
    from returns.result import Failure, Success
    from tensora.desugar import DiagonalAccessError, NoKernelFoundError
    from tensora.desugar import ast as D
    from tensora.ir import types
    from tensora.ir.ast import Block, FunctionDefinition, Module, Variable

    names = [rng.choice(["evaluate", "assemble", "compute"]) for _ in range(rng.choice([0, 1, 2, 3]))]
    c = rng.random()
    if c < 0.55:
        r = Success(Module([FunctionDefinition(Variable(n), [], types.integer, Block([])) for n in names]))
        fds = clist(f'FunctionDefinition (Var {cstr(n)}) [] TInteger (Block [] None)' for n in names)
        rt = f"(POk (inl (IRModule {fds})))"
    elif c < 0.75:
        r = Failure(NoKernelFoundError())
        rt = '(POk (inr "NoKernelFoundError"))'
    elif c < 0.9:
        r = Failure(DiagonalAccessError(D.Tensor(1, "A", ("i", "i"))))
        rt = '(POk (inr "DiagonalAccessError"))'
    else:
        r = None
        rt = '(PRaise "KeyError")'
    lang = rng.choice(list(GB.Language))
    craise, lraise = rng.random() < 0.15, rng.random() < 0.15

    def gm(problem, kernel_types):
        if r is None:
            raise KeyError("x")
        return r

    class L:
        def __init__(self, m):
            self.m = m

        def __str__(self):
            return "LLVM:" + ",".join(f.name.name for f in self.m.definitions)

    def c_printer(m):
        if craise:
            raise NotImplementedError()
        return "C:" + ",".join(f.name.name for f in m.definitions)

    def l_printer(m):
        if lraise:
            raise NotImplementedError()
        return L(m)

    saved = (GB.generate_module_tensora, GB.ir_to_c, GB.ir_to_llvm)
    GB.generate_module_tensora, GB.ir_to_c, GB.ir_to_llvm = gm, c_printer, l_printer
    try:
        want = res_term(lambda: GB.generate_code(None, [], lang), lambda x: result_term(x, cstr))
    finally:
        GB.generate_module_tensora, GB.ir_to_c, GB.ir_to_llvm = saved
    return (f"CCode {rt} Language_{lang.name} {cbool(craise)} {cbool(lraise)} {want}",
            f"generate_code(module result {rt[:40]}, {lang.name}, c raises={craise}, llvm raises={lraise})")


ASSIGNMENTS = {"y(i) = A(i,j) * x(j)": ["A:ds", "A:d1s0", "x:d", "x:s", "y:d", "y:s", "A:sd"],
               "a(i,j) = b(i,j) + c(j,i)": ["b:ds", "c:d1d0", "a:dd", "a:ss", "c:ds"],
               "a = b(i) * c(i)": ["b:s"], "y(i) = ": [], "a(i) = a(i) + b(i)": ["a:d", "b:s"],
               "A(i,j) = B(i,k) * C(k,j)": ["B:ss", "C:dd", "A:ds", "B:ds", "C:d1s0"], "t(i) = 2 * x(i)": ["x:s", "t:d"], "((": ["A:d"],
               "y(i) = A(i,j) * x(j) + z(i)": ["A:ds", "z:s", "x:d", "y:d"]}
BAD_FORMATS = ["A:", "A", "A:dx", "q:d", "A:d0d0", "A:d", "y:dd"]


def cli_case(rng):
    import tensora.cli as C
    import typer
    from returns.result import Failure, Success
    from tensora.expression import parse_assignment
    from tensora.format import parse_named_format
    from tensora.generate import Language
    from tensora.kernel_type import KernelType

    a = rng.choice(sorted(ASSIGNMENTS))
    pool = ASSIGNMENTS[a] or BAD_FORMATS
    strs = [rng.choice(pool) for _ in range(rng.choice([0, 0, 1, 2, 2, 3]))]
    if rng.random() < 0.6:  # mostly distinct tensors, so that the loop runs to its end
        seen_t, keep = set(), []
        for s_ in strs:
            if s_.split(":")[0] not in seen_t:
                seen_t.add(s_.split(":")[0])
                keep.append(s_)
        strs = keep
    if rng.random() < 0.15:
        strs.insert(rng.randrange(len(strs) + 1), rng.choice(BAD_FORMATS))
    ks = [rng.choice(list(KernelType)) for _ in range(rng.choice([0, 1, 1, 2, 3]))]
    lang = rng.choice(list(Language))
    gc_mode = rng.choice(["ok", "ok", "ok", "fail", "raise"])
    rec = {"mp_args": None, "mp": None, "gc_args": None, "out": []}

    def mp(pa, pf):
        rec["mp_args"] = (pa, dict(pf))
        try:
            rec["mp"] = ("ret", saved[0](pa, pf))
        except Exception as e:  # noqa: BLE001
            rec["mp"] = ("raise", e)
            raise
        return rec["mp"][1]

    def gc(problem, kernel_types, language):
        rec["gc_args"] = (problem, list(kernel_types), language)
        if gc_mode == "ok":
            return Success("CODE")
        if gc_mode == "fail":
            return Failure(RuntimeError("no"))
        raise KeyError("k")

    def echo(msg=None, err=False, **kw):
        if not err:
            rec["out"].append(str(msg))

    saved = (C.make_problem, C.generate_code, typer.echo)
    C.make_problem, C.generate_code, typer.echo = mp, gc, echo
    try:
        try:
            C.tensora(a, strs, ks, lang, None)
            want = f"(POk {cstr(rec['out'][-1])})" if len(rec["out"]) == 1 else '(PRaise "NoOutput")'
        except typer.Exit as e:
            want = f'(PRaise "Exit({e.exit_code})")'
        except Exception as e:  # noqa: BLE001
            want = f"(PRaise {cstr(type(e).__name__)})"
    finally:
        C.make_problem, C.generate_code, typer.echo = saved

    def pa_entry(s):
        match parse_assignment(s):
            case Success(x):
                return f"({cstr(s)}, inl (ExAssignment {ex_term(x.target)} {ex_term(x.expression)}))"
            case Failure(e):
                return f"({cstr(s)}, inr {cstr(type(e).__name__)})"

    def pf_entry(s):
        match parse_named_format(s):
            case Success((t, f)):
                return f"({cstr(s)}, inl ({cstr(t)}, {format_term(f)}))"
            case Failure(e):
                return f"({cstr(s)}, inr {cstr(type(e).__name__)})"

    wf = formats_term(rec["mp_args"][1]) if rec["mp_args"] else "[]"
    if rec["mp"] is None:
        mpt = '(PRaise "NotCalled")'
    elif rec["mp"][0] == "raise":
        mpt = f"(PRaise {cstr(type(rec['mp'][1]).__name__)})"
    else:
        mpt = "(POk " + result_term(rec["mp"][1], lambda p: f"(MkProblem (ExAssignment {ex_term(p.assignment.target)} {ex_term(p.assignment.expression)}) {formats_term(p.formats)})") + ")"
    gct = {"ok": '(POk (inl "CODE"))', "fail": '(POk (inr "RuntimeError"))', "raise": '(PRaise "KeyError")'}[gc_mode]
    # what reached generate_code must be what was given (order and repetitions kept)
    if rec["gc_args"] is not None and (rec["gc_args"][1] != ks or rec["gc_args"][2] != lang):
        want = '(PRaise "RequestChanged")'
    seen = []
    for s in strs:
        if s not in seen:
            seen.append(s)
    return (f"CCli [{pa_entry(a)}] {clist(pf_entry(s) for s in seen)} {cstr(a)} {clist(cstr(s) for s in strs)} "
            f"{clist(kt_term(k) for k in ks)} Language_{lang.name} {wf} {mpt} {gct} {want}",
            f"cli.tensora({a!r}, {strs}, {[k.name for k in ks]}, {lang.name}) generate_code: {gc_mode}")


def defaults_case(rng):
    """through typer itself: what generate_code receives when -t / -l are not given, and that given -t are kept in order"""
    import tensora.cli as C
    from returns.result import Success
    from typer.testing import CliRunner

    from tensora.kernel_type import KernelType

    rec = {}

    def gc(problem, kernel_types, language):
        rec["args"] = (list(kernel_types), language)
        return Success("CODE")

    given = [rng.choice(list(KernelType)) for _ in range(rng.choice([0, 0, 2, 3]))]
    saved = C.generate_code
    C.generate_code = gc
    try:
        args = ["y(i) = A(i,j) * x(j)"]
        for k in given:
            args += [rng.choice(["-t", "--type"]), k.name]
        res = CliRunner().invoke(C.app, args)
    finally:
        C.generate_code = saved
    if res.exit_code != 0 or "args" not in rec:
        return "CDefaults [] Language_llvm", f"typer run failed: {res.output[-200:]}"
    ks, lang = rec["args"]
    if given:
        okk = ks == given
        return (f"CKind KernelType_compute {cbool(not okk)} true \"compute\"", f"typer keeps -t order: given {[k.name for k in given]} got {[k.name for k in ks]}")
    return f"CDefaults {clist(kt_term(k) for k in ks)} Language_{lang.name}", "typer defaults reach generate_code"


def t_glue(rng, n):
    from tensora.desugar import best_algorithm, index_dimensions, to_identifiable
    from tensora.desugar._index_dimensions import index_dimensions_expression
    from tensora.kernel_type import KernelType

    cases, descr = [], []
    i = 0
    while len(cases) < n:
        kind = i % 12
        i += 1
        if kind in (0, 1):
            a, fs = gen_problem(rng)
            t = a.target if kind == 0 else a.expression
            # any tensor leaf of the expression
            from tensora.desugar import ast as D
            while not isinstance(t, D.Tensor):
                if isinstance(t, (D.Integer, D.Float)):
                    break
                t = t.expression if isinstance(t, D.Contract) else rng.choice([t.left, t.right])
            cases.append(f"CIdent {de_term(t)} {formats_term(fs)} {res_term(lambda: to_identifiable(t, fs), id_term)}")
            descr.append(f"to_identifiable({t}, {({k: v.deparse() for k, v in fs.items()})})")
        elif kind in (2, 3):
            a, _ = gen_problem(rng)
            if kind == 2:
                cases.append(f"CDims (DeAssignment {de_term(a.target)} {de_term(a.expression)}) {dims_term(index_dimensions(a))}")
                descr.append(f"index_dimensions({a})")
            else:
                cases.append(f"CDimsE {de_term(a.expression)} {dims_term(index_dimensions_expression(a.expression))}")
                descr.append(f"index_dimensions_expression({a.expression})")
        elif kind in (4, 5):
            a, fs = gen_problem(rng)
            w = res_term(lambda: best_algorithm(a, fs), lambda r: result_term(r, graph_term))
            cases.append(f"CBest (DeAssignment {de_term(a.target)} {de_term(a.expression)}) {formats_term(fs)} {w}")
            descr.append(f"best_algorithm({a}, {({k: v.deparse() for k, v in fs.items()})})")
        elif kind == 6:
            k = list(KernelType)[(i // 12) % 3]
            cases.append(f"CKind {kt_term(k)} {cbool(k.is_assemble())} {cbool(k.is_compute())} {cstr(k.value)}")
            descr.append(f"KernelType.{k.name}")
        elif kind in (7, 8):
            c, d = module_case(rng)
            cases.append(c)
            descr.append(d)
        elif kind == 9:
            c, d = code_case(rng)
            cases.append(c)
            descr.append(d)
        elif kind == 10:
            c, d = cli_case(rng)
            cases.append(c)
            descr.append(d)
        else:
            if (i // 12) % 3 == 0:
                c, d = defaults_case(rng)
            else:
                c, d = cli_case(rng)
            cases.append(c)
            descr.append(d)
    text = HEAD + ("From TV Require Import model.GraphsIter gen.ExhaustAst gen.Deparse gen.Desugar gen.IterGraphs gen.IRAst gen.GlueGen.\n"
                   "Open Scope list_scope.\n") + EQB
    text += "Definition cases : list tcase :=\n [" + ";\n  ".join(cases) + "].\n"
    text += "Eval vm_compute in (failing (map ok cases)).\n"
    return {"coq": text, "n": len(cases), "descr": descr}


TARGETS = {"glue": t_glue}
