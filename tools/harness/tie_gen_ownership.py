"""TIE self-check for the regenerated ownership effect programs (gen/OwnershipGen.v), implementation side.

The REAL functions of /repo (compile/_cffi_ownership.py, TensorMethod.__call__, Tensor.from_aos / __setstate__) are
run with the real cffi; `tensor_cdefs.gc` is replaced by a recording stand-in (returns a fresh non-owning cdata and
logs pointer + destructor, so that nothing is really freed and hand-made structures can be used).  What is
compared with the regenerated Gallina programs run in the machine of model/OwnershipApi.v:

  * the exception class, or
  * the memory holder registered in global_weakkeydict for the structure: its keys in insertion order and, per
    slot, the shape of the value with every cdata classified as  gc:<field> / new:<field> / ptr:<field> / null,
    <field> being the field of the C structure that holds the same address (dims, ord, types, ind, L<i>, L<i>.<j>,
    vals, self);
  * the pointers ffi.gc was called on, in order, named the same way;
  * order, mode_types and the number of arrays per level read back from the C structure.

Kinds of cases: allocate_taco_structure (valid and invalid arguments), taco_structure_to_cffi, Tensor.from_aos,
pickle round trip (__setstate__), take_ownership_of_arrays (after a simulated kernel, twice, without holder),
take_ownership_of_tensor_members / take_ownership_of_tensor on hand-made structures, TensorMethod.__call__ with
real kernels (a few formats, LLVM back end)."""

from __future__ import annotations

from harness.tie_gen import HEAD, clist, cstr, cz

COQ_SUPPORT = r"""
From TV Require Import model.Ownership model.OwnershipApi gen.OwnershipGen.
Open Scope list_scope.
Definition shn (n : nat) : string := show_Z (Z.of_nat n).
Definition ptr_eqb (a b : ptr) : bool :=
  match a, b with
  | Null, Null => true
  | Arr x, Arr y => Nat.eqb x y
  | Meta x, Meta y => Nat.eqb x y
  | SPtr x, SPtr y => Nat.eqb x y
  | _, _ => false
  end.
Fixpoint find_arr (p : ptr) (pre : string) (j : nat) (a : list ptr) : option string :=
  match a with
  | [] => None
  | q :: a' => if ptr_eqb p q then Some (pre ++ "." ++ shn j)%string else find_arr p pre (S j) a'
  end.
Fixpoint find_level (p : ptr) (i : nat) (ls : list (ptr * list ptr)) : option string :=
  match ls with
  | [] => None
  | (lp, arrs) :: r =>
      if ptr_eqb p lp then Some ("L" ++ shn i)%string
      else match find_arr p ("L" ++ shn i)%string 0 arrs with
           | Some s => Some s
           | None => find_level p (S i) r
           end
  end.
Definition pname (s : nat) (d : sdesc) (p : ptr) : string :=
  match p with
  | Null => "null"
  | _ =>
    if ptr_eqb p (SPtr s) then "self"
    else if ptr_eqb p (sd_dims_p d) then "dims"
    else if ptr_eqb p (sd_ordering_p d) then "ord"
    else if ptr_eqb p (sd_types_p d) then "types"
    else if ptr_eqb p (sd_indices_p d) then "ind"
    else if ptr_eqb p (sd_vals d) then "vals"
    else match find_level p 0 (sd_levels d) with Some x => x | None => "?" end
  end.
Fixpoint show_pv (s : nat) (d : sdesc) (v : pv) : string :=
  match v with
  | PPtr Null => "null"
  | PPtr p => "ptr:" ++ pname s d p
  | PGc p => "gc:" ++ pname s d p
  | PNewArr a => "new:" ++ pname s d (Arr a)
  | PNewMeta n _ => "new:" ++ pname s d (Meta n)
  | PList l => "[" ++ String.concat "," ((fix go (l : list pv) : list string :=
                                             match l with [] => [] | x :: r => show_pv s d x :: go r end) l) ++ "]"
  | _ => "?"
  end%string.
(* observation of structure s in state m: holder slots, gc log, structure read-back *)
Definition observe (m : mstate) (s : nat) : list string :=
  match lookup s (m_structs m) with
  | None => ["no structure"]
  | Some d =>
      (match lookup s (m_wkd m) with
       | None => ["no holder"]
       | Some h => match lookup h (m_dicts m) with
                   | None => ["no dict"]
                   | Some l => map (fun p => (fst p ++ "=" ++ show_pv s d (snd p))%string) l
                   end
       end)
      ++ ["gc:" ++ String.concat "," (map (pname s d) (m_gc_log m))]%string
      ++ ["order=" ++ show_Z (sd_order d) ++ " modes=" ++ String.concat "," (map show_Z (sd_modes d))
          ++ " arrays=" ++ String.concat "," (map (fun l => shn (List.length (snd l))) (sd_levels d))]%string
  end.
Definition exc_name (e : exc) : string :=
  match e with
  | KeyError => "KeyError" | IndexError => "IndexError" | ValueError => "ValueError" | TypeError => "TypeError"
  | NameError => "NameError" | AttributeError => "AttributeError" | RuntimeError => "RuntimeError"
  | CFault => "CFault" | Unmodelled => "Unmodelled"
  end.
Definition struct_of_result (m : mstate) (v : pv) : option nat :=
  match v with
  | PStruct s => Some s
  | PTensor w => lookup w (m_tensors m)
  | _ => None
  end.
(* run a program; observe the structure it returns (or the given one) *)
Definition obs_run (x : M pv) (k : kenv) (m : mstate) (fixed : option nat) : list string :=
  match x k m with
  | (m', Ret v) =>
      match (match fixed with Some s => Some s | None => struct_of_result m' v end) with
      | Some s => observe m' s
      | None => ["no result structure"]
      end
  | (_, Raise e) => ["raise " ++ exc_name e]%string
  end.
Definition seqM (a : M pv) (b : pv -> M pv) : M pv := mbind a b.
Fixpoint lstr_eqb (a b : list string) : bool :=
  match a, b with
  | [], [] => true
  | x :: a', y :: b' => String.eqb x y && lstr_eqb a' b'
  | _, _ => false
  end.
Definition k0 (out : nat) (empty : bool) : kenv := {| k_out := out; k_empty := empty; k_ret := 0%Z |}.
Definition ints (l : list Z) : pv := PList (map PInt l).
"""


class Recorder:
    """stand-in for tensor_cdefs.gc"""

    def __init__(self, own):
        self.own = own
        self.ffi = own.tensor_cdefs
        self.log = []        # (address, destructor is free)
        self.ids = {}        # id(cdata) -> address
        self.keep = []

    def gc(self, cdata, destructor, size=0):
        addr = int(self.ffi.cast("intptr_t", cdata))
        new = self.ffi.cast(self.ffi.typeof(cdata) if self.ffi.typeof(cdata).kind == "pointer" else "void*", cdata)
        self.log.append((addr, destructor is self.own.tensor_lib.free))
        self.ids[id(new)] = addr
        self.keep.append(new)
        return new


def field_names(ffi, t):
    """address -> field name of structure t"""
    names = {}

    def put(addr, name):
        if addr != 0 and addr not in names:
            names[addr] = name

    a = lambda x: int(ffi.cast("intptr_t", x))  # noqa: E731
    put(a(t), "self")
    put(a(t.dimensions), "dims")
    put(a(t.mode_ordering), "ord")
    put(a(t.mode_types), "types")
    put(a(t.indices), "ind")
    put(a(t.vals), "vals")
    if t.indices != ffi.NULL:
        for i in range(t.order):
            put(a(t.indices[i]), f"L{i}")
            if t.mode_types[i] == 1 and t.indices[i] != ffi.NULL:
                for j in range(2):
                    put(a(t.indices[i][j]), f"L{i}.{j}")
    return names


def show_value(ffi, rec, names, v):
    if isinstance(v, list):
        return "[" + ",".join(show_value(ffi, rec, names, x) for x in v) + "]"
    if isinstance(v, ffi.CData):
        addr = int(ffi.cast("intptr_t", v))
        nm = "null" if addr == 0 else names.get(addr, "?")
        if id(v) in rec.ids:
            return "gc:" + nm
        if ffi.typeof(v).kind == "array":
            return "new:" + nm
        if addr == 0:
            return "null"
        # the owning cdata of ffi.new("taco_tensor_t*") is a pointer kind too, but it is never stored in a holder
        return "ptr:" + nm
    return "?"


def observe(own, rec, t, arrays_per_level=None):
    ffi = own.tensor_cdefs
    names = field_names(ffi, t)
    out = []
    try:
        holder = own.global_weakkeydict[t]
    except KeyError:
        holder = None
    if holder is None:
        out.append("no holder")
    else:
        for k, v in holder.items():
            out.append(f"{k}={show_value(ffi, rec, names, v)}")
    out.append("gc:" + ",".join("null" if a == 0 else names.get(a, "?") for a, _ in rec.log))
    modes = [int(t.mode_types[i]) for i in range(t.order)]
    arrays = arrays_per_level if arrays_per_level is not None else [2 if m == 1 else 0 for m in modes]
    out.append(f"order={t.order} modes={','.join(map(str, modes))} arrays={','.join(map(str, arrays))}")
    return out


def lstr(xs) -> str:
    return clist(cstr(x) for x in xs)


def sim_kernel(ffi, t, keep, empty):
    """what a kernel leaves in the output structure: malloc'ed pos / crd per compressed level, vals"""
    for i in range(t.order):
        if t.mode_types[i] == 1:
            pos = ffi.new("int32_t[]", 4)
            keep.append(pos)
            t.indices[i][0] = pos
            if empty:
                t.indices[i][1] = ffi.NULL
            else:
                crd = ffi.new("int32_t[]", 4)
                keep.append(crd)
                t.indices[i][1] = crd
    vals = ffi.new("double[]", 4)
    keep.append(vals)
    t.vals = vals


def valid_data(rng, modes, dims, ordering):
    """indices / vals accepted by taco_structure_to_cffi"""
    nnz = 1
    indices = []
    for lvl, m in enumerate(modes):
        d = dims[ordering[lvl]]
        if m == 0:
            indices.append([])
            nnz *= d
        else:
            pos = [0]
            crd = []
            for _ in range(nnz):
                k = rng.randrange(0, min(d, 2) + 1) if d > 0 else 0
                crd += sorted(rng.sample(range(d), k)) if d > 0 else []
                pos.append(len(crd))
            indices.append([pos, crd])
            nnz = len(crd)
    return indices, [float(i) for i in range(nnz)]


def c_indices(indices) -> str:
    return "(PList " + clist("(PList " + clist("(ints " + clist(cz(x) for x in arr) + ")" for arr in lvl) + ")"
                             for lvl in indices) + ")"


def hand_struct(own, keep, modes, empty):
    """a taco_tensor_t allocated 'elsewhere' (all pieces kept alive here); returns (non-owning pointer, Coq state)"""
    ffi = own.tensor_cdefs
    t = ffi.new("taco_tensor_t*")
    order = len(modes)
    dims = ffi.new("int32_t[]", [3] * order)
    ordering = ffi.new("int32_t[]", list(range(order)))
    types = ffi.new("taco_mode_t[]", modes)
    levels = []
    coq_levels = []
    a = 100
    for i, m in enumerate(modes):
        if m == 1:
            pos = ffi.new("int32_t[]", 4)
            crd = ffi.NULL if empty else ffi.new("int32_t[]", 4)
            lv = ffi.new("int32_t*[]", [pos, crd])
            keep += [pos, crd]
            coq_levels.append(f"(Meta {4 + i}, [Arr {a}; {'Null' if empty else f'Arr {a + 1}'}])")
            a += 2
        else:
            lv = ffi.new("int32_t*[]", 0)
            coq_levels.append(f"(Meta {4 + i}, [])")
        levels.append(lv)
    ind = ffi.new("int32_t**[]", levels)
    vals = ffi.new("double[]", 4)
    t.order = order
    t.dimensions = dims
    t.mode_ordering = ordering
    t.mode_types = types
    t.indices = ffi.cast("int32_t***", ind)
    t.vals = vals
    keep += [t, dims, ordering, types, levels, ind, vals]
    ptr = ffi.cast("taco_tensor_t*", t)
    keep.append(ptr)
    sd = ("{| sd_order := " + cz(order) + "; sd_dims_p := Meta 0; sd_ordering_p := Meta 1; sd_types_p := Meta 2; "
          "sd_modes := " + clist(cz(m) for m in modes) + "; sd_indices_p := Meta 3; sd_levels := " + clist(coq_levels)
          + f"; sd_vals := Arr {a} |}}")
    state = ("{| m_tensors := []; m_structs := [(0, " + sd + ")]; m_dicts := []; m_wkd := []; m_heap := []; m_frees := []; "
             "m_meta_frees := []; m_gc_log := []; m_next := 1; m_next_meta := 50 |}")
    return ptr, state


def t_ownership(rng, n):
    import pickle

    import tensora.compile._cffi_ownership as own
    import tensora.compile._tensor_method as tmm
    from tensora import Tensor
    from tensora.format import Format, Mode

    ffi = own.tensor_cdefs
    real_gc = ffi.gc
    cases, descr = [], []
    keep = []

    def add(coq_prog, fixed, expected, text):
        fx = f"(Some {fixed})" if fixed is not None else "None"
        cases.append(f"(lstr_eqb (obs_run ({coq_prog[0]}) {coq_prog[1]} {coq_prog[2]} {fx}) {lstr(expected)})")
        descr.append(f"{text} -> {expected}")

    def fresh():
        rec = Recorder(own)
        ffi.gc = rec.gc
        return rec

    def rand_fmt(maxorder=3):
        order = rng.choice([0, 1, 1, 2, 2, 3][: 2 * maxorder])
        modes = [rng.choice([0, 1]) for _ in range(order)]
        dims = [rng.choice([0, 1, 2, 3]) for _ in range(order)]
        ordering = list(range(order))
        rng.shuffle(ordering)
        return modes, dims, ordering

    def c_args(modes, dims, ordering):
        return f"(ints {clist(cz(x) for x in modes)}) (ints {clist(cz(x) for x in dims)}) (ints {clist(cz(x) for x in ordering)})"

    try:
        kinds = ["alloc", "alloc_bad", "to_cffi", "from_aos", "pickle", "take", "take_twice", "take_nokey",
                 "members", "tensor", "members_after_tensor_twice"]
        budget = max(n - 8, 20)
        for i in range(budget):
            kind = kinds[i % len(kinds)]
            modes, dims, ordering = rand_fmt()
            empty = rng.random() < 0.3
            rec = fresh()
            if kind == "alloc":
                try:
                    t = own.allocate_taco_structure(tuple(modes), tuple(dims), tuple(ordering))
                    keep.append(t)
                    exp = observe(own, rec, t)
                except Exception as e:  # noqa: BLE001
                    exp = [f"raise {type(e).__name__}"]
                add((f"allocate_taco_structure {c_args(modes, dims, ordering)}", "(k0 0 false)", "m_init"), None,
                    exp, f"allocate{modes, dims, ordering}")
            elif kind == "alloc_bad":
                which = rng.randrange(5)
                if which == 0:
                    dims = dims + [1]
                elif which == 1 and modes:
                    modes[rng.randrange(len(modes))] = rng.choice([2, -1])
                elif which == 2 and dims:
                    dims[rng.randrange(len(dims))] = -1
                elif which == 3 and ordering:
                    ordering[rng.randrange(len(ordering))] = rng.choice([len(ordering), 0, -1])
                else:
                    ordering = ordering + [len(ordering)]
                try:
                    t = own.allocate_taco_structure(tuple(modes), tuple(dims), tuple(ordering))
                    keep.append(t)
                    exp = observe(own, rec, t)
                except Exception as e:  # noqa: BLE001
                    exp = [f"raise {type(e).__name__}"]
                add((f"allocate_taco_structure {c_args(modes, dims, ordering)}", "(k0 0 false)", "m_init"), None,
                    exp, f"allocate{modes, dims, ordering}")
            elif kind in ("to_cffi", "from_aos", "pickle"):
                indices, vals = valid_data(rng, modes, dims, ordering)
                cv = f"(ints {clist(cz(int(v)) for v in vals)})"
                if kind == "to_cffi":
                    t = own.taco_structure_to_cffi(indices, vals, mode_types=tuple(modes), dimensions=tuple(dims),
                                                   mode_ordering=tuple(ordering))
                    keep.append(t)
                    add((f"taco_structure_to_cffi {c_indices(indices)} {cv} {c_args(modes, dims, ordering)} None",
                         "(k0 0 false)", "m_init"), None, observe(own, rec, t), f"taco_structure_to_cffi{modes, dims, ordering}")
                else:
                    fmt = Format(tuple(Mode.from_c_int(m) for m in modes), tuple(ordering))
                    dok = {}
                    src = Tensor.from_dok(dok, dimensions=tuple(dims), format=fmt)
                    keep.append(src)
                    # from_aos on empty data: the index arrays are those of an empty tensor
                    e_indices = src.taco_indices
                    e_vals = src.taco_vals
                    cev = f"(ints {clist(cz(int(v)) for v in e_vals)})"
                    if kind == "from_aos":
                        rec = fresh()
                        t2 = Tensor.from_aos([], [], dimensions=tuple(dims), format=fmt)
                        keep.append(t2)
                        add((f"Tensor_from_aos_tail (ints {clist(cz(x) for x in modes)}) (ints {clist(cz(x) for x in dims)}) "
                             f"(ints {clist(cz(x) for x in ordering)}) {c_indices(e_indices)} {cev} None",
                             "(k0 0 false)", "m_init"), None, observe(own, rec, t2.cffi_tensor), f"from_aos empty {modes, dims, ordering}")
                    else:
                        rec = fresh()
                        t2 = pickle.loads(pickle.dumps(src))
                        keep.append(t2)
                        state = ("(PDictV [(\"dimensions\", ints " + clist(cz(x) for x in dims) + "); (\"mode_types\", ints "
                                 + clist(cz(x) for x in modes) + "); (\"mode_ordering\", ints " + clist(cz(x) for x in ordering)
                                 + f"); (\"indices\", {c_indices(e_indices)}); (\"vals\", {cev})])")
                        add((f"seqM (Tensor_setstate (PTensor 77) {state} None) (fun _ => ret (PTensor 77))",
                             "(k0 0 false)", "m_init"), None, observe(own, rec, t2.cffi_tensor), f"pickle {modes, dims, ordering}")
            elif kind in ("take", "take_twice"):
                twice = "seqM (take_ownership_of_arrays t) (fun _ => " if kind == "take_twice" else ""
                prog = (f"seqM (allocate_taco_structure {c_args(modes, dims, ordering)}) (fun t => "
                        f"seqM (call_kernel (PList [t])) (fun _ => {twice}seqM (take_ownership_of_arrays t) (fun _ => ret t)"
                        + (")" if twice else "") + "))")
                try:
                    t = own.allocate_taco_structure(tuple(modes), tuple(dims), tuple(ordering))
                    keep.append(t)
                    sim_kernel(ffi, t, keep, empty)
                    own.take_ownership_of_arrays(t)
                    if kind == "take_twice":
                        own.take_ownership_of_arrays(t)
                    exp = observe(own, rec, t)
                except Exception as e:  # noqa: BLE001
                    exp = [f"raise {type(e).__name__}"]
                add((prog, f"(k0 0 {'true' if empty else 'false'})", "m_init"), None, exp,
                    f"{kind}{modes, dims, ordering} empty={empty}")
            elif kind == "take_nokey":
                t = ffi.new("taco_tensor_t*")
                keep.append(t)
                try:
                    own.take_ownership_of_arrays(t)
                    exp = ["no exception"]
                except Exception as e:  # noqa: BLE001
                    exp = [f"raise {type(e).__name__}"]
                add(("seqM new_struct (fun t => take_ownership_of_arrays t)", "(k0 0 false)", "m_init"), None, exp,
                    "take_ownership_of_arrays without holder")
            else:
                ptr, state = hand_struct(own, keep, modes, empty)
                arrays = [2 if m == 1 else 0 for m in modes]
                try:
                    if kind == "members":
                        prog = "take_ownership_of_tensor_members (PPtr (SPtr 0))"
                        own.take_ownership_of_tensor_members(ptr)
                    elif kind == "tensor":
                        prog = "take_ownership_of_tensor (PPtr (SPtr 0))"
                        own.take_ownership_of_tensor(ptr)
                    else:
                        prog = ("seqM (take_ownership_of_tensor (PPtr (SPtr 0))) (fun _ => take_ownership_of_arrays (PPtr (SPtr 0)))")
                        own.take_ownership_of_tensor(ptr)
                        own.take_ownership_of_arrays(ptr)
                    exp = observe(own, rec, ptr, arrays)
                except Exception as e:  # noqa: BLE001
                    exp = [f"raise {type(e).__name__}"]
                add((prog, "(k0 0 false)", state), 0, exp, f"{kind} modes={modes} empty={empty}")

        # ---- TensorMethod.__call__ with real kernels
        from tensora.compile import TensorMethod
        from tensora.expression import parse_assignment
        from tensora.format import parse_format
        from tensora.problem import make_problem

        problems = [("a(i) = b(i)", {"a": "s", "b": "s"}, "s", [[0, 1, 0]]),
                    ("a(i) = b(i)", {"a": "d", "b": "s"}, "s", [[0, 1, 0]]),
                    ("a(i,j) = b(i,j)", {"a": "ds", "b": "ds"}, "ds", None),
                    ("a(i,j) = b(i,j)", {"a": "ss", "b": "ds"}, "ds", None),
                    ("a() = b(i) * c(i)", {"a": "", "b": "s", "c": "d"}, None, None),
                    ("a(i,j) = b(i,j) + c(i,j)", {"a": "dd", "b": "ds", "c": "ss"}, None, None)]
        for text, fmts, _, _ in problems[: max(0, n - budget)]:
            assignment = parse_assignment(text).unwrap()
            formats = {k: parse_format(v).unwrap() for k, v in fmts.items()}
            problem = make_problem(assignment, formats).unwrap()
            tm = TensorMethod(problem)
            out_name = assignment.target.name
            names = list(problem.formats.keys())
            for empty in (False, True):
                inputs = {}
                setup = []
                for nm in names:
                    if nm == out_name:
                        continue
                    f = problem.formats[nm]
                    dims = (3,) * f.order
                    dok = {} if empty else {(1,) * f.order: 2.0}
                    ti = Tensor.from_dok(dok, dimensions=dims, format=f)
                    inputs[nm] = ti
                    keep.append(ti)
                    md = [m.c_int for m in f.modes]
                    setup.append((nm, f"Tensor_from_aos_tail (ints {clist(cz(x) for x in md)}) (ints {clist(cz(x) for x in dims)}) "
                                      f"(ints {clist(cz(x) for x in f.ordering)}) {c_indices(ti.taco_indices)} "
                                      f"(ints {clist(cz(0) for _ in ti.taco_vals)}) None"))
                rec = fresh()
                result = tm(**inputs)
                keep.append(result)
                of = problem.formats[out_name]
                odims = (3,) * of.order
                # the stored result is empty iff every compressed level's crd is NULL
                t = result.cffi_tensor
                kernel_empty = any(t.mode_types[i] == 1 and t.indices[i][1] == ffi.NULL for i in range(t.order))
                # build the Coq program: inputs first, then the call
                prog = ""
                closers = ""
                bound = []
                for idx, (nm, p) in enumerate(setup):
                    prog += f"seqM ({p}) (fun in{idx} => "
                    closers += ")"
                    bound.append(f"({cstr(nm)}, in{idx})")
                call = (f"TensorMethod_call_tail (PDictV {clist(bound)}) (ints {clist(cz(x) for x in odims)}) "
                        f"(PList {clist(f'(PMode {cz(m.c_int)})' for m in of.modes)}) (ints {clist(cz(x) for x in of.ordering)}) "
                        f"(PStr {cstr(out_name)}) (PDictV {clist(f'({cstr(nm)}, PNone)' for nm in names)})")
                prog += call + closers
                exp = observe(own, rec, t)
                add((prog, f"(k0 {names.index(out_name)} {'true' if kernel_empty else 'false'})", "m_init"), None, exp,
                    f"TensorMethod({text}, {fmts}) empty_inputs={empty}")
    finally:
        ffi.gc = real_gc

    text = HEAD + COQ_SUPPORT
    text += "Definition cases : list bool :=\n " + clist(cases) + ".\n"
    text += "Eval vm_compute in (failing cases).\n"
    # keep everything alive until here: nothing above was really freed (gc was a stand-in)
    t_ownership.keep = keep
    return {"coq": text, "n": len(cases), "descr": descr}


TARGETS = {"ownership": t_ownership}
