"""C02 worker: runs inside /venv python with PYTHONPATH=/repo/src and (optionally)
TENSORA_VERIF_INITIAL_CAPACITY set BEFORE tensora is imported (the parent sets the environment).

stdin: one JSON request
   {"mode": "sweep", "seed": s, "tier": t, "shard": k, "nshards": n}
   {"mode": "operators", "seed": s, "tier": t}
   {"mode": "cases", "cases": [ {assignment, formats, inputs:{name:{dims, entries:[[coord,val],..]}}} ]}
   {"mode": "validate", "structures": [ {indices, nvals, mode_types, dimensions, mode_ordering} ]}
stdout: one JSON line per case, flushed (so that a crash of a kernel can be attributed to the next
case), then {"done": true}.

For every case: the real evaluate (LLVM back end) -> RAW arrays read defensively (lengths derived
from pos are checked against the malloc'ed block sizes before anything is read), re-use of the
result inside the library (pickle round-trip through taco_structure_to_cffi, input of a second
kernel, ==, to_format), and the same kernel's IR run on the instrumented IR machine
(c02_irmachine.py) for exact block lengths and the protocol trace.  No verdict is taken here.
"""

from __future__ import annotations

import itertools
import json
import os
import pickle
import random
import sys
import traceback

sys.path.insert(0, os.path.dirname(os.path.abspath(__file__)))

import sweep  # noqa: E402

SKIP_ERRORS = {"DiagonalAccessError", "NoKernelFoundError", "BroadcastTargetIndexError"}

EXTRA_TEMPLATES = [
    # compressed outputs under / above dense levels, contractions and sums underneath
    "a(i,j) = b(i,j) + c(j,i)",
    "a(i,j,k) = b(i,j,k) + c(i,j,k)",
    "a(i,j,k) = b(i,j,k) * c(i,j,k)",
    "a(i,j,k) = b(i,j) * c(j,k)",
    "a(i,j) = b(i,j,k) * c(i,j,k)",
    "a(i,j) = b(i,j,k) + c(i,j,k)",
    "a(i,j) = b(i,k) * c(k,j) + d(i,k) * e(k,j)",
    "a(i,j) = b(i,j) + c(i,k) * d(k,j)",
    "a(i) = b(i,j) + c(i,j)",
    "a(i) = b(i,j) * c(i,j)",
    "a(i) = b(i,j) * c(j) + d(i,j) * e(j)",
    "a(i,j) = b(i) + c(j)",
    "a(i,j) = b(i,j) * c(i) * d(j)",
    "a(i,j) = 2 * b(i,j) - c(i,j)",
    "a(i,j) = b(i,j) * (c(i,j) + 1)",
    "a(i,j) = 0 * b(i,j) + c(i,j)",
    "a(i,j,k) = b(i,j,k) * c(k)",
    "a(i,j,k) = b(i,j,k) + c(k,j,i)",
    "a(i) = (b(i) + c(i)) * d(i) + e(i)",
]


# always swept, whatever the per-template cap: output shapes whose assembly paths are rarely taken
# (a dense level between two compressed levels, compressed below dense under a permuted ordering,
# compressed outputs fed by all-compressed inputs)
PRIORITY = [
    ("a(i,j,k) = b(i,j,k)", {"a": "sds", "b": "sss"}),
    ("a(i,j,k) = b(i,j,k)", {"a": "sds", "b": "dss"}),
    ("a(i,j,k) = b(i,j,k)", {"a": "s2d1s0", "b": "s2s1s0"}),
    ("a(i,j,k) = b(i,j,k)", {"a": "ssd", "b": "sss"}),
    ("a(i,j,k) = b(i,j,k)", {"a": "dsd", "b": "sss"}),
    ("a(i,j,k) = b(i,j,k)", {"a": "s0d2s1", "b": "s0s2s1"}),
    ("a(i,j,k) = b(i,j,k) + c(i,j,k)", {"a": "sds", "b": "sss", "c": "sss"}),
    ("a(i,j,k) = b(i,j,k) * c(i,j,k)", {"a": "sds", "b": "sss", "c": "sss"}),
    ("a(i,j,k) = b(i,j,k) * c(k)", {"a": "sds", "b": "sss", "c": "s"}),
    ("a(i,j) = b(i,j)", {"a": "s1d0", "b": "s1s0"}),
    ("a(i,j) = b(i,j)", {"a": "s1d0", "b": "ds"}),
    ("a(i,j) = b(i,j) + c(i,j)", {"a": "sd", "b": "ss", "c": "ss"}),
    ("a(i,j) = b(i,j) * c(i,j)", {"a": "sd", "b": "ss", "c": "ss"}),
    ("a(i,j) = b(i,k) * c(k,j)", {"a": "ss", "b": "ss", "c": "ss"}),
    ("a(i,j) = b(i,k) * c(k,j)", {"a": "sd", "b": "ss", "c": "ds"}),
]


def err_name(e: BaseException) -> str:
    tb = traceback.extract_tb(e.__traceback__)
    site = "?"
    for fr in reversed(tb):
        if "/tensora/" in fr.filename:
            site = fr.filename.split("/tensora/")[-1] + ":" + fr.name
            break
    return f"{type(e).__name__}@{site}"


def is_skipped(err: str) -> bool:
    cls = err.split("@")[0]
    if cls in SKIP_ERRORS:
        return True
    return cls == "NotImplementedError" and err.endswith("outputs/_append.py:next_output")


# --------------------------------------------------------------------------------------------
# defensive raw read
# --------------------------------------------------------------------------------------------

_libc = None


def usable(ptr) -> int:
    """malloc_usable_size of a kernel-allocated array (0 for NULL)."""
    global _libc
    from tensora.compile import tensor_cdefs

    if _libc is None:
        from cffi import FFI

        f = FFI()
        f.cdef("size_t malloc_usable_size(void *ptr);")
        _libc = (f, f.dlopen(None))
    if ptr == tensor_cdefs.NULL:
        return 0
    return int(_libc[1].malloc_usable_size(_libc[0].cast("void *", ptr)))


def deep_raw(t) -> tuple[dict, list[str]]:
    """RAW structure of a KERNEL OUTPUT, never reading beyond the malloc'ed blocks.  Returns the
    raw dict (crd / vals truncated to what the blocks can hold) and a list of allocation problems."""
    from tensora.compile import tensor_cdefs

    c = t.cffi_tensor
    order = c.order
    dims = [int(c.dimensions[i]) for i in range(order)]
    ordering = [int(c.mode_ordering[i]) for i in range(order)]
    modes = "".join("d" if int(c.mode_types[i]) == 0 else "s" for i in range(order))
    idx = tensor_cdefs.cast("int32_t***", c.indices)
    problems = []
    indices = []
    nnz = 1
    alloc = {}
    for l in range(order):
        if modes[l] == "d":
            indices.append([])
            nnz *= dims[ordering[l]]
            continue
        ppos, pcrd = idx[l][0], idx[l][1]
        upos, ucrd = usable(ppos), usable(pcrd)
        alloc[f"pos{l}"] = upos
        alloc[f"crd{l}"] = ucrd
        need = nnz + 1
        have = min(need, upos // 4)
        if have < need:
            problems.append(f"level {l}: pos block holds {upos // 4} entries, {need} needed")
        pos = [int(ppos[i]) for i in range(have)]
        last = pos[-1] if pos else 0
        k = min(max(last, 0), ucrd // 4)
        if k != last:
            problems.append(f"level {l}: pos[-1] = {last} but the crd block holds {ucrd // 4} entries")
        crd = [int(pcrd[i]) for i in range(k)]
        indices.append([pos, crd])
        nnz = len(crd)
    uv = usable(c.vals)
    alloc["vals"] = uv
    kv = min(nnz, uv // 8)
    if kv != nnz:
        problems.append(f"vals block holds {uv // 8} values, {nnz} needed")
    vals = [float(c.vals[i]) for i in range(kv)]
    return (
        {"dims": dims, "ordering": ordering, "modes": modes, "indices": indices, "vals": vals, "alloc": alloc},
        problems,
    )


# --------------------------------------------------------------------------------------------
# re-use inside the library
# --------------------------------------------------------------------------------------------


def reuse_checks(res, raw) -> dict:
    """pickle round trip, second kernel (copy to all-dense), ==, to_format."""
    from tensora import tensor_method

    out = {}
    try:
        back = pickle.loads(pickle.dumps(res))
        r2 = sweep.raw(back)
        same = all(r2[k] == raw[k] for k in ("dims", "ordering", "modes", "indices", "vals"))
        out["pickle"] = "ok" if same else "changed"
    except Exception as e:
        out["pickle"] = "error " + err_name(e) + ": " + str(e)[:160]
    order = len(raw["dims"])
    fmt = "".join(
        (m + (str(o) if raw["ordering"] != list(range(order)) else ""))
        for m, o in zip(raw["modes"], raw["ordering"])
    )
    try:
        idxs = ",".join("ijklmn"[:order])
        fn = tensor_method(f"o({idxs}) = r({idxs})", {"o": "d" * order, "r": fmt})
        dense = fn(r=res)
        dv = sweep.raw(dense)["vals"]
        want = {}
        try:
            dec = sweep.decode(raw)
            for cc, vs in dec.items():
                want[cc] = sum(vs)
            flat = []
            for cc in itertools.product(*[range(d) for d in raw["dims"]]):
                flat.append(want.get(cc, 0.0))
            out["copy"] = "ok" if flat == list(dv) else "mismatch"
        except Exception as e:  # the raw structure itself cannot be decoded
            out["copy"] = "undecodable " + type(e).__name__
    except Exception as e:
        n = err_name(e)
        out["copy"] = "skip " + n if is_skipped(n) else "error " + n + ": " + str(e)[:160]
    try:
        out["eq"] = "ok" if (res == res) else "unequal-to-itself"
    except Exception as e:
        out["eq"] = "error " + err_name(e)
    try:
        res.to_format("d" * order)
        out["to_format"] = "ok"
    except Exception as e:
        out["to_format"] = "error " + err_name(e)
    return out


# --------------------------------------------------------------------------------------------
# cases
# --------------------------------------------------------------------------------------------


def fmt_has_sparse(fmt: str) -> bool:
    return "s" in fmt


def gen_problems(seed: int, tier: str):
    """(assignment, formats) with a compressed level in the output format; deterministic in seed."""
    rng = random.Random(f"C02-problems:{seed}")
    cap = 9 if tier == "quick" else 120
    problems = [(a, dict(f)) for a, f in PRIORITY]
    templates = list(sweep.TEMPLATES) + EXTRA_TEMPLATES
    for a in templates:
        orders = sweep.orders_of(a)
        names = list(orders)
        out = names[0]
        if orders[out] == 0:
            continue
        chosen = []
        for f in sweep.format_choices(a, rng, cap * 3):
            if fmt_has_sparse(f[out]) and f not in chosen:
                chosen.append(f)
        # targeted: every output format with a compressed level, inputs all dense / all compressed
        for of in sweep.all_formats(orders[out]):
            if not fmt_has_sparse(of):
                continue
            for fill in ("d", "s"):
                f = {n: fill * orders[n] for n in names}
                f[out] = of
                if f not in chosen:
                    chosen.append(f)
        rng.shuffle(chosen)
        problems.extend((a, f) for f in chosen[:cap])
    return problems


def gen_inputs(seed: int, tier: str, pi: int, a: str):
    """Inputs of problem number [pi]: independent of sharding and of the capacity."""
    rng = random.Random(f"C02-inputs:{seed}:{pi}")
    n_sizes = 3 if tier == "quick" else 5
    out = []
    sizes = {}
    for sizes in sweep.index_sizes_choices(a, rng, n_sizes):
        ins = sweep.make_inputs(a, sizes, rng)
        if not ins and sweep.parsed(a).expression.variables():
            continue
        out.append((sizes, ins))
    # one larger, mostly full input so that stored counts reach allocation-granularity boundaries
    big = {i: rng.choice([3, 4, 7]) for i in sizes}
    ins = sweep.make_inputs(a, big, rng)
    if ins:
        for v in ins.values():
            v["entries"] = sweep.random_entries(rng, v["dims"], rng.choice(["full", "full", "random"]))
        out.append((big, ins))
    return out


def entries_to_json(ins):
    return {n: {"dims": v["dims"], "entries": [[list(c), x] for c, x in v["entries"].items()]} for n, v in ins.items()}


def entries_from_json(ins):
    return {n: {"dims": v["dims"], "entries": {tuple(c): x for c, x in v["entries"]}} for n, v in ins.items()}


_IR_CACHE: dict = {}


def run_case(case, with_machine=True) -> dict:
    from tensora import tensor_method
    from tensora.generate import generate_module_tensora
    from tensora.kernel_type import KernelType

    import c02_irmachine as im

    a, f, ins = case["assignment"], case["formats"], case["inputs"]
    rec = {"assignment": a, "formats": f, "inputs": entries_to_json(ins), "capacity": os.environ.get("TENSORA_VERIF_INITIAL_CAPACITY", "")}
    try:
        fn = tensor_method(a, f)
        args = {n: sweep.build(f[n], v["dims"], v["entries"]) for n, v in ins.items()}
    except Exception as e:
        n = err_name(e)
        rec["status"] = "skip" if is_skipped(n) else "error"
        rec["error"] = n + ": " + str(e)[:200]
        return rec
    # 1. the kernel's IR on the instrumented machine FIRST: when it already shows a memory error or an
    #    ill-formed result, the native kernel is not run (it would corrupt this process' heap)
    pa = sweep.parsed(a)
    out_name = pa.target.name
    out_fmt = fn._output_format
    out_modes = ["d" if m.character == "d" else "s" for m in out_fmt.modes]
    out_ordering = list(out_fmt.ordering)
    sizes = {}
    for index, participants in pa.expression.index_participants().items():
        variable, dimension = next(iter(participants))
        sizes[index] = ins[variable]["dims"][dimension]
    out_dims = [sizes[i] for i in pa.target.indexes]
    machine_bad = None
    if with_machine:
        try:
            key = (a, json.dumps(f, sort_keys=True))
            if key not in _IR_CACHE:
                _IR_CACHE.clear()
                _IR_CACHE[key] = generate_module_tensora(fn._problem, [KernelType.evaluate]).unwrap().definitions[0]
            fdef = _IR_CACHE[key]
            in_raw = {n: sweep.raw(t) for n, t in args.items()}
            mres = im.run_kernel(fdef, out_name, out_dims, out_modes, out_ordering, in_raw)
            level_dims = [out_dims[d] for d in out_ordering]
            mrec = {"status": mres["status"], "error": mres["error"], "complete": mres["complete"],
                    "final": mres["final"], "lengths": mres["lengths"]}
            if mres["status"] == "ok" and mres["complete"]:
                mrec["traces"] = im.extract_traces(mres["log"], out_name, out_modes, level_dims, mres["final"])
            rec["machine"] = mrec
            if mres["status"] == "memerror":
                machine_bad = "memory error on the IR machine"
            elif mres["status"] == "outoffuel":
                machine_bad = "kernel does not terminate on the IR machine (fuel exhausted)"
            elif mres["status"] == "ok" and not machine_final_sane(mres["final"], mres["complete"]):
                machine_bad = "ill-formed final arrays on the IR machine"
        except Exception as e:
            rec["machine"] = {"status": "harness-error", "error": type(e).__name__ + ": " + str(e)[:300]}
    if machine_bad:
        rec["status"] = "machine-only"
        rec["real_skipped"] = machine_bad
        return rec
    # 2. the real kernel
    try:
        res = fn(**args)
    except Exception as e:
        n = err_name(e)
        rec["status"] = "skip" if is_skipped(n) else "error"
        rec["error"] = n + ": " + str(e)[:200]
        return rec
    rec["status"] = "ok"
    raw, problems = deep_raw(res)
    rec["raw"] = raw
    rec["alloc_problems"] = problems
    # what the library's own accessors return, when the structure is sane enough to read
    if not problems and raw_sane(raw):
        try:
            r2 = sweep.raw(res)
            rec["accessors_agree"] = all(r2[k] == raw[k] for k in ("dims", "ordering", "modes", "indices", "vals"))
        except Exception as e:
            rec["accessors_agree"] = "error " + type(e).__name__
        rec["reuse"] = reuse_checks(res, raw)
    elif not problems:
        rec["reuse_skipped"] = "structure not sane enough to hand back to the library"
    return rec


def raw_sane(r) -> bool:
    """Cheap structural sanity (NOT the oracle): is it safe to let the library traverse this?"""
    try:
        ldims = [r["dims"][o] for o in r["ordering"]]
        cnt = 1
        for m, ix, d in zip(r["modes"], r["indices"], ldims):
            if m == "d":
                cnt *= d
            else:
                pos, crd = ix
                if len(pos) != cnt + 1 or any(x is None for x in pos) or any(x is None for x in crd):
                    return False
                if pos[0] != 0 or any(a > b for a, b in zip(pos, pos[1:])) or pos[-1] != len(crd):
                    return False
                # unsorted / duplicated / out-of-range coordinates make OTHER kernels run off their
                # arrays (that is what "can be used as an input" is about): do not hand those back
                for q in range(cnt):
                    seg = crd[pos[q] : pos[q + 1]]
                    if any(a >= b for a, b in zip(seg, seg[1:])):
                        return False
                if any(not (0 <= c < d) for c in crd):
                    return False
                cnt = len(crd)
        return r["vals"] is not None and cnt <= len(r["vals"])
    except Exception:
        return False


def machine_final_sane(final, complete) -> bool:
    if not complete:
        return False
    return raw_sane(final)


# --------------------------------------------------------------------------------------------
# operators
# --------------------------------------------------------------------------------------------


def gen_operator_cases(seed: int, tier: str):
    rng = random.Random(f"C02-operators:{seed}")
    n = 120 if tier == "quick" else 2000
    cases = []
    for _ in range(n):
        op = rng.choice(["+", "-", "*", "@", "@", "s*", "*s"])
        if op == "@":
            lo, ro = rng.choice([(1, 2), (2, 1), (2, 2)])
            k = rng.choice([0, 1, 2, 3])
            ld = [rng.choice([0, 1, 2, 3]) for _ in range(lo - 1)] + [k]
            rd = [k] + [rng.choice([0, 1, 2, 3]) for _ in range(ro - 1)]
        else:
            lo = ro = rng.choice([1, 2, 2, 3])
            ld = rd = [rng.choice([0, 1, 2, 3]) for _ in range(lo)]
        lf = rng.choice(sweep.all_formats(lo))
        rf = rng.choice(sweep.all_formats(ro))
        le = sweep.random_entries(rng, ld, rng.choice(sweep.PATTERNS))
        re_ = sweep.random_entries(rng, rd, rng.choice(sweep.PATTERNS))
        cases.append({"op": op, "lf": lf, "rf": rf, "ld": ld, "rd": rd,
                      "le": [[list(c), v] for c, v in le.items()], "re": [[list(c), v] for c, v in re_.items()],
                      "scalar": rng.choice([2.0, -1.0, 0.0, 3.0])})
    return cases


def run_operator_case(c) -> dict:
    rec = dict(c)
    try:
        left = sweep.build(c["lf"], c["ld"], {tuple(k): v for k, v in c["le"]})
        right = sweep.build(c["rf"], c["rd"], {tuple(k): v for k, v in c["re"]})
        op = c["op"]
        if op == "+":
            res = left + right
        elif op == "-":
            res = left - right
        elif op == "*":
            res = left * right
        elif op == "@":
            res = left @ right
        elif op == "s*":
            res = c["scalar"] * right
        else:
            res = left * c["scalar"]
    except Exception as e:
        n = err_name(e)
        rec["status"] = "skip" if is_skipped(n) else "error"
        rec["error"] = n + ": " + str(e)[:200]
        return rec
    rec["status"] = "ok"
    raw, problems = deep_raw(res)
    rec["raw"] = raw
    rec["alloc_problems"] = problems
    if not problems:
        rec["reuse"] = reuse_checks(res, raw)
    return rec


# --------------------------------------------------------------------------------------------
# validate stream: taco_structure_to_cffi on well- and ill-formed structures
# --------------------------------------------------------------------------------------------

VALIDATE_MESSAGES = [
    ("Must all be the same length", "ELengths"),
    ("mode_types must only contain", "EModeType"),
    ("All values in dimensions must be positive", "ENegDim"),
    ("mode_ordering must contain each number", "EOrdering"),
    ("Length of indices", "EIndicesLen"),
    ("is a dense mode", "EDenseNonEmpty"),
    ("is a compressed mode", "ECompressedLen"),
    ("must be weakly", "EPosMono"),
    ("The first element of the pos array", "EPosFirst"),
    ("The pos array of level", "EPosLen"),
    ("The crd array of level", "ECrdLen"),
    ("All values in the crd array", "ECrdRange"),
    ("Length of vals must be equal", "EValsLen"),
]


# --------------------------------------------------------------------------------------------
# mismatch stream: arguments whose dimensions disagree about the size of an index
# --------------------------------------------------------------------------------------------

MISMATCH_PROBLEMS = [
    ("a(i,j) = b(i,j) + c(j,i)", ["ss", "ds", "sd", "dd", "s1s0"]),
    ("a(i,j) = b(i,j) * c(j,i)", ["ss", "ds", "dd"]),
    ("a(i,j) = b(i,k) * c(k,j)", ["ss", "ds", "dd"]),
    ("a(i,j) = b(i,k) * c(j,k)", ["ss", "ds"]),
    ("a(i,j) = b(i,j) + c(i,j)", ["ss", "ds", "s1s0"]),
    ("a(i,j) = b(i,j) * c(i,j) + d(j,i)", ["ss", "ds"]),
    ("a(i) = b(i,j) * c(j,i)", ["s", "d"]),
    ("a(i,j,k) = b(i,j,k) + c(k,j,i)", ["sss", "dss", "ddd"]),
    ("a(i,j,k) = b(i,j,k) * c(j,k,i)", ["sss", "dss"]),
    ("a(i) = b(i) + c(i)", ["s", "d"]),
]
MISMATCH_SHAPES = {1: [(2,), (3,)], 2: [(2, 3), (3, 2), (1, 4), (4, 1), (2, 2)], 3: [(2, 3, 4), (3, 1, 2), (1, 2, 3)]}


def gen_mismatch_cases(seed: int, tier: str):
    """Calls whose arguments need not agree on index sizes: (a) every argument has the SAME shape but
    the assignment uses the shared indexes in different positions, (b) independent shapes per argument.
    The library must refuse (ValueError) or return a well-formed tensor."""
    rng = random.Random(f"C02-mismatch:{seed}")
    reps = 2 if tier == "quick" else 8
    cases = []
    for a, outs in MISMATCH_PROBLEMS:
        orders = sweep.orders_of(a)
        names = list(orders)
        pa = sweep.parsed(a)
        for of in outs:
            for fill in ("d", "s", "ds"):
                # input levels follow the alphabetical order of the tensor's indexes (c(j,i) -> s1s0), so
                # that a kernel exists for compressed inputs used transposed
                f = {}
                for n, occs in pa.expression.variables().items():
                    idx = occs[0].indexes
                    order_ = sorted(range(len(idx)), key=lambda d: idx[d])
                    chars = (fill * len(idx))[: len(idx)] if fill != "ds" else ("d" + "s" * len(idx))[: len(idx)]
                    f[n] = "".join(f"{c}{d}" for c, d in zip(chars, order_))
                f[names[0]] = of
                for rep in range(reps):
                    ins = {}
                    same = rep % 2 == 0
                    shared = {o: rng.choice(MISMATCH_SHAPES[o]) for o in set(orders.values()) if o}
                    for n in names[1:]:
                        dims = list(shared[orders[n]] if same else rng.choice(MISMATCH_SHAPES[orders[n]]))
                        ins[n] = {"dims": dims, "entries": sweep.random_entries(rng, dims, rng.choice(["full", "random", "full"]))}
                    cases.append({"assignment": a, "formats": f, "inputs": ins, "same_shape": same})
    return cases


def run_mismatch_case(c) -> dict:
    from tensora import tensor_method

    a, f, ins = c["assignment"], c["formats"], c["inputs"]
    rec = {"assignment": a, "formats": f, "inputs": entries_to_json(ins), "same_shape": c.get("same_shape"),
           "capacity": os.environ.get("TENSORA_VERIF_INITIAL_CAPACITY", "")}
    pa = sweep.parsed(a)
    consistent = True
    for index, participants in pa.expression.index_participants().items():
        if len({ins[v]["dims"][d] for v, d in participants}) > 1:
            consistent = False
    rec["consistent"] = consistent
    try:
        fn = tensor_method(a, f)
        args = {n: sweep.build(f[n], v["dims"], v["entries"]) for n, v in ins.items()}
    except Exception as e:
        n = err_name(e)
        rec["status"] = "skip" if is_skipped(n) else "error"
        rec["error"] = n + ": " + str(e)[:200]
        return rec
    try:
        res = fn(**args)
    except ValueError as e:
        rec["status"] = "refused"
        rec["error"] = str(e)[:200]
        return rec
    except Exception as e:
        n = err_name(e)
        rec["status"] = "skip" if is_skipped(n) else "error"
        rec["error"] = n + ": " + str(e)[:200]
        return rec
    rec["status"] = "ok"
    raw, problems = deep_raw(res)
    rec["raw"] = raw
    rec["alloc_problems"] = problems
    return rec



def run_validate(s) -> str:
    import re

    from tensora.compile import taco_structure_to_cffi

    try:
        taco_structure_to_cffi(
            s["indices"], [0.0] * s["nvals"], mode_types=tuple(s["mode_types"]),
            dimensions=tuple(s["dimensions"]), mode_ordering=tuple(s["mode_ordering"]),
        )
        return "VOk"
    except ValueError as e:
        msg = str(e)
        for frag, name in VALIDATE_MESSAGES:
            if frag in msg:
                m = re.match(r"(?:Level|The pos array of level|The first element of the pos array of level|The crd array of level|All values in the crd array of level) (\d+)", msg)
                if name in ("EDenseNonEmpty", "ECompressedLen", "EPosLen", "EPosFirst", "EPosMono", "ECrdLen", "ECrdRange"):
                    lvl = re.search(r"level (\d+)", msg, flags=re.I)
                    return f"{name} {lvl.group(1) if lvl else '?'}"
                return name
        return "ValueError? " + msg[:80]
    except Exception as e:
        return "Other " + type(e).__name__ + ": " + str(e)[:80]


def main():
    req = json.loads(sys.stdin.read())
    out = sys.stdout
    mode = req["mode"]
    if mode == "sweep":
        from tensora import tensor_method

        problems = gen_problems(req["seed"], req["tier"])
        k, n = req.get("shard", 0), req.get("nshards", 1)
        skip = set(req.get("skip", []))
        resume = req.get("resume")  # "pi.ci": everything up to and including this case was done
        rpi, rci = (int(x) for x in resume.split(".")) if resume else (-1, -1)
        for pi, (a, f) in enumerate(problems):
            if pi % n != k or pi < rpi:
                continue
            try:
                tensor_method(a, f)
            except Exception as e:
                nm = err_name(e)
                out.write(json.dumps({"id": f"{pi}", "assignment": a, "formats": f,
                                      "status": "skip" if is_skipped(nm) else "error",
                                      "error": nm + ": " + str(e)[:200]}) + "\n")
                out.flush()
                continue
            for ci, (sizes, ins) in enumerate(gen_inputs(req["seed"], req["tier"], pi, a)):
                cid = f"{pi}.{ci}"
                if cid in skip or (pi == rpi and ci <= rci):
                    continue
                out.write(json.dumps({"begin": cid, "assignment": a, "formats": f, "sizes": sizes,
                                      "inputs": entries_to_json(ins)}) + "\n")
                out.flush()
                rec = run_case({"assignment": a, "formats": f, "inputs": ins}, with_machine=req.get("machine", True))
                rec["id"] = cid
                rec["sizes"] = sizes
                out.write(json.dumps(rec) + "\n")
                out.flush()
    elif mode == "cases":
        for i, c in enumerate(req["cases"]):
            c = dict(c)
            c["inputs"] = entries_from_json(c["inputs"])
            out.write(json.dumps({"begin": i}) + "\n")
            out.flush()
            rec = run_case(c)
            rec["id"] = i
            out.write(json.dumps(rec) + "\n")
            out.flush()
    elif mode == "operators":
        for i, c in enumerate(gen_operator_cases(req["seed"], req["tier"])):
            if i <= req.get("resume_index", -1):
                continue
            out.write(json.dumps({"begin": i}) + "\n")
            out.flush()
            rec = run_operator_case(c)
            rec["id"] = i
            out.write(json.dumps(rec) + "\n")
            out.flush()
    elif mode == "operator_cases":
        for i, c in enumerate(req["cases"]):
            rec = run_operator_case(c)
            rec["id"] = i
            out.write(json.dumps(rec) + "\n")
            out.flush()
    elif mode in ("mismatch", "mismatch_cases"):
        cases = gen_mismatch_cases(req["seed"], req["tier"]) if mode == "mismatch" else [dict(c, inputs=entries_from_json(c["inputs"])) for c in req["cases"]]
        for i, c in enumerate(cases):
            if i <= req.get("resume_index", -1):
                continue
            out.write(json.dumps({"begin": i, "assignment": c["assignment"], "formats": c["formats"], "inputs": entries_to_json(c["inputs"])}) + "\n")
            out.flush()
            rec = run_mismatch_case(c)
            rec["id"] = i
            out.write(json.dumps(rec) + "\n")
            out.flush()
    elif mode == "validate":
        for i, s in enumerate(req["structures"]):
            out.write(json.dumps({"id": i, "result": run_validate(s)}) + "\n")
        out.flush()
    out.write(json.dumps({"done": True}) + "\n")
    out.flush()


if __name__ == "__main__":
    main()
