"""Implementation side of the IR-machine correspondences (C04, C05, C06, C07, C16).

Reads a JSON config on stdin, runs the real library (LLVM JIT) on swept problems/inputs, dumps the
real IR of the requested kernels as Coq terms and writes shard files <outdir>/<prefix>_<k>.v whose
single `Eval vm_compute` prints the failing case indexes, plus <outdir>/<prefix>_index.json
describing every case (for replays and evidence).

The environment variable TENSORA_VERIF_INITIAL_CAPACITY must be set by the caller BEFORE this
process starts (tensora reads it at import).
"""

from __future__ import annotations

import itertools
import json
import os
import random
import sys
import traceback

from harness import irdump as D
from harness import irmachine as M
from harness import sweep as S

TYPED_REFUSALS = ("DiagonalAccessError", "NoKernelFoundError", "BroadcastTargetIndexError")


def refusal(e: Exception) -> str | None:
    n = type(e).__name__
    if n in TYPED_REFUSALS:
        return n
    if n == "NotImplementedError":
        tb = traceback.extract_tb(e.__traceback__)
        for fr in reversed(tb):
            if "/tensora/" in fr.filename:
                if fr.filename.endswith("outputs/_append.py") and fr.name == "next_output":
                    return "K-C08-1"
                break
    return None


def scale_entries(entries: dict, k: int) -> dict:
    return {c: v * 2.0 + float(k) for c, v in entries.items()}


def main():
    cfg = json.load(sys.stdin)
    rng = random.Random(cfg["seed"])
    outdir = cfg["outdir"]
    prefix = cfg["prefix"]
    kinds = cfg["kinds"]  # subset of eval, eval_unopt, hist, structure
    per_shard = cfg.get("per_shard", 12)
    n_inputs = cfg.get("n_inputs", 3)
    fmt_cap = cfg.get("fmt_cap", 4)
    fuel = cfg.get("fuel", 200000)
    templates = cfg.get("templates") or S.TEMPLATES
    max_problems = cfg.get("max_problems", 10**9)
    float_stream = cfg.get("float_stream", False)
    problems = []
    for tpl in templates:
        for fm in S.format_choices(tpl, rng, fmt_cap):
            problems.append((tpl, fm))
    rng.shuffle(problems)
    problems = [tuple(x) for x in cfg.get("priority", [])] + problems
    problems = problems[:max_problems]

    index = {"shards": [], "skipped": {}, "capacity": os.environ.get("TENSORA_VERIF_INITIAL_CAPACITY")}
    shard_defs: list[str] = []
    shard_cases: list[str] = []
    shard_meta: list[dict] = []
    shard_no = 0
    nprob_in_shard = 0

    def flush():
        nonlocal shard_defs, shard_cases, shard_meta, shard_no, nprob_in_shard
        if not shard_cases:
            return
        name = f"{prefix}_{shard_no}"
        text = M.HEADER + ("From TV Require Import proofs.Certs.\n" if cfg.get("certs") else "") + "\n".join(shard_defs) + "\n"
        text += "Definition cases : list verdict := [\n  " + ";\n  ".join(shard_cases) + "\n].\n"
        text += "Eval vm_compute in (failing_from 0 (fun v => v) cases).\n"
        with open(os.path.join(outdir, name + ".v"), "w") as f:
            f.write(text)
        index["shards"].append({"name": name, "cases": shard_meta})
        shard_defs, shard_cases, shard_meta = [], [], []
        shard_no += 1
        nprob_in_shard = 0

    for pno, (tpl, fm) in enumerate(problems):
        try:
            need = ["evaluate"] + (["assemble", "compute"] if ("hist" in kinds or "structure" in kinds) else [])
            prob, fns = D.generate_functions(tpl, fm, tuple(need), optimise=True)
            fdefs = {}
            for k, fn in zip(need, fns):
                fdefs[k] = f"f{pno}_{k}"
                shard_defs.append(f"Definition f{pno}_{k} := {D.coq_function(fn)}.")
            if "eval_unopt" in kinds:
                _, ufns = D.generate_functions(tpl, fm, ("evaluate",), optimise=False)
                fdefs["unopt"] = f"f{pno}_unopt"
                shard_defs.append(f"Definition f{pno}_unopt := {D.coq_function(ufns[0])}.")
        except Exception as e:
            r = refusal(e)
            if r is None:
                r = "GENERATOR-EXCEPTION " + type(e).__name__ + ": " + str(e)[:200]
                index.setdefault("generator_errors", []).append({"assignment": tpl, "formats": fm, "error": r})
            index["skipped"][r] = index["skipped"].get(r, 0) + 1
            continue
        if cfg.get("certs") and "compute" in fdefs:
            shard_cases.append(f"(if compute_cert {fdefs['compute']} then VOk else VMismatch \"compute_cert\")")
            shard_meta.append({"assignment": tpl, "formats": fm, "kind": "cert", "inputs": None})
        names = list(prob.formats.keys())
        out_name = names[0]
        out_modes = "".join(m.character for m in prob.formats[out_name].modes)
        exact = "s" not in out_modes
        sizes_list = S.index_sizes_choices(tpl, rng, n_inputs, tuple(cfg.get("sizes", (0, 1, 2, 3))))
        if pno < len(cfg.get("priority", [])):
            # growth paths: rows wider than the initial capacity, several stored rows
            idx = sorted(sizes_list[0].keys())
            sizes_list = [{i: rng.choice([3, 4, 5]) for i in idx} for _ in range(max(2, n_inputs))]
        added = False
        planned = [(sizes, None) for sizes in sizes_list]
        if pno < len(cfg.get("priority", [])):
            # "gappy" inputs: operand number g stores only the slice with the LAST first coordinate (every
            # other row/fibre of it is empty), all other operands are full -- loops that run after a sparse
            # operand is exhausted, rows fed only by the other addend
            sizes = {i: rng.choice([3, 4]) for i in sorted(sizes_list[0].keys())}
            base = S.make_inputs(tpl, sizes, rng)
            for g, gname in enumerate(list(base)[:2]):
                ins_g = {}
                for n, v in base.items():
                    cells = list(itertools.product(*[range(d) for d in v["dims"]]))
                    if n == gname and v["dims"]:
                        cells = [c for c in cells if c[0] == v["dims"][0] - 1]
                    ins_g[n] = {"dims": v["dims"], "entries": {c: float(1 + (k % 4)) for k, c in enumerate(cells)}}
                planned.append((sizes, ins_g))
        for sizes, preset in planned:
            ins = preset if preset is not None else S.make_inputs(tpl, sizes, rng)
            if not ins and S.tensor_occurrences(tpl):
                continue
            if float_stream:
                fvals = [0.1, 0.2, 0.3, 1e16, -1.0, 0.7, 1.5]
                ins = {n: {"dims": v["dims"], "entries": {c: rng.choice(fvals) for c in v["entries"]}} for n, v in ins.items()}
            st, out = S.run_evaluate(tpl, fm, ins)
            meta_base = {"assignment": tpl, "formats": fm, "sizes": sizes,
                         "inputs": {n: {"dims": v["dims"], "entries": [[list(c), x] for c, x in v["entries"].items()]} for n, v in ins.items()}}
            if st != "ok":
                if any(out.startswith(t) for t in TYPED_REFUSALS) or out == "NotImplementedError@iteration_graph/outputs/_append.py:next_output":
                    index["skipped"][out] = index["skipped"].get(out, 0) + 1
                    continue
                index.setdefault("impl_errors", []).append(dict(meta_base, error=out))
                continue
            raws = {n: S.raw(S.build(fm[n], v["dims"], v["entries"])) for n, v in ins.items()}
            out_dims = out["dims"]
            tins = "[" + "; ".join([M.tin_output(out_dims, out_modes)] + [M.tin_input(raws[n]) for n in names[1:]]) + "]"
            exp = f"{M.levels_term(out['modes'], out['indices'])} {M.fl(out['vals'])} {'true' if exact else 'false'}"
            meta_base["expected"] = out
            if "eval" in kinds:
                shard_cases.append(f"run_check {fuel} {fdefs['evaluate']} {tins} {exp}")
                shard_meta.append(dict(meta_base, kind="eval"))
            if "eval_unopt" in kinds:
                shard_cases.append(f"run_check {fuel} {fdefs['unopt']} {tins} {exp}")
                shard_meta.append(dict(meta_base, kind="eval_unopt"))
            if "hist" in kinds:
                # assemble; compute  ==  evaluate
                shard_cases.append(f"run_history {fuel} [({fdefs['assemble']}, []); ({fdefs['compute']}, [])] {tins} {exp}")
                shard_meta.append(dict(meta_base, kind="hist1"))
                # assemble; compute; compute(re-valued); compute(re-valued again)
                ins2 = {n: {"dims": v["dims"], "entries": scale_entries(v["entries"], 1)} for n, v in ins.items()}
                ins3 = {n: {"dims": v["dims"], "entries": scale_entries(v["entries"], 3)} for n, v in ins.items()}
                st3, out3 = S.run_evaluate(tpl, fm, ins3)
                if st3 == "ok":
                    r2 = {n: S.raw(S.build(fm[n], v["dims"], v["entries"])) for n, v in ins2.items()}
                    r3 = {n: S.raw(S.build(fm[n], v["dims"], v["entries"])) for n, v in ins3.items()}
                    same_structure = all(r3[n]["indices"] == raws[n]["indices"] for n in raws)
                    if same_structure:
                        rev2 = "[" + "; ".join(f"({i + 2}%positive, {M.fl(r2[n]['vals'])})" for i, n in enumerate(names[1:])) + "]"
                        rev3 = "[" + "; ".join(f"({i + 2}%positive, {M.fl(r3[n]['vals'])})" for i, n in enumerate(names[1:])) + "]"
                        exp3 = f"{M.levels_term(out3['modes'], out3['indices'])} {M.fl(out3['vals'])} {'true' if exact else 'false'}"
                        shard_cases.append(
                            f"run_history {fuel} [({fdefs['assemble']}, []); ({fdefs['compute']}, []); "
                            f"({fdefs['compute']}, {rev2}); ({fdefs['compute']}, {rev3})] {tins} {exp3}")
                        shard_meta.append(dict(meta_base, kind="hist3", expected=out3, revalued="v*2+3"))
            if "structure" in kinds:
                shard_cases.append(f"compute_preserves_structure {fuel} {fdefs['assemble']} {fdefs['compute']} {tins}")
                shard_meta.append(dict(meta_base, kind="structure"))
            added = True
        if added:
            nprob_in_shard += 1
        if nprob_in_shard >= per_shard:
            flush()
    flush()
    with open(os.path.join(outdir, prefix + "_index.json"), "w") as f:
        json.dump(index, f)
    print(json.dumps({"shards": len(index["shards"]), "cases": sum(len(s["cases"]) for s in index["shards"]),
                      "skipped": index["skipped"], "impl_errors": len(index.get("impl_errors", [])),
                      "generator_errors": len(index.get("generator_errors", []))}))


if __name__ == "__main__":
    main()
