"""TIE self-check for the regenerated argument validation (gen/TensorMethod.v).

The REAL TensorMethod.__init__ / TensorMethod.__call__ of /repo are run on generated problems and
arguments and compared, inside coqc, with the regenerated Gallina functions TensorMethod_init /
TensorMethod_call: same accept / refuse, same output dimensions, same exception class, same raise
site (ordinal of the `raise` statement that fired, from the traceback), and the values the translator
rendered into the exception occur in the real message.

What is replaced in the harness process (all of it OUTSIDE the translated statements):
  * code generation / compilation in __init__ (generate_module_tensora, compile_module): stubs, so that a
    TensorMethod exists for every problem within milliseconds;
  * `self.signature` of the instance: an object whose bind(...) returns the `arguments` dict of the case --
    the library step that the translation carves out (the real signature's parameter names and kinds are
    compared with the regenerated [signature] field first);
  * `allocate_taco_structure` in _tensor_method's namespace: records the output dimensions and stops -- the
    end of the translated statements;
  * argument objects: a subclass of Tensor whose properties order / modes / mode_ordering / dimensions return
    the values of the case (also ill-formed ones, which Tensor.from_* never makes).
The iteration orders of the sets (hash order) are observed on the same objects and handed to the Gallina
functions as their order oracles.
"""

from __future__ import annotations

import ast
import inspect
import os
import traceback
from types import SimpleNamespace

from harness.tie_gen import HEAD, clist, cstr, cz, ex_term

COQ_DEFS = """
From TV Require Import gen.Deparse gen.TensorMethod.
(* the observed iteration order as an oracle: the elements of l in the order of [order] *)
Definition by_order {A} (eqb : A -> A -> bool) (order l : list A) : list A :=
  filter (fun x => py_in eqb x l) order ++ filter (fun x => negb (py_in eqb x order)) l.
Definition peqb := pair_eqb String.eqb Z.eqb.
(* the observed iteration orders of the participant sets: the row that is the same set as l *)
Definition same_set (a b : list (string * Z)) : bool :=
  forallb (fun x => py_in peqb x b) a && forallb (fun x => py_in peqb x a) b.
Definition by_rows (rows : list (list (string * Z))) (l : list (string * Z)) : list (string * Z) :=
  match find (same_set l) rows with Some r => r | None => l end.
Fixpoint is_prefix (p s : string) : bool :=
  match p, s with
  | EmptyString, _ => true
  | String a p', String b s' => Ascii.eqb a b && is_prefix p' s'
  | _, _ => false
  end.
(* the rest of s after the first occurrence of p *)
Fixpoint after (p s : string) : option string :=
  if is_prefix p s then Some (substring (String.length p) (String.length s - String.length p) s)
  else match s with EmptyString => None | String _ s' => after p s' end.
Fixpoint vals_in (vals : list pyval) (msg : string) : bool :=
  match vals with
  | [] => true
  | VOpaque :: r => vals_in r msg
  | VStr x :: r => match after x msg with Some m => vals_in r m | None => false end
  | VInt z :: r => match after (show_Z z) msg with Some m => vals_in r m | None => false end
  end.
Definition exc_ok (e : pyexc) (x : string * Z * string) : bool :=
  let '(cls', site', msg) := x in
  match e with PyExc cls site vals => String.eqb cls cls' && Z.eqb site site' && vals_in vals msg end.
Definition fmt_eqb (a b : Format) : bool :=
  list_eqb Mode_eqb (Format_modes a) (Format_modes b) && list_eqb Z.eqb (Format_ordering a) (Format_ordering b).
Definition fmts_eqb := list_eqb (fun (x y : string * Format) => String.eqb (fst x) (fst y) && fmt_eqb (snd x) (snd y)).
Definition obj_ok (t : TensorMethod) (x : string * list (string * Format) * Format * list string) : bool :=
  let '(oname, ifs, ofmt, names) := x in
  String.eqb (TensorMethod__output_name t) oname && fmts_eqb (TensorMethod__input_formats t) ifs
  && fmt_eqb (TensorMethod__output_format t) ofmt && list_eqb String.eqb (TensorMethod_signature t) names.
Definition init_case : Type :=
  (list string * Problem * (string * list (string * Format) * Format * list string + string * Z * string))%type.
Definition init_ok (c : init_case) : bool :=
  let '(korder, p, expected) := c in
  match TensorMethod_init (by_order String.eqb korder) p, expected with
  | Ret t, inl x => obj_ok t x
  | Raise e, inr x => exc_ok e x
  | _, _ => false
  end.
Definition call_case : Type :=
  (list string * list (list (string * Z)) * Problem * list (string * pyarg) * (list Z + string * Z * string))%type.
Definition call_ok (c : call_case) : bool :=
  let '(korder, porder, p, bound, expected) := c in
  match TensorMethod_init (by_order String.eqb korder) p with
  | Raise _ => false
  | Ret t =>
      match TensorMethod_call (by_order String.eqb korder) (by_rows porder) t bound, expected with
      | Ret d, inl d' => list_eqb Z.eqb d d'
      | Raise e, inr x => exc_ok e x
      | _, _ => false
      end
  end.
"""


class _Entered(BaseException):
    def __init__(self, dims):
        self.dims = dims


_state = {}


def setup():
    """Import /repo's modules and put the stubs in place (once)."""
    if _state:
        return _state
    from returns.result import Success

    import tensora.compile._compile_llvm as CL
    import tensora.compile._tensor_method as TM
    from tensora.tensor import Tensor

    class StubLib:
        def get_function_address(self, name):
            return 0

    TM.generate_module_tensora = lambda problem, kinds: Success(None)
    CL.compile_module = lambda module: StubLib()

    def fake_allocate(modes, dimensions, ordering):
        raise _Entered(tuple(dimensions))

    TM.allocate_taco_structure = fake_allocate

    class FakeTensor(Tensor):
        def __init__(self, order, modes, mode_ordering, dimensions):
            self.cffi_tensor = None
            self._v = (order, tuple(modes), tuple(mode_ordering), tuple(dimensions))

        order = property(lambda self: self._v[0])
        modes = property(lambda self: self._v[1])
        mode_ordering = property(lambda self: self._v[2])
        dimensions = property(lambda self: self._v[3])

    src = inspect.getsource(TM)
    tree = ast.parse(src)
    cls = [n for n in tree.body if isinstance(n, ast.ClassDef) and n.name == "TensorMethod"][0]
    spans = {}
    for m in cls.body:
        if isinstance(m, ast.FunctionDef):
            rs = sorted((n for n in ast.walk(m) if isinstance(n, ast.Raise)), key=lambda n: (n.lineno, n.col_offset))
            spans[m.name] = [(n.lineno, n.end_lineno) for n in rs]
    _state.update(TM=TM, FakeTensor=FakeTensor, spans=spans, file=os.path.realpath(TM.__file__))
    return _state


def exc_term(e: BaseException, method: str) -> str:
    """(class, site, message): site = ordinal of the `raise` statement of `method` that fired, -1 when the
    exception comes from the interpreter / a library function."""
    st = setup()
    site = -1
    frames = [f for f in traceback.extract_tb(e.__traceback__) if os.path.realpath(f.filename) == st["file"]]
    last_all = traceback.extract_tb(e.__traceback__)[-1]
    if frames and os.path.realpath(last_all.filename) == st["file"]:
        ln = frames[-1].lineno
        for i, (a, b) in enumerate(st["spans"][method]):
            if a <= ln <= b:
                site = i
    return f"({cstr(type(e).__name__)}, {cz(site)}, {cstr(str(e))})"


def mode_term(m) -> str:
    return f"Mode_{m.name}"


def fmt_term(f) -> str:
    return f"(MkFormat {clist(mode_term(m) for m in f.modes)} {clist(cz(i) for i in f.ordering)})"


def problem_term(p) -> str:
    a = p.assignment
    fs = clist(f"({cstr(n)}, {fmt_term(f)})" for n, f in p.formats.items())
    return f"(MkProblem (ExAssignment {ex_term(a.target)} {ex_term(a.expression)}) {fs})"


def arg_term(x) -> str:
    st = setup()
    if isinstance(x, st["FakeTensor"]):
        o, m, r, d = x._v
        return f"(PyTensor {cz(o)} {clist(mode_term(k) for k in m)} {clist(cz(i) for i in r)} {clist(cz(i) for i in d)})"
    return "PyOther"


ORDERS = {"A": 2, "B": 1, "C": 0, "D": 3, "E": 2, "b": 1}
INDEXES = ["i", "j", "k", "l"]


def gen_expr(rng, depth):
    from tensora.expression import ast as A

    if depth <= 0 or rng.random() < 0.3:
        k = rng.random()
        if k < 0.08:
            return A.Integer(rng.choice([0, 1, 2, 7]))
        if k < 0.12:
            return A.Float(rng.choice([0.5, 2.0]))
        name = rng.choice(sorted(ORDERS))
        return A.Tensor(name, tuple(rng.choice(INDEXES) for _ in range(ORDERS[name])))
    op = rng.choice([A.Add, A.Subtract, A.Multiply])
    return op(gen_expr(rng, depth - 1), gen_expr(rng, depth - 1))


def gen_format(rng, order):
    from tensora.format import Format, Mode

    ordering = list(range(order))
    if rng.random() < 0.4:
        rng.shuffle(ordering)
    return Format(tuple(rng.choice([Mode.dense, Mode.compressed]) for _ in range(order)), tuple(ordering))


def gen_problem(rng, broadcast_ok=True):
    """A Problem the real constructors accept (Assignment.__post_init__, Problem.__post_init__)."""
    from tensora.expression import ast as A
    from tensora.problem import Problem

    for _ in range(200):
        e = gen_expr(rng, rng.choice([0, 1, 1, 2, 2, 3]))
        keys = list(e.index_participants().keys())
        n = rng.choice([0, 1, 1, 2, 2, 3])
        pool = keys if (keys and not (broadcast_ok and rng.random() < 0.15)) else INDEXES + ["z"]
        if not pool and n:
            continue
        tidx = tuple(rng.choice(pool) for _ in range(n))
        try:
            a = A.Assignment(A.Tensor("T", tidx), e)
        except Exception:
            continue
        names = ["T"] + list(e.variables().keys())
        if rng.random() < 0.3:
            rng.shuffle(names)  # Problem(...) does not ask for the order of make_problem
        orders = a.variable_orders()
        formats = {nm: gen_format(rng, orders[nm]) for nm in names}
        if rng.random() < 0.1:
            formats["unused"] = gen_format(rng, rng.randrange(0, 3))  # allowed by Problem.__post_init__
        if rng.random() < 0.05:
            del formats["T"]
            formats = {**formats}
        try:
            return Problem(a, formats)
        except Exception:
            continue
    raise RuntimeError("could not generate a problem")


def observed_orders(p):
    ip = p.assignment.expression.index_participants()
    rows = [list(ps) for ps in ip.values()]
    for a in rows:  # two indexes with the same participants iterated in different orders: the oracle of the
        for b in rows:  # self-check (a function of the set) could not reproduce both
            if set(a) == set(b) and a != b:
                return None, None
    return list(ip.keys()), rows


def t_validate(rng, n):
    st = setup()
    TM, FakeTensor = st["TM"], st["FakeTensor"]
    from tensora.format import Mode

    init_cases, call_cases, descr = [], [], []
    n_init = max(1, n // 5)
    # ---- __init__
    for i in range(n_init):
        p = gen_problem(rng)
        korder = list(p.assignment.expression.index_participants().keys())
        try:
            tm = TM.TensorMethod(p)
            params = list(tm.signature.parameters.values())
            if any(q.kind is not inspect.Parameter.KEYWORD_ONLY for q in params):
                exp = 'inr ("harness: a parameter is not keyword-only", 0%Z, "")'
            else:
                ifs = clist(f"({cstr(k)}, {fmt_term(f)})" for k, f in tm._input_formats.items())
                exp = (f"inl ({cstr(tm._output_name)}, {ifs}, {fmt_term(tm._output_format)}, "
                       f"{clist(cstr(q.name) for q in params)})")
        except Exception as e:
            exp = f"inr {exc_term(e, '__init__')}"
        init_cases.append(f"({clist(cstr(k) for k in korder)}, {problem_term(p)}, {exp})")
        descr.append(f"TensorMethod({p.assignment.deparse()}, {list(p.formats)})")
    # ---- __call__
    while len(call_cases) < n - n_init:
        p = gen_problem(rng, broadcast_ok=False)
        try:
            tm = TM.TensorMethod(p)
        except Exception:
            continue
        korder, porder = observed_orders(p)
        if korder is None:
            continue
        sizes = {k: rng.choice([1, 2, 3, 4, 5]) for k in INDEXES + ["z"]}
        for _ in range(rng.choice([2, 3, 4])):
            # consistent arguments, then up to two faults
            dims = {}
            for t in [t for ts in p.assignment.expression.variables().values() for t in ts]:
                dims.setdefault(t.name, [sizes[ix] for ix in t.indexes])
            bound = {}
            for name, f in tm._input_formats.items():
                d = dims.get(name, [rng.choice([1, 2, 3]) for _ in range(f.order)])
                bound[name] = [f.order, list(f.modes), list(f.ordering), list(d)]
            faults = []
            for _ in range(rng.choice([0, 1, 1, 1, 2, 2, 3])):
                kind = rng.choice(["dim", "dim", "dim", "short", "long", "order", "mode", "ordering", "other", "drop",
                                   "extra", "rename", "reverse", "negdim", "zerodim"])
                names = list(bound)
                if kind in ("extra",):
                    bound[rng.choice(["zz", "T", "q"])] = rng.choice([None, [1, [Mode.dense], [0], [3]]])
                    faults.append(kind)
                    continue
                if not names:
                    continue
                nm = rng.choice(names)
                v = bound[nm]
                faults.append(f"{kind}:{nm}")
                if kind == "reverse":
                    bound = dict(reversed(list(bound.items())))
                elif kind == "drop":
                    del bound[nm]
                elif kind == "rename":
                    bound = {(k + "x" if k == nm else k): w for k, w in bound.items()}
                elif v is None:
                    continue
                elif kind == "other":
                    bound[nm] = None
                elif kind == "order":
                    v[0] = v[0] + rng.choice([-1, 1])
                elif kind == "mode" and v[1]:
                    j = rng.randrange(len(v[1]))
                    v[1][j] = Mode.dense if v[1][j] is Mode.compressed else Mode.compressed
                elif kind == "mode":
                    v[1] = [Mode.dense]
                elif kind == "ordering" and len(v[2]) >= 2:
                    v[2][0], v[2][1] = v[2][1], v[2][0]
                elif kind == "ordering":
                    v[2] = v[2] + [len(v[2])]
                elif kind in ("dim", "negdim", "zerodim") and v[3]:
                    j = rng.randrange(len(v[3]))
                    v[3][j] = {"dim": v[3][j] + rng.choice([-1, 1, 2]), "negdim": -v[3][j], "zerodim": 0}[kind]
                elif kind == "short" and v[3]:
                    v[3] = v[3][:-1]
                elif kind == "long":
                    v[3] = v[3] + [rng.choice([1, 2, 3])]
            args = {k: (FakeTensor(*v) if v is not None else rng.choice([3.0, None, "ds", object()]))
                    for k, v in bound.items()}
            tm.signature = SimpleNamespace(bind=lambda *a, _d=args, **kw: SimpleNamespace(arguments=_d))
            try:
                tm()
                exp = 'inr ("harness: __call__ returned", 0%Z, "")'
            except _Entered as en:
                exp = f"inl {clist(cz(int(x)) for x in en.dims)}"
            except Exception as e:
                exp = f"inr {exc_term(e, '__call__')}"
            bterm = clist(f"({cstr(k)}, {arg_term(x)})" for k, x in args.items())
            call_cases.append(f"({clist(cstr(k) for k in korder)}, {clist(clist(f'({cstr(a)}, {cz(b)})' for a, b in row) for row in porder)}, "
                              f"{problem_term(p)}, {bterm}, {exp})")
            descr_args = {k: (x._v if isinstance(x, FakeTensor) else repr(x)) for k, x in args.items()}
            descr.append(f"{p.assignment.deparse()} formats {[f'{k}:{f.deparse()}' for k, f in p.formats.items()]} "
                         f"faults {faults} arguments {descr_args}"[:600])
            if len(call_cases) >= n - n_init:
                break
    text = HEAD + COQ_DEFS
    text += "Definition init_cases : list init_case :=\n " + clist(init_cases) + ".\n"
    text += "Definition call_cases : list call_case :=\n " + clist(call_cases) + ".\n"
    text += "Eval vm_compute in (failing (map init_ok init_cases ++ map call_ok call_cases)).\n"
    return {"coq": text, "n": len(init_cases) + len(call_cases), "descr": descr}


TARGETS = {"validate": t_validate}
