"""C03 worker: runs inside /venv python with PYTHONPATH=/repo/src.

stdin: {"mode": "sweep", "seed", "tier", "shard", "nshards"} | {"mode": "cases", "cases": [...]}
stdout: one JSON line per problem/case, then {"done": true}.

For every problem with a compressed output level and every input sparsity pattern (exhaustive when the
operands have few cells, seeded otherwise; always all-empty operands and explicit stored zeros), run
the real evaluate (LLVM back end) and report the RAW arrays of the inputs and of the output.  No
verdict is taken here.
"""

from __future__ import annotations

import itertools
import json
import math
import os
import random
import sys

sys.path.insert(0, os.path.dirname(os.path.abspath(__file__)))

import c02_worker as w2  # noqa: E402
import sweep  # noqa: E402

MORE_TEMPLATES = [
    "a(i,j) = b(i,j) * c(i,k) * d(k,j)",
    "a(i,j) = b(i,k) * c(k,j) - d(i,j)",
    "a(i,j) = (b(i,k) + c(i,k)) * d(k,j)",
    "a(i) = b(i,j) * c(j,k) * d(k)",
    "a(i,j) = b(i,j) + c(i,j) * d(i,j)",
    "a(i,j) = b(i) * c(j) + d(i,j)",
    "a(i) = b() * c(i)",
    "a(i) = b(i) * c() + d(i)",
    "a(i,j) = b(j) + c(i,j)",
    "a(i,j,k) = b(i,k) * c(k,j)",
]


def ast_json(e):
    from tensora.expression import ast

    if isinstance(e, ast.Integer):
        return {"lit": int(e.value)}
    if isinstance(e, ast.Float):
        v = float(e.value)
        return {"lit": int(v) if v == int(v) else 2}  # only "is it a literal" matters for support
    if isinstance(e, ast.Tensor):
        return {"t": e.name, "ix": list(e.indexes)}
    if isinstance(e, ast.Add):
        return {"add": [ast_json(e.left), ast_json(e.right)]}
    if isinstance(e, ast.Subtract):
        return {"sub": [ast_json(e.left), ast_json(e.right)]}
    if isinstance(e, ast.Multiply):
        return {"mul": [ast_json(e.left), ast_json(e.right)]}
    raise NotImplementedError(type(e).__name__)


def gen_problems(seed: int, tier: str):
    rng = random.Random(f"C03-problems:{seed}")
    cap = 6 if tier == "quick" else 36
    problems = []
    templates = list(sweep.TEMPLATES) + w2.EXTRA_TEMPLATES + MORE_TEMPLATES
    for a in templates:
        orders = sweep.orders_of(a)
        names = list(orders)
        out = names[0]
        if orders[out] == 0:
            continue
        chosen = []
        for f in sweep.format_choices(a, rng, cap * 3):
            if "s" in f[out] and f not in chosen:
                chosen.append(f)
        for of in sweep.all_formats(orders[out]):
            if "s" not in of:
                continue
            for fill in ("d", "s"):
                f = {n: fill * orders[n] for n in names}
                f[out] = of
                if f not in chosen:
                    chosen.append(f)
        rng.shuffle(chosen)
        problems.extend((a, f) for f in chosen[:cap])
    return problems


VALUES = [1.0, 2.0, 0.0, 3.0, -1.0, 0.0, 5.0]


def patterns_for(rng: random.Random, dims_by_name: dict, limit: int):
    """List of {name: {coord: value}}: every combination of stored subsets when there are at most
    [limit] of them, otherwise a seeded sample that always contains all-empty, all-full, and each
    operand empty against full others.  Values include explicit zeros."""
    names = list(dims_by_name)
    cells = {n: list(itertools.product(*[range(d) for d in dims_by_name[n]])) for n in names}
    total = math.prod(2 ** len(cells[n]) for n in names)

    def with_values(sub):
        return {c: rng.choice(VALUES) for c in sub}

    out = []
    if total <= limit:
        per = []
        for n in names:
            subs = []
            for k in range(len(cells[n]) + 1):
                subs.extend(itertools.combinations(cells[n], k))
            per.append(subs)
        for combo in itertools.product(*per):
            out.append({n: with_values(s) for n, s in zip(names, combo)})
        return out, True
    out.append({n: {} for n in names})
    out.append({n: with_values(cells[n]) for n in names})
    out.append({n: {c: 0.0 for c in cells[n]} for n in names})  # everything stored, all explicit zeros
    for n0 in names:
        out.append({n: ({} if n == n0 else with_values(cells[n])) for n in names})
        out.append({n: (with_values(cells[n]) if n == n0 else {}) for n in names})
    while len(out) < limit:
        p = {}
        for n in names:
            dens = rng.choice([0.15, 0.3, 0.5, 0.8])
            p[n] = with_values([c for c in cells[n] if rng.random() < dens])
        out.append(p)
    return out, False


def sizes_choices(a: str, rng: random.Random, tier: str):
    pa = sweep.parsed(a)
    idx = sorted(pa.index_participants().keys() | set(pa.target.indexes))
    out = [{i: 2 for i in idx}]
    extra = 2 if tier == "quick" else 4
    tries = 0
    while len(out) < 1 + extra and tries < 50:
        tries += 1
        c = {i: rng.choice([0, 1, 2, 2, 3]) for i in idx}
        if c not in out:
            out.append(c)
    return out


def run_problem(pi, a, f, seed, tier, out):
    from tensora import tensor_method

    try:
        fn = tensor_method(a, f)
    except Exception as e:
        nm = w2.err_name(e)
        out.write(json.dumps({"problem": pi, "assignment": a, "formats": f,
                              "status": "skip" if w2.is_skipped(nm) else "error", "error": nm + ": " + str(e)[:200]}) + "\n")
        return
    pa = sweep.parsed(a)
    ast = {"target": pa.target.name, "tidx": list(pa.target.indexes), "rhs": ast_json(pa.expression)}
    rng = random.Random(f"C03-inputs:{seed}:{pi}")
    limit = 64 if tier == "quick" else 512
    cases = []
    for sizes in sizes_choices(a, rng, tier):
        dims_by_name = {}
        ok = True
        for name, occs in pa.expression.variables().items():
            dims = [sizes[i] for i in occs[0].indexes]
            if any([sizes[i] for i in o.indexes] != dims for o in occs):
                ok = False
            dims_by_name[name] = dims
        if not ok:
            continue
        pats, exhaustive = patterns_for(rng, dims_by_name, limit)
        for p in pats:
            cases.append((sizes, dims_by_name, p, exhaustive))
    out.write(json.dumps({"problem": pi, "assignment": a, "formats": f, "status": "ok", "ast": ast, "ncases": len(cases)}) + "\n")
    # the stand-alone ASSEMBLE kernel of the same problem ("all kernels with a compressed output level"): its IR is run on
    # the Python IR interpreter (c02_irmachine) for a bounded number of cases; the structure it leaves is judged like an output
    asm = None
    asm_budget = 16 if tier == "quick" else 96
    try:
        import c02_irmachine as im
        from tensora.generate import generate_module_tensora
        from tensora.kernel_type import KernelType

        asm = generate_module_tensora(fn._problem, [KernelType.assemble]).unwrap().definitions[0]
        out_fmt = fn._output_format
        out_modes = ["d" if m.character == "d" else "s" for m in out_fmt.modes]
        out_ordering = list(out_fmt.ordering)
    except Exception as e:  # typed refusals of the generator are C08's business
        asm = None
        out.write(json.dumps({"problem": pi, "note": "no assemble kernel: " + type(e).__name__}) + "\n")
    for ci, (sizes, dims_by_name, p, exhaustive) in enumerate(cases):
        rec = {"id": f"{pi}.{ci}", "problem": pi, "sizes": sizes, "exhaustive": exhaustive,
               "entries": {n: [[list(c), v] for c, v in e.items()] for n, e in p.items()}}
        out.write(json.dumps({"begin": rec["id"], "assignment": a, "formats": f, "sizes": sizes, "entries": rec["entries"]}) + "\n")
        out.flush()
        try:
            args = {n: sweep.build(f[n], dims_by_name[n], p[n]) for n in p}
            rec["inputs"] = {n: sweep.raw(t) for n, t in args.items()}
            res = fn(**args)
            raw, problems = w2.deep_raw(res)
            raw.pop("alloc", None)
            rec["out"] = raw
            rec["alloc_problems"] = problems
            rec["status"] = "ok"
            # assemble: prefer the patterns with unstored cells (every 1st, then spread)
            if asm is not None and asm_budget > 0 and (ci % max(1, len(cases) // (16 if tier == "quick" else 96)) == 0):
                asm_budget -= 1
                try:
                    out_dims = [sizes[i] for i in pa.target.indexes]
                    mres = im.run_kernel(asm, pa.target.name, out_dims, out_modes, out_ordering, rec["inputs"])
                    if mres["status"] == "ok" and mres["complete"]:
                        fin = mres["final"]
                        idx, parents, sane = [], 1, True
                        for l, md in enumerate(out_modes):
                            if md == "d":
                                idx.append([])
                                parents *= out_dims[out_ordering[l]]
                            else:
                                pos, crd = fin["indices"][l]
                                pos, crd = list(pos[: parents + 1]), list(crd)
                                if any(c is None for c in pos) or len(pos) != parents + 1:
                                    sane = False
                                    break
                                crd = crd[: pos[-1]] if isinstance(pos[-1], int) and 0 <= pos[-1] <= len(crd) else crd
                                if any(c is None for c in crd):
                                    sane = False
                                    break
                                idx.append([pos, crd])
                                parents = len(crd)
                        if sane:
                            rec["assemble_out"] = {"dims": out_dims, "ordering": out_ordering, "modes": "".join(out_modes),
                                                   "indices": idx, "vals": [0.0] * parents}
                        else:
                            rec["assemble_note"] = "structure left by assemble has uninitialised cells (C02/C05's business)"
                    else:
                        rec["assemble_note"] = "assemble on the IR interpreter: " + str(mres["status"])
                except Exception as e:
                    rec["assemble_note"] = "interpreter: " + type(e).__name__ + ": " + str(e)[:120]
        except Exception as e:
            nm = w2.err_name(e)
            rec["status"] = "skip" if w2.is_skipped(nm) else "error"
            rec["error"] = nm + ": " + str(e)[:200]
        out.write(json.dumps(rec) + "\n")
    out.flush()


def ie_build(j):
    from tensora.iteration_graph.identifiable_expression import ast as ie

    if "int" in j:
        return ie.Integer(int(j["int"]))
    if "float" in j:
        return ie.Float(float(j["float"]))
    if "t" in j:
        return ie.Tensor(j["t"], j["t"], (), ())
    if "add" in j:
        return ie.Add(ie_build(j["add"][0]), ie_build(j["add"][1]))
    return ie.Multiply(ie_build(j["mul"][0]), ie_build(j["mul"][1]))


def ie_json(e):
    from tensora.iteration_graph.identifiable_expression import ast as ie

    if isinstance(e, ie.Integer):
        return {"int": e.value}
    if isinstance(e, ie.Float):
        return {"float": e.value}
    if isinstance(e, ie.Tensor):
        return {"t": e.id}
    if isinstance(e, ie.Add):
        return {"add": [ie_json(e.left), ie_json(e.right)]}
    if isinstance(e, ie.Multiply):
        return {"mul": [ie_json(e.left), ie_json(e.right)]}
    raise NotImplementedError(type(e).__name__)


def run_exhaust(c):
    """the real exhaust_tensor applied for every reference in turn, and the terminal's guard"""
    from tensora.iteration_graph.identifiable_expression import exhaust_tensor
    from tensora.iteration_graph.identifiable_expression.ast import Integer

    e = ie_build(c["expr"])
    for r in c["refs"]:
        e = exhaust_tensor(e, r)
    return {"result": ie_json(e), "raises": e != Integer(0)}


def main():
    req = json.loads(sys.stdin.read())
    out = sys.stdout
    if req["mode"] == "exhaust":
        for i, c in enumerate(req["cases"]):
            rec = run_exhaust(c)
            rec["id"] = i
            out.write(json.dumps(rec) + "\n")
        out.write(json.dumps({"done": True}) + "\n")
        out.flush()
        return
    if req["mode"] == "sweep":
        problems = gen_problems(req["seed"], req["tier"])
        k, n = req.get("shard", 0), req.get("nshards", 1)
        for pi, (a, f) in enumerate(problems):
            if pi % n == k:
                run_problem(pi, a, f, req["seed"], req["tier"], out)
    elif req["mode"] == "cases":
        from tensora import tensor_method

        for i, c in enumerate(req["cases"]):
            a, f = c["assignment"], c["formats"]
            pa = sweep.parsed(a)
            ast = {"target": pa.target.name, "tidx": list(pa.target.indexes), "rhs": ast_json(pa.expression)}
            rec = {"id": f"c{i}", "assignment": a, "formats": f, "ast": ast, "sizes": c["sizes"], "entries": c["entries"]}
            try:
                fn = tensor_method(a, f)
                args = {}
                for name, occs in pa.expression.variables().items():
                    dims = [c["sizes"][ix] for ix in occs[0].indexes]
                    ent = {tuple(cc): v for cc, v in c["entries"].get(name, [])}
                    args[name] = sweep.build(f[name], dims, ent)
                rec["inputs"] = {n: sweep.raw(t) for n, t in args.items()}
                res = fn(**args)
                raw, problems = w2.deep_raw(res)
                raw.pop("alloc", None)
                rec["out"] = raw
                rec["alloc_problems"] = problems
                rec["status"] = "ok"
            except Exception as e:
                nm = w2.err_name(e)
                rec["status"] = "skip" if w2.is_skipped(nm) else "error"
                rec["error"] = nm + ": " + str(e)[:200]
            out.write(json.dumps(rec) + "\n")
            out.flush()
    out.write(json.dumps({"done": True}) + "\n")
    out.flush()


if __name__ == "__main__":
    main()
