"""Stand-alone driver of the kernel-model correspondence (development / mutation testing):

    cd /verif && PYTHONHASHSEED=0 /venv/bin/python -B tools/harness/c01g_main.py [quick|thorough] [seed] [C01|C02|C03|C01G]

Evidence of this driver goes to build/evidence_scratch (never to evidence/).
"""
import sys
from pathlib import Path

sys.path.insert(0, str(Path(__file__).resolve().parents[1]))
import vlib.core as core  # noqa: E402
from props import _c01_kernel  # noqa: E402


def main():
    tier = sys.argv[1] if len(sys.argv) > 1 else "quick"
    seed = int(sys.argv[2]) if len(sys.argv) > 2 else 0
    prop = sys.argv[3] if len(sys.argv) > 3 else "C01G"
    chk = core.Check("C01G", tier, seed)
    try:
        print(_c01_kernel.run_kernel_correspondence(chk, prop))
    except Exception:  # noqa: BLE001
        import traceback
        chk.broken.append({"kind": "harness-exception", "traceback": traceback.format_exc()[-3000:]})
        traceback.print_exc()
    real = core.REPO
    core.REPO = Path("/nonexistent/so-evidence-goes-to-build")
    rc = chk.finish()
    core.REPO = real
    return rc


if __name__ == "__main__":
    sys.exit(main())
