"""TIE self-check for the regenerated desugaring (gen/Desugar.v): real desugar_assignment /
carried_by_every_term vs the Gallina functions, Contract chains normalised on both sides (the
nesting order of adjacent Contract nodes is the iteration order of a set)."""

from __future__ import annotations

from harness.tie_gen import HEAD, FLOAT_POOL, cbool, cfloat, clist, cstr, cz, ex_term, gen_ex_expr

NORMALISE = """
Fixpoint sinsert (s : string) (l : list string) : list string :=
  match l with
  | [] => [s]
  | x :: r => if String.leb s x then s :: l else x :: sinsert s r
  end.
Definition ssort (l : list string) : list string := fold_right sinsert [] l.
Definition wrapc (ks : list string) (e : de_expr) : de_expr := fold_left (fun acc k => DeContract k acc) ks e.
Fixpoint dnorm (e : de_expr) : de_expr :=
  match e with
  | DeAdd a b => DeAdd (dnorm a) (dnorm b)
  | DeMultiply a b => DeMultiply (dnorm a) (dnorm b)
  | DeContract k e' =>
      (fix chain (ks : list string) (x : de_expr) {struct x} : de_expr :=
         match x with
         | DeContract k' x' => chain (k' :: ks) x'
         | DeAdd a b => wrapc (ssort ks) (DeAdd (dnorm a) (dnorm b))
         | DeMultiply a b => wrapc (ssort ks) (DeMultiply (dnorm a) (dnorm b))
         | _ => wrapc (ssort ks) x
         end) [k] e'
  | _ => e
  end.
"""


def de_term(e) -> str:
    from tensora.desugar import ast as D

    if isinstance(e, D.Integer):
        return f"(DeInteger {cz(e.value)})"
    if isinstance(e, D.Float):
        return f"(DeFloat {cfloat(e.value)})"
    if isinstance(e, D.Tensor):
        return f"(DeTensor {cz(e.id)} {cstr(e.name)} {clist(cstr(i) for i in e.indexes)})"
    if isinstance(e, D.Add):
        return f"(DeAdd {de_term(e.left)} {de_term(e.right)})"
    if isinstance(e, D.Multiply):
        return f"(DeMultiply {de_term(e.left)} {de_term(e.right)})"
    if isinstance(e, D.Contract):
        return f"(DeContract {cstr(e.index)} {de_term(e.expression)})"
    raise TypeError(e)


def t_desugar(rng, n):
    from tensora.desugar._desugar_expression import carried_by_every_term, desugar_assignment
    from tensora.expression import ast as A

    cases, descr = [], []
    def sum_of(k):
        # a sum in which only some terms carry index k: contracting k cannot be hoisted over it
        with_k = A.Tensor(rng.choice(["B", "A"]), ("k",) if rng.random() < 0.5 else ("i", "k"))
        with_k = A.Tensor("B", ("k",)) if with_k.name == "B" else A.Tensor("A", ("i", "k"))
        without = rng.choice([A.Tensor("C", ()), A.Integer(2), A.Tensor("B", ("i",))])
        op = rng.choice([A.Add, A.Subtract])
        return op(with_k, without) if rng.random() < 0.5 else op(without, with_k)

    for i in range(n):
        if i % 5 == 1:
            # products of such sums: the path through desugar_distributed
            e = A.Multiply(sum_of("k"), sum_of("k"))
            if rng.random() < 0.4:
                e = rng.choice([A.Add, A.Subtract, A.Multiply])(e, gen_ex_expr(rng, 1))
        else:
            e = gen_ex_expr(rng, rng.choice([0, 1, 2, 2, 3, 3, 4]))
        target = A.Tensor("T", tuple(rng.sample(["i", "j", "k"], rng.randrange(0, 3))))
        a = A.Assignment(target, e)
        if i % 4 == 3:
            k = rng.choice(["i", "j", "k", "l"])
            cases.append(f"Bool.eqb (carried_by_every_term {ex_term(e)} {cstr(k)}) {cbool(carried_by_every_term(e, k))}")
            descr.append(f"carried_by_every_term({e.deparse()}, {k!r})")
            continue
        d = desugar_assignment(a)
        cases.append(f"check (ExAssignment {ex_term(target)} {ex_term(e)}) {de_term(d.target)} {de_term(d.expression)}")
        descr.append(f"desugar_assignment({a.deparse()})")
    text = HEAD + "From TV Require Import gen.Deparse gen.Desugar.\n" + NORMALISE
    text += ("Definition check (a : ex_assignment) (t d : de_expr) : bool :=\n"
             "  match desugar_assignment (fun _ l => l) 64 a with\n"
             "  | Some r => de_expr_eqb (de_assignment_target r) t && de_expr_eqb (dnorm (de_assignment_expression r)) (dnorm d)\n"
             "  | None => false\n  end.\n")
    text += "Definition results : list bool :=\n " + clist(cases) + ".\n"
    text += "Eval vm_compute in (failing results).\n"
    return {"coq": text, "n": n, "descr": descr}


TARGETS = {"desugar": t_desugar}
