"""TIE self-check for the regenerated iteration-graph enumeration (gen/IterGraphs.v):
the REAL generators of desugar/_to_iteration_graphs.py, run to completion (items yielded in order +
the class of the exception that ends them, if any), against the Gallina functions.

Kinds of cases: legal_iteration_orders (also checks that GraphsIter.it_permutations / it_product
enumerate in itertools' order), to_iteration_graphs_expression, to_iteration_graphs (with ill-formed
requests: missing format, repeated index, tensor order different from the format's),
target_order_supported / target_has_pending_compressed on every target graph.
SumNode names are erased on both sides (see design.d/TIE_graphs.md)."""

from __future__ import annotations

from harness.tie_gen import HEAD, cbool, cfloat, clist, cstr, cz, id_term

EQB = """
Definition olayer_eqb (a b : option TensorLayer) : bool :=
  match a, b with
  | None, None => true
  | Some (MkTensorLayer t l), Some (MkTensorLayer t' l') => id_expr_eqb t t' && Z.eqb l l'
  | _, _ => false
  end.
Fixpoint ig_eqb (a b : ig_graph) {struct a} : bool :=
  match a, b with
  | IgTerminalNode x, IgTerminalNode y => id_expr_eqb x y
  | IgIterationNode i o n, IgIterationNode j p m => String.eqb i j && olayer_eqb o p && ig_eqb n m
  | IgSumNode s ts, IgSumNode s' us =>
      String.eqb s s' &&
      (fix go (l r : list ig_graph) {struct l} : bool :=
         match l, r with
         | [], [] => true
         | x :: l', y :: r' => ig_eqb x y && go l' r'
         | _, _ => false
         end) ts us
  | _, _ => false
  end.
Definition ostr_eqb (a b : option string) : bool :=
  match a, b with None, None => true | Some x, Some y => String.eqb x y | _, _ => false end.
Definition gen_eqb {A} (e : A -> A -> bool) (a b : pgen A) : bool :=
  list_eqb e (fst a) (fst b) && ostr_eqb (snd a) (snd b).
Definition res_eqb {A} (e : A -> A -> bool) (a b : pres A) : bool :=
  match a, b with POk x, POk y => e x y | PRaise x, PRaise y => String.eqb x y | _, _ => false end.
Inductive tcase :=
| COrders (f : Format) (want : pgen (list Z))
| CExpr (e : de_expr) (fs : pydict string Format) (want : pgen ig_graph)
| CAssign (a : de_assignment) (fs : pydict string Format) (want : pgen ig_graph)
| CFilters (t : ig_graph) (ol : pydict string TensorLayer) (sup pend : pres bool).
Definition ok (c : tcase) : bool :=
  match c with
  | COrders f w => gen_eqb (list_eqb Z.eqb) (legal_iteration_orders f) w
  | CExpr e fs w => gen_eqb ig_eqb (to_iteration_graphs_expression e fs) w
  | CAssign a fs w => gen_eqb ig_eqb (to_iteration_graphs a fs) w
  | CFilters t ol s p => res_eqb Bool.eqb (target_order_supported t ol) s
                         && res_eqb Bool.eqb (target_has_pending_compressed t ol) p
  end.
"""


def mode_term(m):
    return "Mode_" + m.name


def format_term(f):
    return f"(MkFormat {clist(mode_term(m) for m in f.modes)} {clist(cz(o) for o in f.ordering)})"


def formats_term(fs):
    return clist(f"({cstr(k)}, {format_term(v)})" for k, v in fs.items())


def de_term(e):
    from tensora.desugar import ast as D

    if isinstance(e, D.Integer):
        return f"(DeInteger {cz(e.value)})"
    if isinstance(e, D.Float):
        return f"(DeFloat {cfloat(e.value)})"
    if isinstance(e, D.Tensor):
        return f"(DeTensor {cz(e.id)} {cstr(e.name)} {clist(cstr(i) for i in e.indexes)})"
    if isinstance(e, D.Add):
        return f"(DeAdd {de_term(e.left)} {de_term(e.right)})"
    if isinstance(e, D.Multiply):
        return f"(DeMultiply {de_term(e.left)} {de_term(e.right)})"
    if isinstance(e, D.Contract):
        return f"(DeContract {cstr(e.index)} {de_term(e.expression)})"
    raise TypeError(e)


def layer_term(l):
    return f"(MkTensorLayer {id_term(l.tensor)} {cz(l.layer)})"


def graph_term(g):
    from tensora.iteration_graph import iteration_graph as ig

    if isinstance(g, ig.TerminalNode):
        return f"(IgTerminalNode {id_term(g.expression)})"
    if isinstance(g, ig.IterationNode):
        out = "None" if g.output is None else f"(Some {layer_term(g.output)})"
        return f"(IgIterationNode {cstr(g.index_variable)} {out} {graph_term(g.next)})"
    if isinstance(g, ig.SumNode):
        return f"(IgSumNode \"sum_0\" {clist(graph_term(t) for t in g.terms)})"
    raise TypeError(g)


def run_gen(it, term, limit=40):
    """(items as Coq terms, exception class or None); None when there are too many items"""
    items, exc = [], None
    try:
        for x in it:
            items.append(term(x))
            if len(items) > limit:
                return None
    except Exception as e:  # noqa: BLE001
        exc = type(e).__name__
    stop = "None" if exc is None else f"(Some {cstr(exc)})"
    return f"({clist(items)}, {stop})"


def run_res(f):
    try:
        return f"(POk {cbool(f())})"
    except Exception as e:  # noqa: BLE001
        return f"(PRaise {cstr(type(e).__name__)})"


def gen_format(rng, order):
    from tensora.format import Format, Mode

    modes = tuple(rng.choice([Mode.dense, Mode.dense, Mode.compressed]) for _ in range(order))
    ordering = list(range(order))
    if rng.random() < 0.5:
        rng.shuffle(ordering)
    return Format(modes, tuple(ordering))


def gen_problem(rng):
    """a desugared assignment and formats; mostly well formed"""
    from tensora.desugar import ast as D

    ids = iter(range(1, 100))
    names = ["B", "C", "d", "E"]
    idx = ["i", "j", "k"]
    formats = {}
    ill = rng.random() < 0.15
    diag = rng.random() < 0.12

    def tensor(name, indexes):
        t = D.Tensor(next(ids), name, tuple(indexes))
        if name not in formats:
            order = len(indexes)
            if ill and rng.random() < 0.3:
                order = max(0, order + rng.choice([-1, 1]))
            formats[name] = gen_format(rng, order)
        return t

    def leaf():
        c = rng.random()
        if c < 0.1:
            return D.Integer(rng.choice([0, 1, 2, -1]))
        if c < 0.17:
            return D.Float(rng.choice([0.0, 2.5, -0.0]))
        name = rng.choice(names)
        if name in formats and not (ill and rng.random() < 0.3):
            n = formats[name].order
        else:
            n = rng.choice([0, 1, 1, 2, 2, 3])
        if (ill and rng.random() < 0.3) or (diag and rng.random() < 0.5):
            ix = [rng.choice(idx) for _ in range(n)]
        else:
            ix = rng.sample(idx, min(n, 3))
        return tensor(name, ix)

    def expr(depth):
        c = rng.random()
        if depth <= 0 or c < 0.25:
            return leaf()
        if c < 0.5:
            return D.Add(expr(depth - 1), expr(depth - 1))
        if c < 0.8:
            return D.Multiply(expr(depth - 1), expr(depth - 1))
        return D.Contract(rng.choice(idx), expr(depth - 1))

    e = expr(rng.choice([1, 2, 2, 3]))
    if rng.random() < 0.2:  # a sum with a contraction: SumNodes, simplify_add, merge_assignment over a SumNode
        e = D.Add(D.Contract(rng.choice(idx), D.Multiply(leaf(), leaf())), e if rng.random() < 0.5 else leaf())
    n = rng.choice([0, 1, 2, 2, 3])
    tix = rng.sample(idx, n) if not (ill and rng.random() < 0.2) else [rng.choice(idx) for _ in range(n)]
    target = D.Tensor(0, "A", tuple(tix))
    order = len(tix) + (rng.choice([-1, 1]) if ill and rng.random() < 0.2 else 0)
    formats["A"] = gen_format(rng, max(0, order))
    if ill and rng.random() < 0.2 and len(formats) > 1:
        del formats[rng.choice([k for k in formats])]
    return D.Assignment(target, e), formats


def output_layers_of(assignment, formats):
    from tensora.iteration_graph.identifiable_expression import TensorLayer
    from tensora.iteration_graph.identifiable_expression import ast as id_

    f = formats[assignment.target.name]
    t = assignment.target
    return {
        t.indexes[i_dim]: TensorLayer(
            id_.Tensor(f"{t.id}_{t.name}", t.name, tuple(t.indexes[i] for i in f.ordering), f.modes), i_layer)
        for i_layer, i_dim in enumerate(f.ordering)
    }


def t_graphs(rng, n):
    from itertools import count

    from tensora.desugar import _to_iteration_graphs as M

    cases, descr = [], []
    tries = 0
    while len(cases) < n and tries < 20 * n:
        tries += 1
        kind = len(cases) % 10
        if kind == 0:
            f = gen_format(rng, rng.choice([0, 1, 2, 3, 4, 5]))
            w = run_gen(M.legal_iteration_orders(f), lambda o: clist(cz(i) for i in o), limit=130)
            if w is None:
                continue
            cases.append(f"COrders {format_term(f)} {w}")
            descr.append(f"legal_iteration_orders({f.deparse()})")
            continue
        a, fs = gen_problem(rng)
        if kind in (1, 2):
            w = run_gen(M.to_iteration_graphs_expression(a.expression, fs, count(1)), graph_term)
            if w is None:
                continue
            cases.append(f"CExpr {de_term(a.expression)} {formats_term(fs)} {w}")
            descr.append(f"to_iteration_graphs_expression({a.expression}, {({k: v.deparse() for k, v in fs.items()})})")
            continue
        if kind == 3:
            try:
                ol = output_layers_of(a, fs)
                tgs = list(M.to_iteration_graphs_expression(a.target, fs, []))
            except Exception:  # noqa: BLE001
                continue
            if not tgs:
                continue
            tg = rng.choice(tgs)
            if rng.random() < 0.3 and ol:
                del ol[rng.choice(list(ol))]
            olt = clist(f"({cstr(k)}, {layer_term(v)})" for k, v in ol.items())
            cases.append(f"CFilters {graph_term(tg)} {olt} {run_res(lambda: M.target_order_supported(tg, ol))} "
                         f"{run_res(lambda: M.target_has_pending_compressed(tg, ol))}")
            descr.append(f"filters on target order of {a.target} {fs[a.target.name].deparse()}")
            continue
        w = run_gen(M.to_iteration_graphs(a, fs), graph_term)
        if w is None:
            continue
        cases.append(f"CAssign (DeAssignment {de_term(a.target)} {de_term(a.expression)}) {formats_term(fs)} {w}")
        descr.append(f"to_iteration_graphs({a}, {({k: v.deparse() for k, v in fs.items()})})")
    text = HEAD + "From TV Require Import model.GraphsIter gen.ExhaustAst gen.Desugar gen.IterGraphs.\nOpen Scope list_scope.\n" + EQB
    text += "Definition cases : list tcase :=\n [" + ";\n  ".join(cases) + "].\n"
    text += "Eval vm_compute in (failing (map ok cases)).\n"
    return {"coq": text, "n": len(cases), "descr": descr}


TARGETS = {"graphs": t_graphs}
