"""TIE "grammar" self-check, implementation side: the REAL parse_assignment / parse_format /
parse_named_format of /repo against the interpreter of coq/model/Parsita.v run on the regenerated
grammar terms (coq/gen/GrammarGen.v), on generated strings.

This guards the trusted reading of parsita's combinators, of Python's regular expressions and of the
action language (tools/py2coq/extra_grammar.py).  Strings: valid sentences with random spacing and
redundant parentheses, near-misses (one character deleted / inserted / replaced), literal spellings
(incl. non-finite floats, `1.`, `.5`, `1e`, `007`), validation errors (also before a trailing junk
character), deep nesting, long literals, and format / named-format texts.

Limits respected by the generator (outside the model, K-C12-1 / K-C12-2): integer runs stay below 4300
digits, nesting below 40, sums below 300 terms; characters are ASCII (Python's \\d and str are
Unicode; the model works on bytes) apart from a few non-digit non-ASCII characters.

float(x) is compared through a table {exact decimal of the spelling -> binary64 value} computed by
Python; Assignment.__post_init__ (not translated) is instantiated with the hand model's `validate`.
"""

from __future__ import annotations

import math
import re
from decimal import Decimal

FLOAT_RE = re.compile(r"[0-9]+((\.[0-9]+([Ee][+-]?[0-9]+)?)|((\.[0-9]+)?[Ee][+-]?[0-9]+))")

HEAD = """From Coq Require Import ZArith NArith List Bool String Ascii.
From TV Require Import spec.Num model.Parser model.Parsita gen.GrammarGen.
From TV Require gen.Deparse gen.ExhaustAst.
Import ListNotations.
Open Scope string_scope.
Module GD := TV.gen.Deparse.
Fixpoint failing_from (i : nat) (l : list bool) : list nat :=
  match l with [] => [] | b :: t => if b then failing_from (S i) t else i :: failing_from (S i) t end.
Definition failing (l : list bool) : list nat := failing_from 0 l.
Definition nanF : F := BinarySingleNaN.B754_nan.
Definition infF : F := BinarySingleNaN.B754_infinity false.
Definition dec_eqb (a b : dec) : bool := if dec_eq_dec a b then true else false.
Fixpoint conv0 (e : GD.ex_expr) : expr :=
  match e with
  | GD.ExInteger z => EInt (Z.to_N z)
  | GD.ExFloat _ => EFloat (Dec 0 0)
  | GD.ExTensor n idx => ETensor n idx
  | GD.ExAdd a b => EAdd (conv0 a) (conv0 b)
  | GD.ExSubtract a b => ESub (conv0 a) (conv0 b)
  | GD.ExMultiply a b => EMul (conv0 a) (conv0 b)
  end.
(* Assignment.__post_init__ := the hand model's validate *)
Definition post (t e : GD.ex_expr) : option string :=
  match t with
  | GD.ExTensor n idx =>
      match validate (Assign n idx (conv0 e)) with
      | VOk => None
      | VMutating => Some "MutatingAssignmentError"
      | VInconsistent => Some "InconsistentDimensionsError"
      | VNameConflict => Some "NameConflictError"
      end
  | _ => Some "AttributeError"
  end.
Definition same_cls (r : presult) (k : nat) (c : string) : bool :=
  match r, k with
  | PFailure x, 1 => String.eqb x c
  | PRaise x, 2 => String.eqb x c
  | _, _ => false
  end.
Definition asg_ok (r : presult) (t e : GD.ex_expr) : bool :=
  match r with
  | PSuccess (VU (UAsg (GD.ExAssignment t' e'))) => GD.ex_expr_eqb t t' && GD.ex_expr_eqb e e'
  | _ => false
  end.
Definition mode_eqb (a b : ExhaustAst.Mode) : bool := ExhaustAst.Mode_eqb a b.
Fixpoint leqb {X} (f : X -> X -> bool) (a b : list X) : bool :=
  match a, b with [], [] => true | x :: a', y :: b' => f x y && leqb f a' b' | _, _ => false end.
Definition fmt_ok (r : presult) (ms : list ExhaustAst.Mode) (os : list Z) : bool :=
  match r with
  | PSuccess (VU (UFormat f)) => leqb mode_eqb (gf_modes f) ms && leqb Z.eqb (gf_ordering f) os
  | _ => false
  end.
Definition nfmt_ok (r : presult) (n : string) (ms : list ExhaustAst.Mode) (os : list Z) : bool :=
  match r with
  | PSuccess (VList [VStr n'; VU (UFormat f)]) =>
      String.eqb n n' && leqb mode_eqb (gf_modes f) ms && leqb Z.eqb (gf_ordering f) os
  | _ => false
  end.
"""


def cstr(s: str) -> str:
    return '"' + s.replace('"', '""') + '"'


def clist(xs) -> str:
    return "[" + "; ".join(xs) + "]"


def cfloat(v: float) -> str:
    if math.isinf(v):
        return "infF"
    if v == 0.0:
        return "F0"
    m, e = math.frexp(abs(v))
    mi = int(m * (1 << 53))
    ee = e - 53
    while mi and mi % 2 == 0:
        mi //= 2
        ee += 1
    return f"(Fmake false {mi} ({ee}))"


def dec_of(spelling: str) -> tuple[int, int]:
    sign, digits, exp = Decimal(spelling).as_tuple()
    m = int("".join(map(str, digits)))
    if m == 0:
        return 0, 0
    while m % 10 == 0:
        m //= 10
        exp += 1
    return m, exp


def ex_term(e) -> str:
    from tensora.expression import ast as A

    if isinstance(e, A.Integer):
        return f"(GD.ExInteger ({e.value})%Z)"
    if isinstance(e, A.Float):
        return f"(GD.ExFloat {cfloat(e.value)})"
    if isinstance(e, A.Tensor):
        return f"(GD.ExTensor {cstr(e.name)} {clist(cstr(i) for i in e.indexes)})"
    k = {A.Add: "ExAdd", A.Subtract: "ExSubtract", A.Multiply: "ExMultiply"}[type(e)]
    return f"(GD.{k} {ex_term(e.left)} {ex_term(e.right)})"


# ---------------------------------------------------------------------------------------------
# string generators
# ---------------------------------------------------------------------------------------------

NAMES = ["a", "b", "c", "A1", "xy", "T", "e9", "d", "s"]
INDEXES = ["i", "j", "k", "i1", "b", "e"]
LITS = ["0", "7", "007", "12", "1.5", "1e3", "2.5E-2", "1e22", "1E+5", "0.0", "3.25e-1", "1e999", "1.5e400", "1e-400",
        "1.", ".5", "1e", "1e+", "1.5.2", "1.e5", "9" * 30, "1" + "0" * 40 + ".5", "12e", "1e5e5", "1x", "0x10", "1_0"]


def sp(rng) -> str:
    return rng.choice(["", "", " ", "  ", ""])


def gen_tensor(rng) -> str:
    n = rng.choice(NAMES)
    idx = [rng.choice(INDEXES) for _ in range(rng.choice([0, 1, 1, 2, 3]))]
    return n + sp(rng) + "(" + sp(rng) + (sp(rng) + "," + sp(rng)).join(idx) + sp(rng) + ")"


def gen_expr(rng, depth: int) -> str:
    if depth <= 0 or rng.random() < 0.25:
        r = rng.random()
        if r < 0.55:
            return gen_tensor(rng)
        return rng.choice(LITS[:15] if rng.random() < 0.85 else LITS)
    r = rng.random()
    if r < 0.2:
        return "(" + sp(rng) + gen_expr(rng, depth - 1) + sp(rng) + ")"
    op = rng.choice(["+", "-", "*", "*"])
    return gen_expr(rng, depth - 1) + sp(rng) + op + sp(rng) + gen_expr(rng, depth - 1)


def gen_assignment(rng) -> str:
    return sp(rng) + gen_tensor(rng) + sp(rng) + "=" + sp(rng) + gen_expr(rng, rng.choice([0, 1, 2, 3, 4])) + sp(rng)


ALPHABET = "abijes019.eE+-*()=, _\t$:x"


def mutate(rng, s: str) -> str:
    if not s:
        return rng.choice(ALPHABET)
    k = rng.randrange(len(s))
    r = rng.random()
    if r < 0.35:
        return s[:k] + s[k + 1:]
    if r < 0.7:
        return s[:k] + rng.choice(ALPHABET) + s[k:]
    return s[:k] + rng.choice(ALPHABET) + s[k + 1:]


FIXED_ASSIGNMENTS = [
    "", " ", "a", "a(", "a()", "a() =", "a() = 1", "a()=1", "a() = 1 ", "a() = (1)", "a() = ((1))", "a() = ()", "a() = (1",
    "a() = 1)", "a(i,) = 1", "a(,i) = 1", "a(i,,j) = 1", "a(i j) = 1", "a(1) = 1", "1 = 1", "a() = b", "a() = b + ", "a() = + b()",
    "a() = -1", "a() = 1 - -1", "a() = 1 * * 2", "a() = 1 + 2 * 3 - 4", "a() = (1 + 2) * (3 - 4)", "a() = 1 e3", "a() = 1e 3",
    "a() = 1 .5", "a() = 1. 5", "a() == 1", "a() = 1 = 2", "a(i) = a(i)", "a(i) = b(i) + a()", "a(i) = b(i) + b(i,j)",
    "a(i) = b(i) * b(j) - b()", "a(i) = i(i)", "a(i) = b(a)", "a(a) = 1", "a() = a() $", "a(i) = b(i) + b() )", "a(i) = i() x",
    "a() = 1e999", "a() = 1e999 + 1", "a(i) = b(i) + b() * 1e999", "a() = 1.5e999x", "a() = 2 * 1e999", "a() = 1e400(",
    "a() = 1\t", "a()\t= 1", "a() = b(\ti)", "a() = 1\n", "a() = é", "aé() = 1", "a() = 1 é", "a() = b() c()",
    "a() = b()c()", "a() = 2b()", "a() = b()2", "a() = 2 3", "a() = b(i)(j)", "a() = (b())(c())", "A9z(i1,j2)=B(i1)*C(j2)",
    "a() = 1.5e3", "a() = 1.5e+3", "a() = 1.5e-3", "a() = 15e-1", "a() = 1.50", "a() = 0.1 + 0.10", "a() = 1E5", "a() = 00.5",
    "a() = 1e-400", "a() = 0e999", "a() = 0.0e999",
]

FIXED_FORMATS = ["", "d", "s", "ds", "sd", "d0", "d1", "d0s1", "d1s0", "d1d", "d1s", "d0s", "ds0", "d0d0", "d00", "d01s0", "d0s01",
                 "d2s0d1", "d0s2", "x", "d ", " d", "d0 s1", "D", "d-1", "d1s1", "s0d1d2s3", "s3d2d1s0", "d10", "0", "0d", "dd1",
                 "d" * 12, "d0s1d2s3d4s5d6s7d8s9d10s11", "d0s1d2s3d4s5d6s7d8s9d11s10", "d" + "9" * 50, "d" + "0" * 60]
FIXED_NAMED = ["x:d", "x:", ":d", "x", "", "x:d0s1", "_:ds", "_a1:s", "1a:d", "x :d", "x: d", "x:d:", "x::d", "a-b:d", "X_y9:d1s0",
               "x:d1d", "x:e", "x:d0s", "é:d", "x:ds "]


def gen_format(rng) -> str:
    n = rng.randrange(0, 6)
    if rng.random() < 0.5:
        return "".join(rng.choice("ds") for _ in range(n))
    perm = list(range(n))
    rng.shuffle(perm)
    if rng.random() < 0.3 and n:
        perm[rng.randrange(n)] = rng.randrange(0, n + 1)
    return "".join(rng.choice("ds") + str(p) for p in perm)


def assignment_strings(rng, n: int) -> list[str]:
    out = list(FIXED_ASSIGNMENTS)
    # deep nesting, long sums, long literals, long names
    out.append("a() = " + "(" * 30 + "1" + ")" * 30)
    out.append("a() = " + "(" * 25 + "b(i)" + ")" * 24)
    out.append("a(i) = " + " + ".join(f"b{k}(i)" for k in range(120)))
    out.append("a(i) = " + "*".join(["b(i)", "2", "1.5"] * 40))
    out.append("a() = " + "1" * 300)
    out.append("a() = " + "1" * 200 + "." + "5" * 100 + "e-" + "0" * 50 + "7")
    out.append("a" * 200 + "(" + ",".join(["i"] * 100) + ") = 1")
    out.append(" " * 200 + "a(i)" + " " * 100 + "=" + " " * 100 + "b(i)" + " " * 100)
    while len(out) < n:
        s = gen_assignment(rng)
        r = rng.random()
        if r < 0.45:
            out.append(s)
        elif r < 0.9:
            out.append(mutate(rng, s))
        else:
            out.append(mutate(rng, mutate(rng, s)))
    return out[:n]


def classify(fn, s):
    from returns.result import Failure, Success

    try:
        r = fn(s)
    except Exception as e:  # noqa: BLE001
        return ("raise", type(e).__name__, None)
    if isinstance(r, Success):
        return ("ok", None, r.unwrap())
    assert isinstance(r, Failure)
    return ("fail", type(r.failure()).__name__, None)


def t_grammar(rng, n):
    from tensora.expression._parser import parse_assignment
    from tensora.format import Mode
    from tensora.format._parser import parse_format, parse_named_format

    n_asg = max(len(FIXED_ASSIGNMENTS) + 8, (n * 3) // 5)
    n_fmt = max(len(FIXED_FORMATS), n // 5)
    n_named = max(len(FIXED_NAMED), n - n_asg - n_fmt)
    cases, descr = [], []
    table: dict[tuple[int, int], float] = {}

    def modes_term(ms):
        return clist("ExhaustAst.Mode_dense" if m is Mode.dense else "ExhaustAst.Mode_compressed" for m in ms)

    for s in assignment_strings(rng, n_asg):
        for i, ch in enumerate(s):
            if ch in "0123456789":
                m = FLOAT_RE.match(s, i)
                if m:
                    table[dec_of(m.group(0))] = float(m.group(0))
        kind, cls, val = classify(parse_assignment, s)
        call = f"(parse_assignment fl post {cstr(s)})"
        if kind == "ok":
            cases.append(f"asg_ok {call} {ex_term(val.target)} {ex_term(val.expression)}")
        else:
            cases.append(f"same_cls {call} {1 if kind == 'fail' else 2} {cstr(cls)}")
        descr.append(f"parse_assignment {s[:80]!r} -> {kind} {cls or ''}")

    fmts = list(FIXED_FORMATS)
    while len(fmts) < n_fmt:
        f = gen_format(rng)
        fmts.append(f if rng.random() < 0.6 else mutate(rng, f))
    for s in fmts[:n_fmt]:
        kind, cls, val = classify(parse_format, s)
        call = f"(parse_format {cstr(s)})"
        if kind == "ok":
            cases.append(f"fmt_ok {call} {modes_term(val.modes)} {clist(f'({o})%Z' for o in val.ordering)}")
        else:
            cases.append(f"same_cls {call} {1 if kind == 'fail' else 2} {cstr(cls)}")
        descr.append(f"parse_format {s[:80]!r} -> {kind} {cls or ''}")

    named = list(FIXED_NAMED)
    while len(named) < n_named:
        f = rng.choice(["x", "_t", "A1", "b_2", "9", ""]) + rng.choice([":", ":", ":", "", " :"]) + gen_format(rng)
        named.append(f if rng.random() < 0.6 else mutate(rng, f))
    for s in named[:n_named]:
        kind, cls, val = classify(parse_named_format, s)
        call = f"(parse_named_format {cstr(s)})"
        if kind == "ok":
            nm, fo = val
            cases.append(f"nfmt_ok {call} {cstr(nm)} {modes_term(fo.modes)} {clist(f'({o})%Z' for o in fo.ordering)}")
        else:
            cases.append(f"same_cls {call} {1 if kind == 'fail' else 2} {cstr(cls)}")
        descr.append(f"parse_named_format {s[:80]!r} -> {kind} {cls or ''}")

    text = HEAD
    rows = clist(f"(Dec {m}%N ({e})%Z, {cfloat(v)})" for (m, e), v in sorted(table.items()))
    text += f"Definition float_table : list (dec * F) := {rows}.\n"
    text += ("Definition fl (d : dec) : F :=\n"
             "  match find (fun p => dec_eqb (fst p) d) float_table with Some p => snd p | None => nanF end.\n")
    text += "Definition results : list bool :=\n " + ";\n ".join(cases).join(["[", "]"]) + ".\n"
    text += "Eval vm_compute in (failing results).\n"
    return {"coq": text, "n": len(cases), "descr": descr}


TARGETS = {"grammar": t_grammar}
