"""C05 (thorough tier): the emitted C of evaluate / assemble / compute compiled with
gcc -fsanitize=address,undefined and run in-process (LD_PRELOAD=libasan must be set by the caller).
Prints 'CASE <json>' before every run so that a sanitizer abort can be attributed; prints
'RESULT <json>' at the end.  stdin JSON: seed, max_problems, n_inputs, fmt_cap, builddir."""
from __future__ import annotations

import json
import os
import random
import re
import sys

from harness import sweep as S


def main():
    import cffi

    from tensora import Tensor
    from tensora.compile._cffi_ownership import allocate_taco_structure, taco_type_header, take_ownership_of_arrays, tensor_cdefs
    from tensora.compile._compile_cffi import taco_define_header
    from tensora.generate import Language, generate_code
    from tensora.kernel_type import KernelType
    from harness.irdump import problem_of

    cfg = json.load(sys.stdin)
    rng = random.Random(cfg["seed"])
    problems = []
    for tpl in S.TEMPLATES:
        for fm in S.format_choices(tpl, rng, cfg.get("fmt_cap", 3)):
            problems.append((tpl, fm))
    rng.shuffle(problems)
    done = 0
    mism = []
    for pno, (tpl, fm) in enumerate(problems):
        if done >= cfg.get("max_problems", 20):
            break
        try:
            prob = problem_of(tpl, fm)
            res = generate_code(prob, [KernelType.assemble, KernelType.compute, KernelType.evaluate], Language.c)
            src = res.unwrap()
        except Exception:
            continue
        names = list(prob.formats.keys())
        nargs = len(names)
        ffi = cffi.FFI()
        ffi.include(tensor_cdefs)
        sigargs = ", ".join(f"taco_tensor_t* {n}" for n in names)
        ffi.cdef(f"int32_t assemble({sigargs}); int32_t compute({sigargs}); int32_t evaluate({sigargs});")
        ffi.set_source(f"asan_{os.getpid()}_{pno}", taco_define_header + taco_type_header + src,
                       extra_compile_args=["-fsanitize=address,undefined", "-fno-omit-frame-pointer", "-g", "-O1", "-Wno-unused-variable"],
                       extra_link_args=["-fsanitize=address,undefined"])
        d = os.path.join(cfg["builddir"], f"p{pno}")
        os.makedirs(d, exist_ok=True)
        lib = ffi.dlopen(ffi.compile(tmpdir=d))
        done += 1
        for sizes in S.index_sizes_choices(tpl, rng, cfg.get("n_inputs", 2)):
            ins = S.make_inputs(tpl, sizes, rng)
            if not ins and S.tensor_occurrences(tpl):
                continue
            st, ref = S.run_evaluate(tpl, fm, ins)
            if st != "ok":
                continue
            case = {"assignment": tpl, "formats": fm, "inputs": {n: {"dims": v["dims"], "entries": [[list(c), x] for c, x in v["entries"].items()]} for n, v in ins.items()}}
            print("CASE " + json.dumps(case), flush=True)
            args = {n: S.build(fm[n], v["dims"], v["entries"]) for n, v in ins.items()}
            outfmt = prob.formats[names[0]]
            for hist in (("evaluate",), ("assemble", "compute"), ("assemble", "compute", "compute")):
                cout = allocate_taco_structure(tuple(m.c_int for m in outfmt.modes), tuple(ref["dims"]), outfmt.ordering)
                out = Tensor(cout)
                cargs = [cout] + [args[n].cffi_tensor for n in names[1:]]
                for k in hist:
                    rc = getattr(lib, k)(*cargs)
                    if rc != 0:
                        mism.append(dict(case, history=hist, error=f"{k} returned {rc}"))
                take_ownership_of_arrays(cout)
                got = S.raw(out)
                if got != ref:
                    mism.append(dict(case, history=list(hist), expected=ref, actual=got))
    print("RESULT " + json.dumps({"problems": done, "mismatches": mism[:20], "n_mismatches": len(mism)}), flush=True)


if __name__ == "__main__":
    main()
