"""C16 implementation side.  For every swept problem and every index k meeting the property's
condition, emit machine cases comparing the executed loop iterations of the real evaluate kernel on
inputs that differ only in the size of dimension k (same stored entries).  Also dumps, for the
context correspondence, (identifiable expression, index, Python extract_context.is_sparse, node
decision) of every iteration node of the real graph.

stdin JSON: seed, outdir, prefix, fmt_cap, max_problems, scales, per_shard."""
from __future__ import annotations

import json
import os
import random
import sys

from harness import irdump as D
from harness import irmachine as M
from harness import sweep as S

TEMPLATES = [
    "a(i) = b(i)", "a(i) = b(i) * c(i)", "a(i) = b(i) + c(i)", "a(i) = b(i) * c(i) + d(i)",
    "a(i,j) = b(i,j)", "a(i,j) = b(i,j) * c(i,j)", "a(i,j) = b(i,j) + c(i,j)", "a(i,j) = b(j,i)",
    "a(i) = b(i,j) * c(j)", "a() = b(i) * c(i)", "a() = b(i)", "a(i,j) = b(i,k) * c(k,j)",
    "a(i) = 2 * b(i)", "a(i) = b(i) + 1", "a(i,j) = b(i,j) * c(j)", "a(i,j) = b(i) * c(j)",
    "a(i) = b(i,j) * c(j) + d(i)", "a(i,j,k) = b(i,j,k)", "a(i,k) = b(i,j,k) * c(j)", "a(i) = b(i) - c(i)",
    "a() = b(i,j) * c(i,j)", "a(i) = b(i) * b(i)",
]


PRIORITY = [
    ("a(i,j,k) = b(i,j,k) + c(i,j,k)", {"a": "dds", "b": "dds", "c": "dds"}),
    ("a(i,j,k) = b(i,j,k) * c(i,j,k)", {"a": "dds", "b": "dds", "c": "dds"}),
    ("a(i,j,k) = b(i,j,k)", {"a": "dds", "b": "dds"}),
    ("a(i,j,k) = b(i,j,k)", {"a": "dss", "b": "dss"}),
    ("a(i,j,k) = b(i,j,k)", {"a": "sds", "b": "sds"}),
    ("a(i,j) = b(i,j,k) * c(k)", {"a": "dd", "b": "dds", "c": "s"}),
    ("a(i,j,k) = b(i,j,k) - c(i,j,k)", {"a": "sss", "b": "dds", "c": "sss"}),
    ("a(i,j) = b(i,j) + c(i,j)", {"a": "ds", "b": "ds", "c": "ds"}),
]


def monomials(e):
    from tensora.expression import ast as X
    if isinstance(e, (X.Add, X.Subtract)):
        return monomials(e.left) + monomials(e.right)
    if isinstance(e, X.Multiply):
        return [l + r for l in monomials(e.left) for r in monomials(e.right)]
    return [[e]]


def condition(a, formats, k):
    """every operand and the output store k only in compressed levels (or lack it); every additive
    term mentions k"""
    from tensora.expression import ast as X
    from tensora.format import parse_format
    occs = [a.target] + [t for m in monomials(a.expression) for t in m if isinstance(t, X.Tensor)]
    for t in occs:
        f = parse_format(formats[t.name]).unwrap()
        for level, dim in enumerate(f.ordering):
            if t.indexes[dim] == k and f.modes[level].character != "s":
                return False
    for m in monomials(a.expression):
        if not any(isinstance(t, X.Tensor) and k in t.indexes for t in m):
            return False
    return True


def id_expr_term(e) -> str:
    from tensora.iteration_graph.identifiable_expression import ast as I
    if isinstance(e, (I.Integer, I.Float)):
        return "ILitZero" if e.value == 0 else "ILit"
    if isinstance(e, I.Tensor):
        lv = "; ".join(f'("{i}", {"Dense" if m.character == "d" else "Compressed"})' for i, m in zip(e.indexes, e.modes))
        return f"(ITensor [{lv}])"
    if isinstance(e, I.Add):
        return f"(IAdd {id_expr_term(e.left)} {id_expr_term(e.right)})"
    if isinstance(e, I.Multiply):
        return f"(IMul {id_expr_term(e.left)} {id_expr_term(e.right)})"
    raise TypeError(e)


def graph_expr(g):
    """the expression under an iteration node (sum nodes become additions)"""
    from tensora.iteration_graph import iteration_graph as ig
    from tensora.iteration_graph.identifiable_expression import ast as I
    if isinstance(g, ig.TerminalNode):
        return g.expression
    if isinstance(g, ig.IterationNode):
        return graph_expr(g.next)
    terms = [graph_expr(t) for t in g.terms]
    out = terms[0]
    for t in terms[1:]:
        out = I.Add(out, t)
    return out


def nodes(g):
    from tensora.iteration_graph import iteration_graph as ig
    if isinstance(g, ig.IterationNode):
        yield g
        yield from nodes(g.next)
    elif isinstance(g, ig.SumNode):
        for t in g.terms:
            yield from nodes(t)


def main():
    cfg = json.load(sys.stdin)
    rng = random.Random(cfg["seed"])
    outdir, prefix = cfg["outdir"], cfg["prefix"]
    scales = cfg.get("scales", [10, 100])
    # all format assignments (exhaustive up to 4096 per template) that have a qualifying index;
    # a seeded sample of `per_template` of them, plus a few non-qualifying ones for the context tie
    problems = []
    for tpl in TEMPLATES:
        a0 = S.parsed(tpl)
        idx0 = sorted(set(a0.target.indexes) | set(a0.expression.index_participants().keys()))
        allf = S.format_choices(tpl, rng, 4096)
        qual = [fm for fm in allf if any(condition(a0, fm, k) for k in idx0)]
        rng.shuffle(qual)
        for fm in qual[: cfg.get("per_template", 4)]:
            problems.append((tpl, fm))
        rest = [fm for fm in allf if fm not in qual]
        rng.shuffle(rest)
        for fm in rest[:1]:
            problems.append((tpl, fm))
    rng.shuffle(problems)
    # always taken: a compressed level below one or two dense levels (order 3), with and without a leading factor
    problems = [(t, f) for t, f in PRIORITY] + [p for p in problems if (p[0], p[1]) not in [(t, f) for t, f in PRIORITY]]
    index = {"shards": [], "skipped": {}, "context_cases": []}
    defs, cases, metas = [], [], []
    shard_no = 0
    ctx_terms = []

    def flush():
        nonlocal defs, cases, metas, shard_no
        if not cases:
            return
        name = f"{prefix}_{shard_no}"
        text = M.HEADER + "From TV Require Import spec.IRRunHist.\n" + "\n".join(defs) + "\nDefinition cases : list verdict := [\n  " + ";\n  ".join(cases) + "\n].\n"
        text += "Eval vm_compute in (failing_from 0 (fun v => v) cases).\n"
        open(os.path.join(outdir, name + ".v"), "w").write(text)
        index["shards"].append({"name": name, "cases": metas})
        defs, cases, metas = [], [], []
        shard_no += 1

    nprob = 0
    for pno, (tpl, fm) in enumerate(problems):
        if nprob >= cfg.get("max_problems", 40):
            break
        a = S.parsed(tpl)
        idx = sorted(set(a.target.indexes) | set(a.expression.index_participants().keys()))
        ks = [k for k in idx if condition(a, fm, k)]
        try:
            prob, fns = D.generate_functions(tpl, fm, ("evaluate", "assemble", "compute"))
        except Exception as e:
            index["skipped"][type(e).__name__] = index["skipped"].get(type(e).__name__, 0) + 1
            continue
        # context correspondence on the real graph
        from tensora.desugar import best_algorithm, desugar_assignment
        g = best_algorithm(desugar_assignment(prob.assignment), prob.formats).unwrap()
        for n in nodes(g):
            e = graph_expr(n.next)
            out = "None" if n.output is None else ("(Some Dense)" if n.output.mode.character == "d" else "(Some Compressed)")
            py_sparse = n.is_sparse_input()
            py_node = n.is_sparse_input() and (n.output is None or n.is_sparse_output())
            ctx_terms.append((id_expr_term(e), n.index_variable, out, py_sparse, py_node,
                              {"assignment": tpl, "formats": fm, "index": n.index_variable}))
        if not ks:
            continue
        nprob += 1
        defs.append(f"Definition f{pno} := {D.coq_function(fns[0])}.")
        defs.append(f"Definition fa{pno} := {D.coq_function(fns[1])}.")
        defs.append(f"Definition fc{pno} := {D.coq_function(fns[2])}.")
        names = list(prob.formats.keys())
        out_modes = "".join(m.character for m in prob.formats[names[0]].modes)
        for k in ks:
            sizes = {i: rng.choice([3, 4]) for i in idx}
            ins = S.make_inputs(tpl, sizes, rng)
            if not ins:
                continue
            import itertools
            for n_, v in ins.items():
                # mix of empty and non-empty leading slices: an empty row must cost nothing either
                cells = list(itertools.product(*[range(d) for d in v["dims"]]))
                ent = {c: rng.choice([1.0, 2.0, 3.0]) for c in cells if rng.random() < 0.45}
                if v["dims"]:
                    hole = rng.randrange(v["dims"][0])
                    ent = {c: x for c, x in ent.items() if c[0] != hole}
                if not ent and cells:
                    c0 = rng.choice([c for c in cells if not v["dims"] or c[0] != hole] or cells)
                    ent = {c0: 1.0}
                v["entries"] = ent
            def tins(sz):
                dims_in = S.input_dims(tpl, sz)
                raws = {n: S.raw(S.build(fm[n], dims_in[n], ins[n]["entries"])) for n in ins}
                out_dims = [sz[i] for i in a.target.indexes]
                return "[" + "; ".join([M.tin_output(out_dims, out_modes)] + [M.tin_input(raws[n]) for n in names[1:]]) + "]"
            base = tins(sizes)
            for sc in scales:
                big = dict(sizes)
                big[k] = sizes[k] * sc
                cases.append(f"same_iters {cfg.get('fuel', 3000000)} f{pno} {base} {tins(big)}")
                metas.append({"assignment": tpl, "formats": fm, "index": k, "sizes": sizes, "scale": sc, "kind": "iters",
                              "inputs": {n: {"dims": v["dims"], "entries": [[list(c), x] for c, x in v["entries"].items()]} for n, v in ins.items()}})
                if sc == scales[-1]:
                    # the stand-alone assemble and compute kernels on one output (largest scale only)
                    cases.append(f"same_iters_hist {cfg.get('fuel', 3000000)} [fa{pno}; fc{pno}] {base} {tins(big)}")
                    metas.append({"assignment": tpl, "formats": fm, "index": k, "sizes": sizes, "scale": sc, "kind": "iters assemble;compute",
                                  "inputs": {n: {"dims": v["dims"], "entries": [[list(c), x] for c, x in v["entries"].items()]} for n, v in ins.items()}})
        if len(cases) >= cfg.get("per_shard", 20):
            flush()
    flush()
    # context shard
    ctx = ("From Coq Require Import Bool List String.\nFrom TV Require Import model.Context.\nImport ListNotations.\nOpen Scope string_scope.\n"
           "Definition ctx : list (iexpr * string * option mode * bool * bool) := [\n  "
           + ";\n  ".join(f'({t}, "{k}", {o}, {"true" if ps else "false"}, {"true" if pn else "false"})' for t, k, o, ps, pn, _ in ctx_terms)
           + "\n].\nEval vm_compute in (map (fun '(e, k, o, ps, pn) => Bool.eqb (is_sparse e k) ps && Bool.eqb (node_is_sparse e k o) pn) ctx).\n")
    open(os.path.join(outdir, prefix + "_ctx.v"), "w").write(ctx)
    index["context_cases"] = [m for *_, m in ctx_terms]
    json.dump(index, open(os.path.join(outdir, prefix + "_index.json"), "w"))
    print(json.dumps({"shards": len(index["shards"]), "cases": sum(len(s["cases"]) for s in index["shards"]),
                      "context_cases": len(ctx_terms), "skipped": index["skipped"], "impl_errors": 0, "generator_errors": 0}))


if __name__ == "__main__":
    main()
