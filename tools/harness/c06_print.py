"""C06, printer part: token correspondence between tensora's real C printer and the Coq model
coq/model/CPrint.v, plus the value searcher (gcc).

stdin JSON: {seed, outdir, n_random, n_untyped, shard, values}.  Runs under /venv python with
PYTHONPATH=<repo>/src:/verif/tools.

1. generates IR expression trees: every (parent, left child class, right child class) triple of the
   binary constructors to depth 2 (int-leaved and float-leaved variants), every child class under the
   unary constructors, seeded random typed trees to depth 4, seeded random UNTYPED trees (any
   constructor anywhere; tokens only), and statements exercising every sugar form;
2. prints them with the REAL ir_to_c_expression / ir_to_c_statement and lexes the text with the small
   C lexer below;
3. writes Coq shards comparing, token for token, with the model's cprint / cprint_stmt, and -- for
   trees inside the guard prec_ok -- comparing the verified-sound parser's result on the REAL tokens
   with embed (rotate e);
4. value sweep = the searcher: the printed text of every evaluable tree is compiled by gcc as
   `double f(void) { return <text>; }` and its value on a few environments compared with the value
   of the tree itself (computed here with C's arithmetic on the IR TREE) and with the value of
   rot(tree) (harness/crot.py).  C value == tree value: fine.  != tree but == rot: the known
   finding K-C06-1.  Otherwise: a concrete violation.
Writes <outdir>/index.json and prints a one-line JSON summary."""
from __future__ import annotations

import ctypes
import json
import os
import random
import re
import subprocess
import sys

from harness import irdump as D
from py2coq.core import float_lit

# --------------------------------------------------------------------------------------------
# a small C lexer (maximal munch)
# --------------------------------------------------------------------------------------------

PUNCT = ["->", "++", "--", "+=", "-=", "*=", "==", "!=", "<=", ">=", "&&", "||",
         "+", "-", "*", "<", ">", "(", ")", "[", "]", ",", ";", "="]
PUNCT_TOKEN = {"->": "TArrow", "++": "TPlusPlus", "--": "TMinusMinus", "+=": "TPlusEq", "-=": "TMinusEq",
               "*=": "TStarEq", "==": "TEqEq", "!=": "TNe", "<=": "TLe", ">=": "TGe", "&&": "TAndAnd",
               "||": "TOrOr", "+": "TPlus", "-": "TMinus", "*": "TStar", "<": "TLt", ">": "TGt",
               "(": "TLParen", ")": "TRParen", "[": "TLBrack", "]": "TRBrack", ",": "TComma", ";": "TSemi",
               "=": "TAssign"}
KEYWORDS = {"sizeof": "TSizeof", "return": "TReturn", "restrict": "TRestrict", "true": "TTrue", "false": "TFalse"}
TYPE_NAMES = {"bool", "int32_t", "double", "taco_tensor_t", "taco_mode_t"}
_ID = re.compile(r"[A-Za-z_][A-Za-z0-9_]*")
# pp-number: digits, letters, '.', and a sign directly after e/E/p/P
_PPNUM = re.compile(r"\.?[0-9](?:[eEpP][+-]|[0-9A-Za-z_.])*")
_INT = re.compile(r"[0-9]+\Z")
_FLOAT = re.compile(r"(?:[0-9]+\.[0-9]*|\.[0-9]+|[0-9]+(?=[eE]))(?:[eE][+-]?[0-9]+)?\Z")


class LexError(Exception):
    pass


def coq_string(s: str) -> str:
    return '"' + s.replace('"', '""') + '"%string'


def lex(text: str) -> list[str]:
    """C text -> list of Coq terms of type ctoken."""
    out = []
    i, n = 0, len(text)
    while i < n:
        c = text[i]
        if c in " \t\n":
            i += 1
            continue
        m = _ID.match(text, i)
        if m:
            w = m.group(0)
            if w in KEYWORDS:
                out.append(KEYWORDS[w])
            elif w in TYPE_NAMES:
                out.append(f"(TTypeName {coq_string(w)})")
            else:
                out.append(f"(TId {coq_string(w)})")
            i = m.end()
            continue
        m = _PPNUM.match(text, i)
        if m:
            w = m.group(0)
            if _INT.match(w):
                out.append(f"(TInt {int(w)}%Z)")
            elif _FLOAT.match(w):
                out.append(f"(TFlt {float_lit(float(w))})")
            else:
                raise LexError(f"bad number {w!r}")
            i = m.end()
            continue
        for p in PUNCT:
            if text.startswith(p, i):
                out.append(PUNCT_TOKEN[p])
                i += len(p)
                break
        else:
            raise LexError(f"bad character {c!r} at {i}")
    return out


# --------------------------------------------------------------------------------------------
# trees
# --------------------------------------------------------------------------------------------

def main():
    from tensora.codegen._ir_to_c import ir_to_c_expression, ir_to_c_statement
    from tensora.ir import ast as ir
    from tensora.ir import types as T

    from harness.crot import rot

    def rot2(e, add, mul, keep_sugar=True):
        """tools/harness/crot.py::rot with the + - and the * re-association switchable (a partial
        repair of K-C06-1 re-associates only one of them) and optionally ignoring the sugar."""
        def add_chain(x):
            if add and isinstance(x, ir.Add):
                return add_chain(x.left) + add_chain(x.right)
            if add and isinstance(x, ir.Subtract):
                return add_chain(x.left) + [("-", rot2(x.right, add, mul, keep_sugar))]
            return [("+", rot2(x, add, mul, keep_sugar))]

        def mul_chain(x):
            if mul and isinstance(x, ir.Multiply):
                return mul_chain(x.left) + mul_chain(x.right)
            return [rot2(x, add, mul, keep_sugar)]

        if add and isinstance(e, (ir.Add, ir.Subtract)):
            ch = add_chain(e)
            acc = ch[0][1]
            for sgn, a in ch[1:]:
                acc = ir.Add(acc, a) if sgn == "+" else ir.Subtract(acc, a)
            return acc
        if mul and isinstance(e, ir.Multiply):
            ch = mul_chain(e)
            acc = ch[0]
            for a in ch[1:]:
                acc = ir.Multiply(acc, a)
            return acc
        if isinstance(e, ir.Assignment):
            v = e.value
            if keep_sugar and isinstance(v, (ir.Add, ir.Subtract, ir.Multiply)) and v.left == e.target:
                return ir.Assignment(e.target, type(v)(rot2(v.left, add, mul), rot2(v.right, add, mul)))
            return ir.Assignment(e.target, rot2(v, add, mul, keep_sugar))
        if isinstance(e, (ir.Variable, IL, FL, BL)):
            return e
        if isinstance(e, ir.ArrayIndex):
            return ir.ArrayIndex(e.target, rot2(e.index, add, mul))
        if isinstance(e, ir.BooleanToInteger):
            return ir.BooleanToInteger(rot2(e.expression, add, mul))
        if isinstance(e, ir.ArrayAllocate):
            return ir.ArrayAllocate(e.element_type, rot2(e.n_elements, add, mul))
        if isinstance(e, ir.ArrayReallocate):
            return ir.ArrayReallocate(e.old, e.element_type, rot2(e.n_elements, add, mul))
        if hasattr(e, "left") and hasattr(e, "right"):
            return type(e)(rot2(e.left, add, mul), rot2(e.right, add, mul))
        return e

    cfg = json.load(sys.stdin)
    rng = random.Random(cfg["seed"])
    outdir = cfg["outdir"]
    os.makedirs(outdir, exist_ok=True)
    V = ir.Variable
    IL, FL, BL = ir.IntegerLiteral, ir.FloatLiteral, ir.BooleanLiteral

    BIN_ARITH = [ir.Add, ir.Subtract, ir.Multiply]
    BIN_CMP = [ir.Equal, ir.NotEqual, ir.GreaterThan, ir.LessThan, ir.GreaterThanOrEqual, ir.LessThanOrEqual]
    BIN_LOGIC = [ir.And, ir.Or]
    BIN_SEL = [ir.Max, ir.Min]
    BINARY = BIN_ARITH + BIN_CMP + BIN_LOGIC + BIN_SEL
    ALL = [ir.Variable, ir.AttributeAccess, ir.ArrayIndex, IL, FL, BL] + BINARY + [
        ir.BooleanToInteger, ir.ArrayAllocate, ir.ArrayReallocate]

    # ---- leaves by "flavour": i = int32 variables/literals, f = doubles, b = booleans
    class Names:
        def __init__(self):
            self.k = 0

        def pick(self, xs):
            self.k += 1
            return xs[self.k % len(xs)]

    def node(cls, fl, nm, depth=0):
        """an instance of class `cls` whose operands are leaves of flavour `fl` ('i' or 'f')"""
        num = (lambda: nm.pick([V("xf"), V("yf"), V("zf")])) if fl == "f" else (lambda: nm.pick([V("xi"), V("yi"), V("zi")]))
        boo = lambda: nm.pick([V("b1"), V("b2")])
        if cls is ir.Variable:
            return num()
        if cls is ir.AttributeAccess:
            return ir.AttributeAccess(V("t"), nm.pick(["vals", "dimensions", "indices"]))
        if cls is ir.ArrayIndex:
            return ir.ArrayIndex(V("q" if fl == "f" else "p"), nm.pick([IL(0), IL(1), V("ki")]))
        if cls is IL:
            return IL(nm.pick([1, 2, 3, 0, -1, 7]))
        if cls is FL:
            return FL(nm.pick([0.5, 0.1, 2.5, -1.5, 1e16, 0.2]))
        if cls is BL:
            return BL(nm.pick([True, False]))
        if cls in BIN_ARITH or cls in BIN_CMP or cls in BIN_SEL:
            return cls(num(), num())
        if cls in BIN_LOGIC:
            return cls(boo(), boo())
        if cls is ir.BooleanToInteger:
            return ir.BooleanToInteger(boo())
        if cls is ir.ArrayAllocate:
            return ir.ArrayAllocate(nm.pick([T.integer, T.float]), nm.pick([V("ki"), V("xi")]))
        if cls is ir.ArrayReallocate:
            return ir.ArrayReallocate(V("p"), nm.pick([T.integer, T.float]), nm.pick([V("ki"), V("xi")]))
        raise AssertionError(cls)

    exprs: list[tuple[str, object]] = []
    FLOATY = BIN_ARITH + BIN_CMP + BIN_SEL
    FLOATY_CHILD = [ir.Variable, ir.ArrayIndex, FL] + BIN_ARITH + BIN_SEL
    # depth 2, exhaustive over (parent, left child class, right child class), two leaf flavours
    for parent in BINARY + [ir.ArrayIndex]:
        for lc in ALL:
            for rc in ALL:
                flavours = ["i"]
                if parent in FLOATY and lc in FLOATY_CHILD and rc in FLOATY_CHILD:
                    flavours.append("f")
                for fl in flavours:
                    nm = Names()
                    l, r = node(lc, fl, nm), node(rc, fl, nm)
                    exprs.append(("d2", parent(l, r)))
    for fl in ("i", "f"):
        for c in ALL:
            nm = Names()
            exprs.append(("d2u", ir.AttributeAccess(node(c, fl, nm), "vals")))
            exprs.append(("d2u", ir.BooleanToInteger(node(c, fl, nm))))
            exprs.append(("d2u", ir.ArrayAllocate(T.integer, node(c, fl, nm))))
            exprs.append(("d2u", ir.ArrayAllocate(T.float, node(c, fl, nm))))
            exprs.append(("d2u", ir.ArrayReallocate(V("p"), T.integer, node(c, fl, nm))))
            exprs.append(("d2u", ir.ArrayReallocate(node(c, fl, nm), T.float, V("ki"))))
    # literals of every shape the printer can meet
    for z in [0, 1, -1, 7, 2147483647, -2147483648, 123456789]:
        exprs.append(("lit", IL(z)))
    for f in [0.0, 1.0, -1.0, 0.1, 0.2, 0.3, 2.5, 1e16, 1e-7, 1.5e300, -2.5e-300, 123456.789, 1e22, 5e-324, 0.30000000000000004]:
        exprs.append(("lit", FL(f)))
        exprs.append(("lit", ir.Add(V("xf"), FL(f))))
    for ty in [T.boolean, T.integer, T.float, T.tensor, T.mode, T.Pointer(T.integer), T.Pointer(T.float),
               T.Pointer(T.Pointer(T.integer)), T.Pointer(T.tensor), T.Array(T.integer), T.FixedArray(T.float, 3),
               T.Array(T.Pointer(T.float))]:
        exprs.append(("lit", ir.ArrayAllocate(ty, V("ki"))))

    # ---- seeded random typed trees (depth <= 4)
    INTS = [0, 1, 2, -1, 3, 7]
    FLOATS = [0.5, 1.0, 2.5, 0.1, 0.2, 0.3, -1.5, 1e16, 3.0]

    def int_e(d):
        if d <= 0 or rng.random() < 0.25:
            return rng.choice([IL(rng.choice(INTS)), V("xi"), V("yi"), V("zi"), ir.ArrayIndex(V("p"), IL(rng.choice([0, 1, 2, 3])))])
        k = rng.choice(["add", "sub", "mul", "add", "sub", "mul", "min", "max", "b2i"])
        if k in ("add", "sub", "mul"):
            return {"add": ir.Add, "sub": ir.Subtract, "mul": ir.Multiply}[k](int_e(d - 1), int_e(d - 1))
        if k == "min":
            return ir.Min(int_e(d - 1), int_e(d - 1))
        if k == "max":
            return ir.Max(int_e(d - 1), int_e(d - 1))
        return ir.BooleanToInteger(bool_e(d - 1))

    def float_e(d):
        if d <= 0 or rng.random() < 0.25:
            return rng.choice([FL(rng.choice(FLOATS)), V("xf"), V("yf"), V("zf"), ir.ArrayIndex(V("q"), IL(rng.choice([0, 1, 2, 3])))])
        op = rng.choice(BIN_ARITH)
        shape = rng.choice(["ff", "ff", "ff", "if", "fi"])
        if shape == "ff":
            return op(float_e(d - 1), float_e(d - 1))
        if shape == "if":
            return op(int_e(d - 1), float_e(d - 1))
        return op(float_e(d - 1), int_e(d - 1))

    def bool_e(d):
        if d <= 0 or rng.random() < 0.2:
            return rng.choice([BL(True), BL(False), V("b1"), V("b2"), ir.LessThan(V("xi"), V("yi"))])
        k = rng.choice(["cmp", "cmp", "and", "or", "and", "or"])
        if k == "cmp":
            return rng.choice(BIN_CMP)(int_e(d - 1), int_e(d - 1))
        return (ir.And if k == "and" else ir.Or)(bool_e(d - 1), bool_e(d - 1))

    for _ in range(cfg.get("n_random", 600)):
        d = rng.choice([2, 3, 3, 4, 4])
        exprs.append(("rnd", rng.choice([int_e, float_e, float_e, bool_e])(d)))

    # ---- seeded random untyped trees: any constructor anywhere (token level only)
    def any_e(d):
        if d <= 0 or rng.random() < 0.2:
            return rng.choice([V("xi"), V("xf"), V("b1"), IL(rng.choice(INTS)), FL(rng.choice(FLOATS)), BL(True), BL(False)])
        c = rng.choice(ALL[1:3] + BINARY * 2 + ALL[-3:])
        if c is ir.AttributeAccess:
            return c(any_e(d - 1), rng.choice(["vals", "indices"]))
        if c is ir.BooleanToInteger:
            return c(any_e(d - 1))
        if c is ir.ArrayAllocate:
            return c(rng.choice([T.integer, T.float]), any_e(d - 1))
        if c is ir.ArrayReallocate:
            return c(any_e(d - 1), rng.choice([T.integer, T.float]), any_e(d - 1))
        return c(any_e(d - 1), any_e(d - 1))

    for _ in range(cfg.get("n_untyped", 400)):
        exprs.append(("any", any_e(rng.choice([2, 3, 4]))))

    # ---- statements: every sugar form
    stmts: list[tuple[str, object]] = []
    targets = [("f", V("tf")), ("i", V("ti")), ("f", ir.ArrayIndex(V("q"), IL(1))), ("i", ir.ArrayIndex(V("p"), V("ki"))),
               ("i", ir.ArrayIndex(V("p"), ir.Add(V("ki"), IL(1)))), ("a", ir.AttributeAccess(V("t"), "vals"))]
    for fl, t in targets:
        f2 = "f" if fl == "f" else "i"
        rhs = [IL(1), IL(2), IL(0), IL(-1), FL(1.0), FL(0.5), t]
        for c in ALL:
            rhs.append(node(c, f2, Names()))
        rhs += [ir.Add(V("xf"), ir.Add(V("yf"), V("zf"))), ir.Subtract(V("xf"), ir.Subtract(V("yf"), V("zf"))),
                ir.Multiply(V("xf"), ir.Add(V("yf"), V("zf")))]
        other = ir.ArrayIndex(V("q"), IL(2)) if isinstance(t, ir.ArrayIndex) else V("uf")
        for r in rhs:
            for op in BIN_ARITH:
                stmts.append(("sugar", ir.Assignment(t, op(t, r))))       # t = t op r  -> sugar
                stmts.append(("nosugar", ir.Assignment(t, op(r, t))))     # t = r op t  -> never sugar
                stmts.append(("nosugar", ir.Assignment(t, op(other, r)))) # a different left operand
            stmts.append(("plain", ir.Assignment(t, r)))
            stmts.append(("plain", ir.Return(r)))
            stmts.append(("plain", r))
        stmts.append(("nosugar", ir.Assignment(t, ir.Add(ir.Add(t, IL(1)), IL(1)))))
        stmts.append(("nosugar", ir.Assignment(t, ir.Min(t, IL(1)))))
    for ty in [T.boolean, T.integer, T.float, T.tensor, T.mode, T.Pointer(T.integer), T.Pointer(T.float),
               T.Pointer(T.Pointer(T.integer)), T.Pointer(T.tensor), T.Array(T.integer), T.FixedArray(T.float, 3),
               T.Array(T.Pointer(T.float)), T.FixedArray(T.Array(T.integer), 2)]:
        stmts.append(("decl", ir.Declaration(V("d0"), ty)))
        stmts.append(("decl", ir.DeclarationAssignment(ir.Declaration(V("d1"), ty), ir.Add(V("xi"), ir.Multiply(V("yi"), IL(2))))))
    for _ in range(cfg.get("n_random", 600) // 6):
        fl, t = rng.choice(targets[:5])
        e = (float_e if fl == "f" else int_e)(rng.choice([1, 2, 3]))
        op = rng.choice(BIN_ARITH)
        stmts.append(("sugar", ir.Assignment(t, op(t, e))))
        stmts.append(("plain", ir.Assignment(t, e)))
        stmts.append(("decl", ir.DeclarationAssignment(ir.Declaration(V("d2"), T.float if fl == "f" else T.integer), e)))

    # ---- corpus (past minimal failures run first) and single-case replays
    ns = {k: getattr(ir, k) for k in dir(ir) if not k.startswith("_")}
    ns.update({k: getattr(T, k) for k in ("Array", "Boolean", "FixedArray", "Float", "Integer", "Mode", "Pointer", "Tensor")})

    def from_repr(text):
        return eval(text, {"__builtins__": {}}, ns)  # reprs of frozen dataclasses written by this harness

    pre_e, pre_s = [], []
    for text in (cfg.get("only") or []) + (cfg.get("corpus") or []):
        x = from_repr(text)
        (pre_e if isinstance(x, ir.Expression) and not cfg.get("as_stmt") else pre_s).append(("corpus", x))
    if cfg.get("only"):
        exprs, stmts = pre_e, pre_s
    else:
        exprs, stmts = pre_e + exprs, pre_s + stmts

    # ---- dedupe
    def uniq(items):
        seen, out = set(), []
        for k, x in items:
            key = repr(x)
            if key not in seen:
                seen.add(key)
                out.append((k, x))
        return out

    exprs = uniq(exprs)
    stmts = uniq(stmts)

    # --------------------------------------------------------------------------------------------
    # print + lex
    # --------------------------------------------------------------------------------------------
    cases = []   # dicts: kind, what ('expr'|'stmt'), repr, text, coq, tokens (list|None), error
    for what, items in (("expr", exprs), ("stmt", stmts)):
        for kind, x in items:
            rec = {"what": what, "kind": kind, "repr": repr(x)}
            try:
                if what == "expr":
                    text = ir_to_c_expression(x)
                else:
                    lines = ir_to_c_statement(x)
                    if len(lines) != 1:
                        raise ValueError(f"{len(lines)} lines")
                    text = lines[0]
                rec["text"] = text
            except Exception as e:  # the printer itself failed
                rec["text"] = None
                rec["error"] = f"printer: {type(e).__name__}: {e}"
            if rec["text"] is not None:
                try:
                    rec["tokens"] = lex(rec["text"])
                except LexError as e:
                    rec["tokens"] = None
                    rec["error"] = f"lexer: {e}"
            rec["coq"] = D.coq_expr(x) if what == "expr" else D.coq_stmt(x)
            rec["obj"] = x
            cases.append(rec)

    # --------------------------------------------------------------------------------------------
    # Coq shards
    # --------------------------------------------------------------------------------------------
    HEADER = """From Coq Require Import ZArith Bool List String.
From Flocq Require Import Core BinarySingleNaN.
From TV Require Import spec.Num gen.IRAst spec.PyBase spec.CGrammar model.CPrint.
Import ListNotations.
Local Open Scope nat_scope.
Definition toks_eqb := list_eqb ctoken_eqb.
(* 0 = fine: tokens equal the model's, and (inside the guard) the verified-sound parser reads
       embed (rotate e) from them
   1 = tokens differ from the model and the text does not parse to a re-association of the tree
   2 = tokens equal but the parser does not read embed (rotate e) inside the guard
   3 = tokens differ from the model, but the REAL tokens parse to exactly embed e (cparse_sound: the
       text means the tree; e.g. a repair of K-C06-1, a redundant parenthesis)
   4 = tokens differ from the model, the real tokens parse to a tree with the same re-association
       normal form as embed e (K-C06-1 family, nothing else) *)
Definition check_expr (c : expr * list ctoken) : nat :=
  let '(e, ts) := c in
  if toks_eqb (cprint e) ts then
    if prec_ok e then
      match cparse ts with
      | Some t => if cexpr_eqb t (embed (rotate e)) then 0 else 2
      | None => 2
      end
    else 0
  else
    match cparse ts with
    | Some t =>
        if cexpr_eqb t (embed e) then 3
        else if cexpr_eqb (cnorm t) (cnorm (embed e)) then 4 else 1
    | None => 1
    end.
Definition check_stmt (c : stmt * list ctoken) : nat :=
  let '(s, ts) := c in
  match cprint_stmt s with
  | Some ms => if toks_eqb ms ts then 0 else 1
  | None => 1
  end.
Fixpoint failing {A} (f : A -> nat) (i : nat) (l : list A) : list (nat * nat) :=
  match l with
  | [] => []
  | x :: r => match f x with 0 => failing f (S i) r | k => (i, k) :: failing f (S i) r end
  end.
"""
    block = cfg.get("block", 500)
    per_file = cfg.get("blocks_per_file", 4)
    files = []
    for what in ("expr", "stmt"):
        sel = [i for i, c in enumerate(cases) if c["what"] == what and c.get("tokens") is not None]
        blocks = [sel[s0:s0 + block] for s0 in range(0, len(sel), block)]
        for f0 in range(0, len(blocks), per_file):
            name = f"c06p_{what}_{f0 // per_file}"
            ty = "expr" if what == "expr" else "stmt"
            text = HEADER
            for j, ids in enumerate(blocks[f0:f0 + per_file]):
                body = ";\n  ".join(f"({cases[i]['coq']}, [{'; '.join(cases[i]['tokens'])}])" for i in ids)
                text += f"Definition cases{j} : list ({ty} * list ctoken) := [\n  {body}\n].\n"
                text += f"Eval vm_compute in (failing check_{what} 0 cases{j}).\n"
            path = os.path.join(outdir, name + ".v")
            with open(path, "w") as fh:
                fh.write(text)
            files.append({"name": name, "path": path, "blocks": blocks[f0:f0 + per_file], "what": what})

    # --------------------------------------------------------------------------------------------
    # value sweep (searcher): gcc on the real text vs the tree itself
    # --------------------------------------------------------------------------------------------
    ENVS = [
        dict(xi=1, yi=2, zi=3, ki=1, xf=0.1, yf=0.2, zf=0.3, b1=1, b2=0, tf=0.7, ti=5, uf=1.25, p=[3, 0, 5, 7], q=[0.5, 0.1, 2.0, 0.3]),
        dict(xi=3, yi=1, zi=2, ki=2, xf=1e16, yf=-1e16, zf=1.0, b1=0, b2=1, tf=1e16, ti=2, uf=-0.5, p=[2, 1, 0, 4], q=[0.1, 0.7, 1e16, 1.0]),
        dict(xi=0, yi=5, zi=1, ki=0, xf=0.5, yf=0.3, zf=2.5, b1=1, b2=1, tf=0.1, ti=0, uf=3.0, p=[1, 6, 2, 0], q=[0.2, 0.3, 0.6, 0.9]),
        dict(xi=7, yi=7, zi=2, ki=3, xf=-1.5, yf=2.25, zf=0.7, b1=0, b2=0, tf=-2.5, ti=-3, uf=0.1, p=[0, 2, 4, 1], q=[3.0, 0.25, 0.1, 0.2]),
    ]
    INT_VARS = ["xi", "yi", "zi", "ki", "ti"]
    FLT_VARS = ["xf", "yf", "zf", "tf", "uf"]
    BOOL_VARS = ["b1", "b2"]

    class Skip(Exception):
        pass

    I32 = (-2 ** 31, 2 ** 31 - 1)

    def chk_int(v):
        if isinstance(v, int) and not (I32[0] <= v <= I32[1]):
            raise Skip("int32 overflow")
        return v

    SIZEOF = {T.integer: 4, T.float: 8}

    def ev(e, env):
        """value of an IR tree with C's arithmetic: int32 (Python int), double (Python float);
        booleans are the ints 0/1."""
        if isinstance(e, ir.Variable):
            if e.name in INT_VARS or e.name in BOOL_VARS or e.name in FLT_VARS:
                return env[e.name]
            raise Skip("variable " + e.name)
        if isinstance(e, IL):
            return chk_int(e.value)
        if isinstance(e, FL):
            return float(e.value)
        if isinstance(e, BL):
            return 1 if e.value else 0
        if isinstance(e, ir.ArrayIndex):
            if not (isinstance(e.target, ir.Variable) and e.target.name in ("p", "q")):
                raise Skip("index target")
            i = ev(e.index, env)
            if not isinstance(i, int) or not 0 <= i < 4:
                raise Skip("index")
            return env[e.target.name][i]
        if isinstance(e, (ir.Add, ir.Subtract, ir.Multiply)):
            a, b = ev(e.left, env), ev(e.right, env)
            if isinstance(e, ir.Add):
                return chk_int(a + b)
            if isinstance(e, ir.Subtract):
                return chk_int(a - b)
            return chk_int(a * b)
        if isinstance(e, tuple(BIN_CMP)):
            a, b = ev(e.left, env), ev(e.right, env)
            return int({ir.Equal: a == b, ir.NotEqual: a != b, ir.GreaterThan: a > b, ir.LessThan: a < b,
                        ir.GreaterThanOrEqual: a >= b, ir.LessThanOrEqual: a <= b}[type(e)])
        if isinstance(e, ir.And):
            return int(bool(ev(e.left, env)) and bool(ev(e.right, env)))
        if isinstance(e, ir.Or):
            return int(bool(ev(e.left, env)) or bool(ev(e.right, env)))
        if isinstance(e, (ir.Max, ir.Min)):
            a, b = ev(e.left, env), ev(e.right, env)
            if isinstance(a, float) != isinstance(b, float):
                a, b = float(a), float(b)   # the macro's ?: converts both branches to double
            if isinstance(e, ir.Max):
                return a if a > b else b
            return a if a < b else b
        if isinstance(e, ir.BooleanToInteger):
            v = ev(e.expression, env)
            if isinstance(v, float):
                if not -2e9 < v < 2e9:
                    raise Skip("cast range")
                return int(v)
            return v
        if isinstance(e, ir.ArrayAllocate):      # compiled with  #define malloc(n) (n)
            n = ev(e.n_elements, env)
            if e.element_type not in SIZEOF or (isinstance(n, int) and n < 0):
                raise Skip("alloc")
            return SIZEOF[e.element_type] * n
        if isinstance(e, ir.ArrayReallocate):    # #define realloc(p, n) (n)
            if not (isinstance(e.old, ir.Variable) and e.old.name in ("p", "q")):
                raise Skip("realloc old")
            n = ev(e.n_elements, env)
            if e.element_type not in SIZEOF or (isinstance(n, int) and n < 0):
                raise Skip("alloc")
            return SIZEOF[e.element_type] * n
        raise Skip(type(e).__name__)

    def ctype_of(e):
        """static C type of the tree: 'i' or 'f' (needed where C insists on an integer)"""
        if isinstance(e, ir.Variable):
            return "f" if e.name in FLT_VARS else "i"
        if isinstance(e, FL):
            return "f"
        if isinstance(e, ir.ArrayIndex):
            return "f" if (isinstance(e.target, ir.Variable) and e.target.name == "q") else "i"
        if isinstance(e, (ir.Add, ir.Subtract, ir.Multiply, ir.Max, ir.Min)):
            return "f" if "f" in (ctype_of(e.left), ctype_of(e.right)) else "i"
        if isinstance(e, ir.ArrayAllocate):
            return ctype_of(e.n_elements)
        if isinstance(e, ir.ArrayReallocate):
            return ctype_of(e.n_elements)
        return "i"

    def compilable(e):
        """conservative: the text is certain to compile (so one bad tree cannot sink the unit)"""
        if isinstance(e, ir.Variable):
            return e.name in INT_VARS + FLT_VARS + BOOL_VARS
        if isinstance(e, (IL, FL, BL)):
            if isinstance(e, IL):
                return -2 ** 31 < e.value < 2 ** 31
            return True
        if isinstance(e, ir.ArrayIndex):
            return (isinstance(e.target, ir.Variable) and e.target.name in ("p", "q") and compilable(e.index)
                    and ctype_of(e.index) == "i")
        if isinstance(e, ir.AttributeAccess):
            return False
        if isinstance(e, ir.BooleanToInteger):
            return compilable(e.expression)
        if isinstance(e, ir.ArrayAllocate):
            return compilable(e.n_elements) and e.element_type in SIZEOF
        if isinstance(e, ir.ArrayReallocate):
            return (isinstance(e.old, ir.Variable) and e.old.name in ("p", "q") and compilable(e.n_elements)
                    and e.element_type in SIZEOF)
        return compilable(e.left) and compilable(e.right)

    def run_stmt(s, env):
        """final value of the statement's target, with the tree's own meaning"""
        t = s.target
        v = ev(s.value, env)
        if isinstance(t, ir.Variable):
            isf = t.name in FLT_VARS
        else:
            isf = t.target.name == "q"
        if isf:
            return float(v)
        if isinstance(v, float):
            raise Skip("float into an int target")
        return chk_int(int(v))

    NUM_SORT = tuple(BIN_ARITH + BIN_SEL) + (IL, FL, ir.BooleanToInteger)
    BOOL_SORT = tuple(BIN_CMP + BIN_LOGIC) + (BL,)
    ANY_SORT = (ir.Variable, ir.AttributeAccess, ir.ArrayIndex)

    def numeric(e):
        return isinstance(e, NUM_SORT + ANY_SORT)

    def boolean(e):
        return isinstance(e, BOOL_SORT + ANY_SORT)

    def wt_expr(e):
        """mirror of coq/model/CPrint.v::wt_expr && alloc_ok (the guard of C06_cprint_derives_partial)"""
        if isinstance(e, (ir.Variable, IL, FL, BL)):
            return True
        if isinstance(e, ir.AttributeAccess):
            return isinstance(e.target, ANY_SORT) and wt_expr(e.target)
        if isinstance(e, ir.ArrayIndex):
            return isinstance(e.target, ANY_SORT) and wt_expr(e.target) and numeric(e.index) and wt_expr(e.index)
        if isinstance(e, tuple(BIN_ARITH + BIN_CMP + BIN_SEL)):
            return numeric(e.left) and numeric(e.right) and wt_expr(e.left) and wt_expr(e.right)
        if isinstance(e, tuple(BIN_LOGIC)):
            return boolean(e.left) and boolean(e.right) and wt_expr(e.left) and wt_expr(e.right)
        if isinstance(e, ir.BooleanToInteger):
            return boolean(e.expression) and wt_expr(e.expression)
        if isinstance(e, ir.ArrayAllocate):
            return numeric(e.n_elements) and wt_expr(e.n_elements) and not isinstance(e.n_elements, ir.Multiply)
        if isinstance(e, ir.ArrayReallocate):
            return (isinstance(e.old, ANY_SORT) and wt_expr(e.old) and numeric(e.n_elements) and wt_expr(e.n_elements)
                    and not isinstance(e.n_elements, ir.Multiply))
        return False

    funcs = []   # (case index, C function text)
    if cfg.get("values", True):
        for i, c in enumerate(cases):
            if c.get("text") is None:
                continue
            x = c["obj"]
            if c["what"] == "expr":
                if compilable(x) and wt_expr(x):
                    funcs.append((i, f"double f{i}(void) {{ return {c['text']}; }}"))
            elif isinstance(x, ir.Assignment):
                t = x.target
                ok_t = (isinstance(t, ir.Variable) and t.name in ("tf", "ti")) or (
                    isinstance(t, ir.ArrayIndex) and compilable(t))
                if ok_t and compilable(x.value) and wt_expr(x.value) and wt_expr(t):
                    funcs.append((i, f"double f{i}(void) {{ {c['text']} return {ir_to_c_expression(t)}; }}"))
    PRE = """#include <stdint.h>
#include <stdbool.h>
#define TACO_MIN(_a,_b) ((_a) < (_b) ? (_a) : (_b))
#define TACO_MAX(_a,_b) ((_a) > (_b) ? (_a) : (_b))
#define malloc(n) (n)
#define realloc(p, n) (n)
int32_t xi, yi, zi, ki, ti; double xf, yf, zf, tf, uf; bool b1, b2; int32_t p[4]; double q[4];
void set_env(int32_t a, int32_t b, int32_t c, int32_t k, int32_t t_i, double d, double e, double f, double t_f, double u,
             int32_t x1, int32_t x2, const int32_t* pp, const double* qq) {
  xi = a; yi = b; zi = c; ki = k; ti = t_i; xf = d; yf = e; zf = f; tf = t_f; uf = u; b1 = x1; b2 = x2;
  for (int j = 0; j < 4; j++) { p[j] = pp[j]; q[j] = qq[j]; }
}
"""
    # the macros come from compile/_compile_cffi.py::taco_define_header; check they are still those
    from tensora.compile._compile_cffi import taco_define_header
    macro_ok = ("#define TACO_MIN(_a,_b) ((_a) < (_b) ? (_a) : (_b))" in taco_define_header
                and "#define TACO_MAX(_a,_b) ((_a) > (_b) ? (_a) : (_b))" in taco_define_header)

    value_diffs = []
    compile_dropped = []
    n_values = 0
    n_skipped = 0
    if funcs:
        live = list(funcs)
        lib = None
        for attempt in range(4):
            src = os.path.join(outdir, f"c06p_values_{attempt}.c")
            with open(src, "w") as fh:
                fh.write(PRE)
                for i, f in live:
                    fh.write(f"#line {i + 1000000}\n{f}\n")
            so = os.path.join(outdir, f"c06p_values_{attempt}.so")
            r = subprocess.run(["gcc", "-std=c99", "-O0", "-ffp-contract=off", "-w", "-shared", "-fPIC", "-o", so, src],
                               capture_output=True, text=True, timeout=600)
            if r.returncode == 0:
                lib = ctypes.CDLL(so)
                break
            bad = {int(m.group(1)) - 1000000 for m in re.finditer(r":(\d{7,}):\d+: error", r.stderr)}
            if not bad:
                compile_dropped.append({"error": r.stderr[-1500:]})
                break
            for b in sorted(bad):
                compile_dropped.append({"case": b, "text": cases[b]["text"], "repr": cases[b]["repr"]})
            live = [(i, f) for i, f in live if i not in bad]
        if lib is not None:
            lib.set_env.argtypes = [ctypes.c_int32] * 5 + [ctypes.c_double] * 5 + [ctypes.c_int32] * 2 + [
                ctypes.POINTER(ctypes.c_int32), ctypes.POINTER(ctypes.c_double)]
            for i, _ in live:
                c = cases[i]
                x = c["obj"]
                fn = getattr(lib, f"f{i}")
                fn.restype = ctypes.c_double
                fn.argtypes = []
                for env in ENVS:
                    try:
                        if c["what"] == "expr":
                            want = ev(x, env)
                            want_rot = ev(rot(x), env)
                            others = [ev(rot2(x, True, False), env), ev(rot2(x, False, True), env)]
                        else:
                            want = run_stmt(x, env)
                            want_rot = run_stmt(rot(x), env)
                            others = [run_stmt(rot2(x, True, False), env), run_stmt(rot2(x, False, True), env)]
                    except Skip:
                        n_skipped += 1
                        continue
                    lib.set_env(env["xi"], env["yi"], env["zi"], env["ki"], env["ti"], env["xf"], env["yf"], env["zf"],
                                env["tf"], env["uf"], env["b1"], env["b2"], (ctypes.c_int32 * 4)(*env["p"]),
                                (ctypes.c_double * 4)(*env["q"]))
                    got = fn()
                    n_values += 1
                    if float(want).hex() != float(got).hex() and not (float(want) == 0.0 and got == 0.0):
                        explained = float(want_rot).hex() == float(got).hex()
                        partly = (not explained) and any(float(o).hex() == float(got).hex() for o in others)
                        value_diffs.append({"case": i, "what": c["what"], "kind": c["kind"], "tree": c["repr"], "text": c["text"],
                                            "inputs": env, "c_value": float(got).hex(), "tree_value": float(want).hex(),
                                            "rotated_tree_value": float(want_rot).hex(),
                                            "c_value_dec": repr(float(got)), "tree_value_dec": repr(float(want)),
                                            "explained_by_rotate": explained, "explained_by_partial_rotate": partly})

    for c in cases:
        c.pop("obj", None)
    index = {"cases": cases, "files": files, "value_diffs": value_diffs, "compile_dropped": compile_dropped,
             "macro_ok": macro_ok}
    with open(os.path.join(outdir, "index.json"), "w") as fh:
        json.dump(index, fh)
    kinds = {}
    for c in cases:
        kinds[c["kind"]] = kinds.get(c["kind"], 0) + 1
    print(json.dumps({"cases": len(cases), "exprs": len(exprs), "stmts": len(stmts), "kinds": kinds,
                      "files": len(files), "unlexed": sum(1 for c in cases if c.get("tokens") is None),
                      "value_functions": len(funcs), "values_compared": n_values, "values_skipped": n_skipped,
                      "value_diffs": len(value_diffs),
                      "value_diffs_unexplained": sum(1 for d in value_diffs if not d["explained_by_rotate"] and not d["explained_by_partial_rotate"]),
                      "compile_dropped": len(compile_dropped), "macro_ok": macro_ok}))


if __name__ == "__main__":
    main()
