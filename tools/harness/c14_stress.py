"""C14 stress harness: runs evaluate / tensor_method requests alone (baseline) or from many threads at once.

    c14_stress.py base <spec.json> <out.json>    spec = {"requests": [req, ...]}
    c14_stress.py par  <spec.json> <out.json>    spec = {"threads": [[req, ...], ...], "switch": 1e-6}

req = {"id": int, "kind": "evaluate" | "method", "backend": "llvm" | "cffi", "assignment": str,
       "out_format": str, "inputs": {name: {"format": str, "dims": [..], "dok": [[[coords], value], ...]}}}

Result of a request: {"dims", "modes", "ordering", "indices" (raw taco_indices), "vals" (float.hex of raw taco_vals)}
or {"error": "ExceptionType: message"}.

par mode: every thread runs its list of requests; round r of all threads starts at a barrier (so that the
calls really overlap); the result is read immediately after the call ("now") and once more after all threads
have finished the round ("later": a returned tensor must not be changed by somebody else's call).
"""
import json
import sys
import threading
import time
import traceback


def build_inputs(req):
    from tensora import Tensor

    out = {}
    for name, d in req["inputs"].items():
        dok = {tuple(c): float(v) for c, v in d["dok"]}
        out[name] = Tensor.from_dok(dok, dimensions=tuple(d["dims"]), format=d["format"])
    return out


def serialize(t):
    return {
        "dims": list(t.dimensions),
        "modes": [m.name for m in t.modes],
        "ordering": list(t.mode_ordering),
        "indices": t.taco_indices,
        "vals": [float(v).hex() for v in t.taco_vals],
    }


def perform(req):
    """Returns the Tensor (or raises)."""
    from tensora.compile import BackendCompiler, evaluate_cffi, evaluate_tensora, tensor_method

    inputs = build_inputs(req)
    if req["kind"] == "evaluate":
        f = evaluate_cffi if req["backend"] == "cffi" else evaluate_tensora
        return f(req["assignment"], req["out_format"], **inputs)
    formats = {name: d["format"] for name, d in req["inputs"].items()}
    target = req["assignment"].split("(")[0].strip()
    formats = {target: req["out_format"], **formats}
    m = tensor_method(req["assignment"], formats, BackendCompiler(req["backend"]))
    return m(**inputs)


def err(ex):
    return {"error": f"{type(ex).__name__}: {str(ex)[:200]}"}


def run_base(spec):
    res = {}
    for req in spec["requests"]:
        try:
            res[str(req["id"])] = serialize(perform(req))
        except Exception as ex:  # noqa: BLE001
            res[str(req["id"])] = err(ex)
    return res


def run_par(spec):
    threads_spec = spec["threads"]
    n = len(threads_spec)
    rounds = max(len(t) for t in threads_spec)
    for req in spec.get("warm", []):  # problems that are already cached when the threads start
        try:
            perform(req)
        except Exception:  # noqa: BLE001
            pass
    sys.setswitchinterval(spec.get("switch", 1e-6))
    barrier = threading.Barrier(n, timeout=spec.get("barrier_timeout", 300))
    now = {}
    later = {}
    notes = []
    lock = threading.Lock()

    def worker(i):
        reqs = threads_spec[i]
        for r in range(rounds):
            req = reqs[r] if r < len(reqs) else None
            kept = None
            try:
                barrier.wait()
            except threading.BrokenBarrierError:
                with lock:
                    notes.append(f"thread {i}: broken barrier before round {r}")
                return
            if req is not None:
                try:
                    kept = perform(req)
                    a = serialize(kept)
                except Exception as ex:  # noqa: BLE001
                    a = err(ex)
                    kept = None
                with lock:
                    now[str(req["id"])] = a
            try:
                barrier.wait()
            except threading.BrokenBarrierError:
                with lock:
                    notes.append(f"thread {i}: broken barrier after round {r}")
                return
            if req is not None and kept is not None:
                try:
                    b = serialize(kept)
                except Exception as ex:  # noqa: BLE001
                    b = err(ex)
                with lock:
                    later[str(req["id"])] = b
            del kept

    ts = [threading.Thread(target=worker, args=(i,), daemon=True) for i in range(n)]
    t0 = time.time()
    for t in ts:
        t.start()
    deadline = t0 + spec.get("timeout", 900)
    for t in ts:
        t.join(max(0.0, deadline - time.time()))
    alive = [i for i, t in enumerate(ts) if t.is_alive()]
    if alive:
        notes.append(f"threads still running at the deadline (deadlock?): {alive}")
    return {"now": now, "later": later, "notes": notes, "wall": time.time() - t0}


def main():
    mode, spec_path, out_path = sys.argv[1:4]
    spec = json.loads(open(spec_path).read())
    try:
        res = run_base(spec) if mode == "base" else run_par(spec)
    except Exception:  # noqa: BLE001
        traceback.print_exc()
        sys.exit(4)
    with open(out_path, "w") as f:
        f.write(json.dumps(res))
    sys.stdout.flush()
    # daemon threads may still be blocked: leave without waiting for them
    import os

    os._exit(0)


if __name__ == "__main__":
    main()
