"""C14 stress harness: runs evaluate / tensor_method requests alone (baseline) or from many threads at once.

    c14_stress.py base <spec.json> <out.json>    spec = {"requests": [req, ...]}
    c14_stress.py par  <spec.json> <out.json>    spec = {"threads": [[req, ...], ...], "switch": 1e-6}

req = {"id": int, "kind": "evaluate" | "method", "backend": "llvm" | "cffi", "assignment": str,
       "out_format": str, "inputs": {name: {"format": str, "dims": [..], "dok": [[[coords], value], ...]}}}

Result of a request: {"dims", "modes", "ordering", "indices" (raw taco_indices), "vals" (float.hex of raw taco_vals)}
or {"error": "ExceptionType: message"}.

par mode: every thread runs its list of requests; round r of all threads starts at a barrier (so that the
calls really overlap); the result is read immediately after the call ("now") and once more after all threads
have finished the round ("later": a returned tensor must not be changed by somebody else's call).
"""
import json
import sys
import threading
import time
import traceback


def build_inputs(req):
    from tensora import Tensor

    out = {}
    for name, d in req["inputs"].items():
        dok = {tuple(c): float(v) for c, v in d["dok"]}
        out[name] = Tensor.from_dok(dok, dimensions=tuple(d["dims"]), format=d["format"])
    return out


def serialize(t):
    return {
        "dims": list(t.dimensions),
        "modes": [m.name for m in t.modes],
        "ordering": list(t.mode_ordering),
        "indices": t.taco_indices,
        "vals": [float(v).hex() for v in t.taco_vals],
    }


def perform(req):
    """Returns the Tensor (or raises)."""
    from tensora.compile import BackendCompiler, evaluate_cffi, evaluate_tensora, tensor_method

    inputs = build_inputs(req)
    if req["kind"] == "evaluate":
        f = evaluate_cffi if req["backend"] == "cffi" else evaluate_tensora
        return f(req["assignment"], req["out_format"], **inputs)
    formats = {name: d["format"] for name, d in req["inputs"].items()}
    target = req["assignment"].split("(")[0].strip()
    formats = {target: req["out_format"], **formats}
    m = tensor_method(req["assignment"], formats, BackendCompiler(req["backend"]))
    return m(**inputs)


def err(ex):
    return {"error": f"{type(ex).__name__}: {str(ex)[:200]}"}


def run_base(spec):
    res = {}
    for req in spec["requests"]:
        try:
            res[str(req["id"])] = serialize(perform(req))
        except Exception as ex:  # noqa: BLE001
            res[str(req["id"])] = err(ex)
    return res


def run_par(spec):
    threads_spec = spec["threads"]
    n = len(threads_spec)
    rounds = max(len(t) for t in threads_spec)
    for req in spec.get("warm", []):  # problems that are already cached when the threads start
        try:
            perform(req)
        except Exception:  # noqa: BLE001
            pass
    sys.setswitchinterval(spec.get("switch", 1e-6))
    barrier = threading.Barrier(n, timeout=spec.get("barrier_timeout", 300))
    now = {}
    later = {}
    notes = []
    lock = threading.Lock()

    def worker(i):
        reqs = threads_spec[i]
        for r in range(rounds):
            req = reqs[r] if r < len(reqs) else None
            kept = None
            try:
                barrier.wait()
            except threading.BrokenBarrierError:
                with lock:
                    notes.append(f"thread {i}: broken barrier before round {r}")
                return
            if req is not None:
                try:
                    kept = perform(req)
                    a = serialize(kept)
                except Exception as ex:  # noqa: BLE001
                    a = err(ex)
                    kept = None
                with lock:
                    now[str(req["id"])] = a
            try:
                barrier.wait()
            except threading.BrokenBarrierError:
                with lock:
                    notes.append(f"thread {i}: broken barrier after round {r}")
                return
            if req is not None and kept is not None:
                try:
                    b = serialize(kept)
                except Exception as ex:  # noqa: BLE001
                    b = err(ex)
                with lock:
                    later[str(req["id"])] = b
            del kept

    ts = [threading.Thread(target=worker, args=(i,), daemon=True) for i in range(n)]
    t0 = time.time()
    for t in ts:
        t.start()
    deadline = t0 + spec.get("timeout", 900)
    for t in ts:
        t.join(max(0.0, deadline - time.time()))
    alive = [i for i, t in enumerate(ts) if t.is_alive()]
    if alive:
        notes.append(f"threads still running at the deadline (deadlock?): {alive}")
    return {"now": now, "later": later, "notes": notes, "wall": time.time() - t0}


def run_hammer(spec):
    """Two unsynchronised phases that keep threads inside the library for seconds (no barrier per call):
    sizes -- ONE shared compiled method (and the cached evaluate path) called by N threads, each with its own
             index sizes; every result must have the caller's dimensions and the caller's values;
    fresh -- B builder threads compile F never-seen problems each (the kernel cache fills and evicts) while N
             threads keep repeating one cached call; every call must return its own sequential result.
    The expected results are computed alone, before the threads start."""
    import random

    from tensora import Tensor
    from tensora.compile import evaluate_tensora, tensor_method

    rng = random.Random(spec.get("seed", 0))
    sys.setswitchinterval(spec.get("switch", 1e-6))
    anomalies = []
    lock = threading.Lock()
    counts = {"sizes_calls": 0, "fresh_built": 0, "fresh_cached_calls": 0}
    deadline = time.time() + spec.get("timeout", 300)

    def note(a):
        with lock:
            if len(anomalies) < 20:
                anomalies.append(a)

    # schedule perturbation: a per-thread trace function that yields the processor (a short sleep releases the GIL)
    # between the LINES of tensora/compile/*.py -- the windows between "look up" and "use" of shared state become
    # milliseconds wide instead of a few bytecodes.  Installed with sys.settrace inside the threads that ask for it.
    prng = random.Random(spec.get("seed", 0) + 17)

    def perturb(where="/tensora/compile/"):
        def local(frame, event, arg):
            if event == "line" and prng.random() < 0.6:
                time.sleep(0.0003)
            return local

        def tracer(frame, event, arg):
            fn = frame.f_code.co_filename
            if where in fn:
                return local
            return None

        sys.settrace(tracer)

    # ---- phase sizes
    n = spec.get("threads", 8)
    calls = spec.get("calls", 1500)
    assignment = "a(i,j,k) = b(i,j,k) + c(i,j,k)"
    fm = {"a": "sss", "b": "sss", "c": "sss"}
    method = tensor_method(assignment, fm)
    per = []
    for t in range(n):
        dims = (2 + t, 3 + 2 * t, 2 + (t % 3))
        cells = [(i, j, k) for i in range(dims[0]) for j in range(dims[1]) for k in range(dims[2])]
        bd = {c: float(rng.randint(1, 9)) for c in rng.sample(cells, max(1, len(cells) // 3))}
        cd = {c: float(rng.randint(1, 9)) for c in rng.sample(cells, max(1, len(cells) // 3))}
        b = Tensor.from_dok(bd, dimensions=dims, format="sss")
        c = Tensor.from_dok(cd, dimensions=dims, format="sss")
        exp = serialize(method(b=b, c=c))
        per.append((dims, b, c, exp, {"b": {"dims": list(dims), "dok": [[list(k), v] for k, v in bd.items()]},
                                      "c": {"dims": list(dims), "dok": [[list(k), v] for k, v in cd.items()]}}))

    def sizes_worker(t):
        dims, b, c, exp, descr = per[t]
        if t % 2 == 1:
            perturb()
        for r in range(calls if t % 2 == 0 else max(50, calls // 20)):
            if time.time() > deadline or len(anomalies) >= 20:
                return
            try:
                res = method(b=b, c=c) if r % 2 == 0 else evaluate_tensora(assignment, "sss", b=b, c=c)
                got = serialize(res)
            except Exception as ex:  # noqa: BLE001
                got = err(ex)
            with lock:
                counts["sizes_calls"] += 1
            if got != exp:
                note({"phase": "sizes", "thread": t, "call": r, "assignment": assignment, "formats": fm,
                      "via": "tensor_method object" if r % 2 == 0 else "evaluate", "inputs": descr,
                      "expected": exp, "got": got})
                return

    ts = [threading.Thread(target=sizes_worker, args=(t,), daemon=True) for t in range(n)]
    for t in ts:
        t.start()
    for t in ts:
        t.join(max(0.0, deadline - time.time()))
    if any(t.is_alive() for t in ts):
        note({"phase": "sizes", "what": "threads still running at the deadline"})

    # ---- phase fresh
    builders, fresh = spec.get("builders", 3), spec.get("fresh", 60)
    hot_assignment = "y(i) = m(i,j) * x(j)"
    m = Tensor.from_dok({(0, 1): 2.0, (2, 0): 3.0, (2, 2): -1.0}, dimensions=(3, 3), format="ds")
    x = Tensor.from_dok({(0,): 1.0, (1,): 5.0, (2,): 7.0}, dimensions=(3,), format="d")
    hot_exp = serialize(evaluate_tensora(hot_assignment, "d", m=m, x=x))
    stop = threading.Event()

    def builder(bi):
        for q in range(fresh):
            if time.time() > deadline or stop.is_set():
                return
            nm = f"f{spec.get('seed', 0)}b{bi}q{q}"
            asg = f"o{nm}(i) = p{nm}(i) + q{nm}(i)"
            pv = Tensor.from_dok({(0,): 1.0 + q, (2,): 2.0}, dimensions=(3,), format="s")
            qv = Tensor.from_dok({(1,): 4.0, (2,): 0.5 + bi}, dimensions=(3,), format="d")
            try:
                got = serialize(evaluate_tensora(asg, "d", **{f"p{nm}": pv, f"q{nm}": qv}))
                want = [float(1.0 + q).hex(), float(4.0).hex(), float(2.5 + bi).hex()]
                if got["vals"] != want or got["dims"] != [3]:
                    note({"phase": "fresh", "role": "builder", "assignment": asg, "expected_vals": want, "got": got})
            except Exception as ex:  # noqa: BLE001
                note({"phase": "fresh", "role": "builder", "assignment": asg, "got": err(ex),
                      "history": f"{counts['fresh_built']} never-seen problems compiled before in this process"})
            with lock:
                counts["fresh_built"] += 1

    def repeater(t):
        if t % 3 != 0:
            # the file that holds the kernel cache: windows between its look-ups and its uses
            perturb("/tensora/compile/_porcelain.py")
        while not stop.is_set() and time.time() < deadline:
            try:
                got = serialize(evaluate_tensora(hot_assignment, "d", m=m, x=x))
            except Exception as ex:  # noqa: BLE001
                got = err(ex)
            with lock:
                counts["fresh_cached_calls"] += 1
            if got != hot_exp:
                note({"phase": "fresh", "role": "cached call", "assignment": hot_assignment, "expected": hot_exp, "got": got,
                      "history": f"{counts['fresh_built']} never-seen problems compiled before in this process"})
                return

    bs = [threading.Thread(target=builder, args=(i,), daemon=True) for i in range(builders)]
    rs = [threading.Thread(target=repeater, args=(i,), daemon=True) for i in range(spec.get("repeaters", 6))]
    for t in bs + rs:
        t.start()
    for t in bs:
        t.join(max(0.0, deadline - time.time()))
    stop.set()
    for t in rs:
        t.join(5.0)
    return {"anomalies": anomalies, "counts": counts}


def main():
    mode, spec_path, out_path = sys.argv[1:4]
    spec = json.loads(open(spec_path).read())
    try:
        res = run_base(spec) if mode == "base" else run_hammer(spec) if mode == "hammer" else run_par(spec)
    except Exception:  # noqa: BLE001
        traceback.print_exc()
        sys.exit(4)
    with open(out_path, "w") as f:
        f.write(json.dumps(res))
    sys.stdout.flush()
    # daemon threads may still be blocked: leave without waiting for them
    import os

    os._exit(0)


if __name__ == "__main__":
    main()
