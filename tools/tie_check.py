"""Stand-alone run of the TIE obligations (what the property checks call through props/_tie.py):

    /venv/bin/python -B tools/tie_check.py [exhaust context names deparse desugar]
    VERIF_REPO=/root/scratch/x /venv/bin/python -B tools/tie_check.py names      # against a scratch tree

Regenerates the gen files, rebuilds the equivalence proofs (and props/TIE.v when all targets are
requested), runs the translator self-check.  Prints one line per target and the broken obligations;
exit code 1 when anything is broken.  Writes no evidence file."""
import json
import os
import sys
import time
from pathlib import Path

sys.path.insert(0, str(Path(__file__).resolve().parent))
os.environ.setdefault("PYTHONHASHSEED", "0")
from vlib.core import VERIF, Check  # noqa: E402
from props._tie import TIE, run_tie  # noqa: E402


def main():
    names = sys.argv[1:] or list(TIE)
    tier = os.environ.get("VERIF_TIER", "quick")
    seed = int(os.environ.get("VERIF_SEED", "0") or 0)
    chk = Check("TIE", tier, seed)
    t0 = time.time()
    res = run_tie(chk, names)
    if set(names) >= set(TIE) and all(r["regen"] for r in res.values()):
        ok = chk.coq_props("props/TIE.v")
        print(f"props/TIE.v: {'built' if ok else 'BROKEN'}; theorems: "
              f"{sum(1 for o in chk.obligations if o['theorem'].startswith('TIE_') and o['discharged'])}")
    for n, r in res.items():
        print(f"TIE {n}: regen={r['regen']} proof={r['proof']} selfcheck={r['selfcheck']}")
    print(f"wall {time.time() - t0:.1f}s; counters {chk.counters}")
    if chk.broken:
        print("BROKEN " + json.dumps(chk.broken, indent=1)[:8000])
    d = VERIF / "replays" / "TIE"
    try:
        d.rmdir()  # only if empty
    except OSError:
        pass
    return 1 if chk.broken else 0


if __name__ == "__main__":
    sys.exit(main())
