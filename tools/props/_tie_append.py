"""TIE entry for the regenerated output emitters (auto-discovered by props/_tie.py).

    run_tie(chk, ["append"])      # in C02 (and C05, which shares model/Append.v)
"""
TIE_EXTRA = {
    "append": {
        "gen": ["IRAst.v", "Names.v", "AppendGen.v"],
        "vo": "proofs/GenAppend_all.vo",
        "theorems": ["gen_crd_assembly_shape", "gen_crd_assembly_none", "gen_pos_assembly_shape", "gen_pos_allocation_shape", "gen_declarations_all", "gen_cleanup_all", "gen_declarations_compute_all", "gen_compute_fragments_certified", "gen_declarations_c", "gen_declarations_dc", "gen_declarations_cc", "gen_cleanup_c", "gen_cleanup_cc", "gen_cleanup_cd", "gen_cleanup_compute", "gen_bucket_declarations_shape", "gen_bucket_declarations_none", "gen_bucket_assignment_shape", "exec_grow_double", "exec_grow_max", "crd_assembly_refines", "append_refines", "pos_assembly_refines", "pos_allocation_double_refines", "pos_allocation_max_refines", "run_segs_refines", "emitted_protocol_inv", "decl_level_refines", "decl_vals_refines", "cleanup_rest_refines", "pos_shrink_refines", "cleanup_vals_refines", "run_segs_refines_frame", "vector_life", "vector_life_wf"],
        "source": "iteration_graph/_write_sparse_ir.py, iteration_graph/outputs/{_append,_bucket}.py, ir/ast.py (helper methods), "
                  "kernel_type.py (ir/_builder.py pinned by hash)",
        "model": "coq/model/Append.v (decl_level, grow_double, grow_max, crd_assembly, append, pos_assembly, append_all, run_segs, cleanup, run_level) "
                 "through the IR abstract machine coq/spec/IRSem.v",
    },
}
