"""C06 -- the C and LLVM back ends implement the same kernel.

Proof part (props/C06.v, built when present): the C expression printer preserves the parse tree
(precedence grammar) up to the re-association recorded as known finding K-C06-1.
Correspondence part (this file):
  (a) real kernels: IR abstract machine vs LLVM JIT, bit for bit, float-valued inputs, capacities 2/default;
  (b) real kernels: gcc-compiled C (cffi) vs LLVM JIT, bit for bit; every difference must be reproduced
      exactly by the machine on the IR re-associated the way C parses the printed text (K-C06-1),
      otherwise it is a violation;
  (c) expression stream: well-typed IR statement/expression trees no kernel emits (precedence, mixed
      int/float, short-circuit, compound-assignment sugar, promotion in declarations) three ways;
  (d) token-level correspondence of the printer model (tools/props/_c06_printer.py) when present."""
from __future__ import annotations

import importlib
import json

from props._machine import parse_failing, run_mgen
from vlib.core import GUARD, BUILD, COQ, known_for


def classify_rot(chk, tag, script, cfg, what, env=None):
    """run a generator that compares C with LLVM and emits 'rotated' machine shards"""
    d = BUILD / "cases" / f"c06_{chk.tier}_{tag}"
    d.mkdir(parents=True, exist_ok=True)
    for f in d.glob("*"):
        if f.is_file():
            f.unlink()
    cfg = dict(cfg, outdir=str(d))
    rc, out, err = chk.impl(script, input=json.dumps(cfg), timeout=2400, env=env)
    if rc != 0:
        if rc < 0 or rc in (134, 137, 139):
            last = [l[5:] for l in err.splitlines() if l.startswith("CASE ")]
            payload = {"config": cfg, "stderr_tail": err[-1500:], "environment": env}
            if last:
                try:
                    payload.update(json.loads(last[-1]))
                    payload["note"] = "the process died while the LLVM or the C kernel of this case was running"
                except ValueError:
                    pass
            chk.violation(f"process crashed while running {what} (exit {rc})", payload)
        else:
            chk.broken.append({"kind": "harness", "what": f"{script} failed rc={rc}", "stderr": err[-2500:]})
        return None, d
    summary = json.loads(out.strip().splitlines()[-1])
    chk.extra.setdefault("sweeps", {})[tag] = summary
    return json.loads((d / (cfg["prefix"] + "_index.json")).read_text()), d


def run(chk):
    quick = chk.tier == "quick"
    known = {f["id"] for f in known_for("C06")}
    chk.rule = ("(a) sweep.TEMPLATES x formats x float-valued inputs {0.1,0.2,0.3,1e16,-1,0.7,1.5} x capacities {2,default}: machine vs LLVM; "
                "(b) C (gcc via cffi) vs LLVM on a subset incl. right-nested sums/products; (c) seeded random statement trees (depth<=4) "
                "over 4 environments, C vs LLVM vs machine; distinct = (kernel or tree, inputs, capacity)")
    chk.trusted += [
        "Coq 8.16.1 kernel; vm_compute",
        "IR abstract machine spec/IRSem.v is the reference meaning of the IR; LLVM JIT (llvmlite MCJIT) and gcc are run, not modelled",
        "IR dumper tools/harness/irdump.py, translator tools/py2coq (gen/IRAst.v)",
        "re-association function harness/crot.py::rot (mirrored by `rotate` in the Coq printer development)",
    ]
    ok = chk.regen(["IRAst.v"])
    if (COQ / "props" / "C06.v").exists():
        if ok:
            chk.coq_props()
    else:
        chk.note("props/C06.v (printer proof) not present yet: this run is correspondence only")
    chk.coq_make(["spec/IRRun.vo"])

    # (a) machine vs LLVM on real kernels
    for cap in (["2"] if quick else ["1", "2", None]):
        cfg = {"seed": chk.seed * 41 + 1, "kinds": ["eval"], "fmt_cap": 3 if quick else 10, "n_inputs": 2 if quick else 4,
               "max_problems": 100 if quick else 600, "per_shard": 10, "float_stream": True}
        index, failing = run_mgen(chk, f"mach_cap{cap or 'default'}", cfg, cap)
        for meta, verdict in failing:
            chk.violation(f"IR abstract machine and LLVM JIT disagree on a real kernel: {verdict}",
                          {"assignment": meta["assignment"], "formats": meta["formats"], "inputs": meta["inputs"], "capacity": cap,
                           "machine_verdict": verdict, "llvm_result": meta.get("expected"), "shard": meta["shard"], "case_index": meta["case_index"]})
        if index and index["shards"] and index["shards"][0]["cases"]:
            m = index["shards"][0]["cases"][0]
            chk.sample({"kind": "machine-vs-llvm", "assignment": m["assignment"], "formats": m["formats"], "inputs": m["inputs"]})

    # (b) C vs LLVM on real kernels
    index, d = classify_rot(chk, "ckern", "c06_kernels.py",
                            {"seed": chk.seed * 43 + 2, "prefix": "k", "max_problems": 22 if quick else 120, "n_inputs": 3, "fmt_cap": 2 if quick else 4},
                            "the C back end")
    if index is not None:
        chk.count("c_vs_llvm_kernel_runs", index["compared"])
        for i in range(index["compared"]):
            chk.case(("ckern", chk.seed, i))
        for e in index["errors"]:
            chk.violation("the C back end failed where the LLVM back end produced a result", e)
        handle_rot(chk, index, d, known, "kernel")

    # (b') the same comparison with initial capacity 1 (hook): the growth paths (capacity tests, doubling, reallocation)
    # of both back ends are executed, not only printed
    index, d = classify_rot(chk, "ckern_cap1", "c06_kernels.py",
                            {"seed": chk.seed * 43 + 5, "prefix": "k1", "max_problems": 14 if quick else 80, "n_inputs": 2, "fmt_cap": 2 if quick else 4},
                            "the C back end with initial capacity 1", env={GUARD: "1"})
    if index is not None:
        chk.count("c_vs_llvm_kernel_runs_capacity1", index["compared"])
        for i in range(index["compared"]):
            chk.case(("ckern_cap1", chk.seed, i))
        for e in index["errors"]:
            chk.violation("the C back end failed where the LLVM back end produced a result (initial capacity 1)", dict(e, capacity="1"))
        handle_rot(chk, index, d, known, "kernel")

    # (c) expression stream
    index, d = classify_rot(chk, "expr", "c06_expr.py",
                            {"seed": chk.seed * 47 + 3, "prefix": "e", "n": 90 if quick else 600, "per_module": 30}, "the expression stream")
    if index is not None:
        for e in index["compile_errors"]:
            chk.violation("emitted C does not compile", e)
        for h in index.get("hangs", []):
            chk.violation(f"code emitted by the {'C' if h['backend'] == 'c' else 'LLVM'} back end "
                          + ("does not terminate (40 s)" if h["how"] == "timeout" else "crashes")
                          + " on an IR tree whose loops are bounded by a counter (the other executions of the stream return at once)", h)
        res = chk.coq_run_files([str(d / (s["name"] + ".v")) for s in index["shards"]], workers=6)
        for sh in index["shards"]:
            okr, outr = res[str(d / (sh["name"] + ".v"))]
            fails = parse_failing(outr) if okr else None
            if fails is None:
                chk.broken.append({"kind": "correspondence", "what": "expression shard did not evaluate", "output": outr[-1500:]})
                continue
            for i, m in enumerate(sh["cases"]):
                chk.case(("expr", m["ir"], tuple(m["env"])))
            chk.count("expr_machine_vs_llvm", len(sh["cases"]))
            for i, v in fails:
                m = sh["cases"][i]
                chk.violation(f"IR abstract machine and LLVM JIT disagree on an IR tree: {v}",
                              {"ir": m["ir"], "env(xi,yi,xf,yf)": m["env"], "machine_verdict": v})
        if index["shards"] and index["shards"][0]["cases"]:
            chk.sample({"kind": "expression-stream", "ir": index["shards"][0]["cases"][0]["ir"][:600], "env": index["shards"][0]["cases"][0]["env"]})
        index["differences"] = index.get("c_vs_llvm_differences", [])
        index["shards"] = index.get("rot_shards", [])
        handle_rot(chk, index, d, known, "tree")

    # (d) printer model correspondence
    try:
        mod = importlib.import_module("props._c06_printer")
    except ModuleNotFoundError:
        mod = None
    if mod is not None:
        mod.run_printer_correspondence(chk)

    # (e) tie by regeneration: type_to_c, parens, ir_to_c_expression (22 registrations), the one-line statements of
    # _ir_to_c.py are re-translated from /repo on every run and PROVED to lex (verified C lexer model/CLexer.v) to the
    # tokens of the hand model CPrint.v; the C06 printer theorems are restated on the regenerated printer
    from props._tie import run_tie
    run_tie(chk, ["cprint"])


def handle_rot(chk, index, d, known, what):
    for u in index.get("unexplained", []):
        chk.violation(f"C and LLVM back ends disagree bit-wise on a {what} that contains no re-associated sum/product",
                      {k: u.get(k) for k in ("assignment", "formats", "inputs", "ir", "env", "llvm", "c")})
    diffs = index.get("differences", [])
    chk.count(f"c_vs_llvm_differences_{what}", len(diffs))
    if not diffs:
        return
    explained = 0
    res = chk.coq_run_files([str(d / (s["name"] + ".v")) for s in index["shards"]], workers=4)
    for sh in index["shards"]:
        okr, outr = res[str(d / (sh["name"] + ".v"))]
        fails = parse_failing(outr) if okr else None
        if fails is None:
            chk.broken.append({"kind": "correspondence", "what": "re-association shard did not evaluate", "output": outr[-1500:]})
            continue
        bad = dict(fails)
        for i, m in enumerate(sh["cases"]):
            if i in bad:
                chk.violation(f"C and LLVM back ends disagree on a {what} and the difference is not the re-association of K-C06-1",
                              {k: m.get(k) for k in ("assignment", "formats", "inputs", "ir", "env", "llvm", "c")} | {"machine_on_reassociated_ir": bad[i]})
            else:
                explained += 1
    if explained:
        if "K-C06-1" in known:
            chk.known_finding("K-C06-1", f"C and LLVM results differ on {explained} {what} runs exactly as the left re-association of a right-nested +/* predicts (C printer prints x + (y + z) as x + y + z)")
        else:
            chk.violation("C and LLVM back ends disagree (right-nested sum/product printed without parentheses)", diffs[0])


def replay(chk, payload):
    print(json.dumps(payload, indent=1)[:4000])
    return 0
