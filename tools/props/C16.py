"""C16 -- work follows sparsity, not dimension size.

Theorems (props/C16.v) about the hand model of extract_context / the sparse-node decision: the
property's condition implies a sparse iteration node.  This file ties the model to the code
(Python extract_context / node decision vs model on every iteration node of the real graphs) and
observes the real evaluate kernels on the IR machine: enlarging a qualifying dimension x10, x100
(thorough: x10^4) with the same stored entries must leave the executed loop-iteration count
unchanged."""
from __future__ import annotations

import json
import re

from props._machine import run_mgen
from vlib.core import BUILD


def run(chk):
    quick = chk.tier == "quick"
    chk.rule = ("22 templates x formats (seeded sample incl. all-compressed) ; for every index meeting the condition: base sizes "
                "{3,4}, stored entries fixed, that dimension scaled; iteration counter of the IR machine compared for the evaluate kernel and (largest scale) for the history assemble;compute; distinct = "
                "(assignment, formats, index, scale, inputs)")
    chk.trusted += [
        "Coq 8.16.1 kernel; vm_compute",
        "hand model coq/model/Context.v of _extract_context.py (is_sparse) and of the node decision in _generate_ir.py, tied by correspondence on real graphs",
        "IR abstract machine spec/IRSem.v counts loop iterations (one per executed Loop body)",
        "dimension-independence of the emitted sparse loops is observed on swept kernels (exploration), not proved",
    ]
    ok = chk.regen(["IRAst.v"])
    if ok:
        chk.coq_props()
    chk.coq_make(["spec/IRRun.vo", "spec/IRRunHist.vo", "model/Context.vo"])
    cfg = {"seed": chk.seed * 13 + 5, "per_template": 6 if quick else 40, "max_problems": 140 if quick else 900,
           "scales": [10, 100] if quick else [10, 100, 10000], "per_shard": 16, "fuel": 3000000}
    index, failing = run_mgen(chk, "iters", cfg, None, script="c16_gen.py")
    if index is None:
        return
    for meta, verdict in failing:
        chk.violation(f"executed loop iterations depend on the size of a dimension that is stored only in compressed levels: {verdict}",
                      {k: meta[k] for k in ("assignment", "formats", "index", "sizes", "scale", "inputs", "shard", "case_index")}
                      | {"machine_verdict": verdict, "kernels": "evaluate" if meta.get("kind") == "iters" else "assemble; compute on one output"})
    for sh in index["shards"][:1]:
        for m in sh["cases"][:2]:
            chk.sample({k: m[k] for k in ("assignment", "formats", "index", "sizes", "scale")})
    # context correspondence
    d = BUILD / "cases" / f"c16_{chk.tier}_iters"
    res = chk.coq_run_files([str(d / "m_ctx.v")], workers=1)
    okc, outc = res[str(d / "m_ctx.v")]
    m = re.search(r"=\s*(\[.*?\])\s*:\s*list bool", outc, flags=re.S) if okc else None
    if not m:
        chk.broken.append({"kind": "correspondence", "what": "context shard did not evaluate", "output": outc[-1500:]})
    else:
        bools = [x == "true" for x in re.findall(r"true|false", m.group(1))]
        chk.count("context_nodes_compared", len(bools))
        bad = [index["context_cases"][i] for i, b in enumerate(bools) if not b]
        if bad:
            chk.broken.append({"kind": "correspondence", "what": "extract_context / sparse-node decision differs from model/Context.v", "examples": bad[:5]})


    # static certificate: the dimension of a qualifying index is read only to initialise a variable
    # that is never read, hence iteration counts are independent of it for ALL inputs
    # (CERT_dim_irrelevant, CERT_dim_irrelevant_runs)
    from props._certs import cert_props, run_certs
    cert_props(chk)
    run_certs(chk, ["dim_unread"])

    # tie to the source by regeneration: the listed definitions are re-translated from /repo by py2coq on
    # every run and PROVED equal to the hand models (coq/props/TIE.v), plus a translator self-check
    from props._tie import run_tie
    run_tie(chk, ['context'])


def replay(chk, payload):
    print(json.dumps(payload, indent=1)[:4000])
    return 0
