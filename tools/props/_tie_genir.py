"""TIE entry for the regenerated loop generator (auto-discovered by props/_tie.py).

    run_tie(chk, ["genir"])      # suggested: C04 and C05 (quantifier over programs), C02/C03 (shape of the kernels)
"""
TIE_EXTRA = {
    "genir": {
        "gen": ["IRAst.v", "Names.v", "ExhaustAst.v", "Exhaust.v", "Deparse.v", "Desugar.v", "IterGraphs.v", "Peephole.v",
                "GlueGen.v", "AppendGen.v", "GenerateIR.v"],
        "vo": "proofs/GenGenIR_equiv.vo",
        "theorems": ["gen_compute_cert", "gen_compute_cert_fuel", "gen_compute_cert_pres", "gen_family_compute_fragments",
                     "gen_dense_assemble_emits_nothing", "gen_assemble_aligned", "gen_compute_aligned", "gen_assemble_aligned0", "gen_compute_aligned0", "gen_atoms_wf", "sub_align0", "gen_input_safe_unrestricted_fails", "gen_input_safe_needs_output_first", "gen_input_safe_needs_distinct_names", "gen_library_graphs_outputs", "wi_crd_assembly", "wi_pos_allocation", "wi_pos_assembly", "wi_bucket_declarations", "wi_bucket_assignment", "wi_next_output", "wi_write_assignment", "gi_sparse_init", "exhaust_ok", "wi_generate_subgraphs", "family_safe", "wi_declarations", "wi_cleanup", "gen_safe_T", "gen_safe_names_ok", "gen_inputs_untouched", "names_ok_ordinary", "names_ok_k_c08_3", "names_ok_struct", "gen_inputs_untouched_library", "fuel_stable", "family_mono", "generate_ir_fuel_mono", "fuel_example", "names_ok_tainted_dim", "hygienic_ordinary", "hygienic_k_c08_3", "family_EA", "family_EC", "iteration_comment", "gen_sorted_desc_perm", "gen_sorted_desc_sorted", "gen_sorted_desc_stable"],
        "source": "iteration_graph/_generate_ir.py, iteration_graph/outputs/_base.py, iteration_graph/identifiable_expression/_to_ir.py "
                  "(pinned by hash: the node classes of iteration_graph/iteration_graph.py, Context, StableFrozenSet, ir/_builder.py)",
        "model": "no hand model: theorems about the regenerated generator itself (compute_cert of proofs/Certs.v for every graph; assemble / compute = evaluate with statements dropped, for every graph)",
    },
}
