"""C11 -- Tensor operators agree with element-wise and matrix arithmetic.

Three things happen on every run:

1. the theorems of coq/props/C11.v are built (the operator layer's request synthesis, modelled in
   coq/model/Operators.v, denotes element-wise / matrix arithmetic, passes every check that stands
   between it and the kernel, follows the documented format rule, and raises the shape error iff
   the dimensions disagree);
2. CORRESPONDENCE: the real operators are run (tools/harness/c11_run.py, evaluate_tensora wrapped)
   and the request each one makes -- assignment string and tree, output format string and parsed
   format, what each keyword is bound to, or the error raised before any request -- is compared
   with the model's (`obs_agrees`, evaluated by coqc);
3. SEARCHER / ORACLE (always run): the property itself is tested on the implementation: the result
   is decoded from its RAW arrays by the independent decoder below and compared with arithmetic
   done directly in Python on the operands' decoded contents, plus dimensions, plus the format rule
   for naturally ordered operands; errors must be exactly the documented ones.

A disagreement in (2) alone is a broken correspondence (chk.broken); a failure of (3) is a
concrete VIOLATION with the operands as replay.
"""

from __future__ import annotations

import itertools
import json
import re
from concurrent.futures import ThreadPoolExecutor
from fractions import Fraction

from vlib.core import VERIF, Check, coq_term_str

CORPUS = VERIF / "corpus" / "C11"

# ------------------------------------------------------------------------------------ formats


def all_formats(n: int) -> list[tuple[tuple[str, ...], tuple[int, ...]]]:
    return [
        (modes, perm)
        for modes in itertools.product("ds", repeat=n)
        for perm in itertools.permutations(range(n))
    ]


def fmt_str(fmt) -> str:
    modes, ordering = fmt
    if tuple(ordering) == tuple(range(len(modes))):
        return "".join(modes)
    return "".join(m + str(o) for m, o in zip(modes, ordering))


def is_natural(ordering) -> bool:
    return list(ordering) == list(range(len(ordering)))


# ------------------------------------------------------------------------------------ decoder
# Independent reading of the taco structure: level l stores dimension ordering[l]; a dense level
# of size n maps position p to p*n+i; a compressed level stores crd[pos[p]:pos[p+1]].


class Malformed(Exception):
    pass


def decode(raw: dict) -> dict[tuple[int, ...], float]:
    dims, modes, ordering = raw["dims"], raw["modes"], raw["ordering"]
    order = len(dims)
    if not (len(modes) == len(ordering) == order) or sorted(ordering) != list(range(order)):
        raise Malformed(f"format does not match order: {modes} {ordering} {dims}")
    vals = [float.fromhex(v) for v in raw["vals"]]
    out: dict[tuple[int, ...], float] = {}

    def walk(level: int, position: int, coordinate: list[int]):
        if level == order:
            if not (0 <= position < len(vals)):
                raise Malformed(f"value position {position} outside vals[{len(vals)}]")
            key = tuple(coordinate)
            out[key] = out.get(key, 0.0) + vals[position]
            return
        dim = dims[ordering[level]]
        if modes[level] == "d":
            for i in range(dim):
                coordinate[ordering[level]] = i
                walk(level + 1, position * dim + i, coordinate)
        elif modes[level] == "s":
            pos, crd = raw["indices"][level]
            if position + 1 >= len(pos):
                raise Malformed(f"pos of level {level} too short")
            for q in range(pos[position], pos[position + 1]):
                if not (0 <= q < len(crd)) or not (0 <= crd[q] < dim):
                    raise Malformed(f"crd of level {level} out of range")
                coordinate[ordering[level]] = crd[q]
                walk(level + 1, q, coordinate)
        else:
            raise Malformed(f"mode {modes[level]}")

    walk(0, 0, [0] * order)
    return out


# ------------------------------------------------------------------------------------ oracle


def scalar_value(o) -> float:
    t = o["pytype"]
    if t == "fraction":
        return float(Fraction(o["value"][0], o["value"][1]))
    if t == "bool":
        return float(bool(o["value"]))
    if t == "int":
        return float(int(o["value"]))
    return float(o["value"])


def arith(op: str, x: float, y: float) -> float:
    return x + y if op == "+" else x - y if op == "-" else x * y


def expectation(case, res) -> dict:
    """What the property allows for this case, from the operands' decoded raw contents."""
    op, lo, ro = case["op"], case["left"], case["right"]
    lk, rk = lo["kind"], ro["kind"]
    if lk == "other" or rk == "other" or (lk != "tensor" and rk != "tensor"):
        return {"kind": "type"}
    lt = decode(res["left_raw"]) if lk == "tensor" else None
    rt = decode(res["right_raw"]) if rk == "tensor" else None
    ldims = res["left_raw"]["dims"] if lk == "tensor" else None
    rdims = res["right_raw"]["dims"] if rk == "tensor" else None
    lnat = is_natural(res["left_raw"]["ordering"]) if lk == "tensor" else True
    rnat = is_natural(res["right_raw"]["ordering"]) if rk == "tensor" else True
    lmodes = res["left_raw"]["modes"] if lk == "tensor" else None
    rmodes = res["right_raw"]["modes"] if rk == "tensor" else None
    if op in "+-*":
        if lk == "tensor" and rk == "tensor":
            if ldims != rdims:
                return {"kind": "shape"}
            dims = ldims
        else:
            dims = ldims if lk == "tensor" else rdims
        ls = scalar_value(lo) if lk == "scalar" else None
        rs = scalar_value(ro) if rk == "scalar" else None
        value = {}
        for c in itertools.product(*[range(d) for d in dims]):
            x = lt.get(c, 0.0) if lt is not None else ls
            y = rt.get(c, 0.0) if rt is not None else rs
            value[c] = arith(op, x, y)
        fmt = None
        if lnat and rnat:
            lm = lmodes if lmodes is not None else ["d"] * len(dims)
            rm = rmodes if rmodes is not None else ["d"] * len(dims)
            if op == "*":
                fmt = ["d" if a == "d" and b == "d" else "s" for a, b in zip(lm, rm)]
            else:
                fmt = ["d" if a == "d" or b == "d" else "s" for a, b in zip(lm, rm)]
        return {"kind": "value", "dims": dims, "value": value, "modes": fmt}
    # matrix multiplication
    if lk != "tensor" or rk != "tensor":
        return {"kind": "type"}
    nl, nr = len(ldims), len(rdims)
    if (nl, nr) == (1, 1):
        if ldims != rdims:
            return {"kind": "shape"}
        dims = []
        value = {(): sum((lt.get((j,), 0.0) * rt.get((j,), 0.0) for j in range(ldims[0])), 0.0)}
        fmt = []
    elif (nl, nr) == (2, 1):
        if ldims[1] != rdims[0]:
            return {"kind": "shape"}
        dims = [ldims[0]]
        value = {
            (i,): sum((lt.get((i, j), 0.0) * rt.get((j,), 0.0) for j in range(ldims[1])), 0.0)
            for i in range(ldims[0])
        }
        fmt = [lmodes[0]]
    elif (nl, nr) == (1, 2):
        if ldims[0] != rdims[0]:
            return {"kind": "shape"}
        dims = [rdims[1]]
        value = {
            (k,): sum((lt.get((j,), 0.0) * rt.get((j, k), 0.0) for j in range(ldims[0])), 0.0)
            for k in range(rdims[1])
        }
        fmt = [rmodes[1]]
    elif (nl, nr) == (2, 2):
        if ldims[1] != rdims[0]:
            return {"kind": "shape"}
        dims = [ldims[0], rdims[1]]
        value = {
            (i, k): sum((lt.get((i, j), 0.0) * rt.get((j, k), 0.0) for j in range(ldims[1])), 0.0)
            for i in range(ldims[0])
            for k in range(rdims[1])
        }
        fmt = [lmodes[0], rmodes[1]]
    else:
        return {"kind": "matmul-order"}
    return {"kind": "value", "dims": dims, "value": value, "modes": fmt if (lnat and rnat) else None}


OPERATOR_FUNCTIONS = ("evaluate_binary_operator", "evaluate_matrix_multiplication_operator")


def classify_outcome(case, res) -> str:
    o = res["outcome"]
    if o["kind"] == "tensor":
        return "tensor"
    if o["kind"] == "nontensor":
        return "nontensor"
    cls, site, msg = o["class"], o["site"], o["message"]
    no_call = len(res["calls"]) == 0
    if cls == "ValueError" and site[0] == "tensor.py" and site[1] in OPERATOR_FUNCTIONS and no_call:
        if msg.startswith(f"Cannot apply operator {case['op']} between tensor with dimensions"):
            return "shape"
        if msg.startswith("Matrix multiply is only defined between tensors of orders 1 and 2"):
            return "matmul-order"
    if cls == "TypeError" and site[0] == "<outside tensora>" and no_call:
        return "type"
    if cls == "NoKernelFoundError" and o["module"].startswith("tensora."):
        return "no-kernel"
    if (
        cls == "NotImplementedError"
        and site[0] == "iteration_graph/outputs/_append.py"
        and site[1] == "next_output"
        and msg.startswith("Encountered a sparse output layer")
    ):
        return "K-C08-1"
    return "other:" + cls + "@" + site[0] + ":" + site[1]


def key_str(c) -> str:
    return ",".join(str(i) for i in c)


def oracle(case, res) -> tuple[str, list[str], dict]:
    """Returns (outcome class, property failures, details for the replay)."""
    if "harness_error" in res:
        return "harness", ["harness could not run the case: " + res["harness_error"]], {}
    try:
        exp = expectation(case, res)
    except Malformed as e:
        return "harness", [f"operand read back from raw arrays is malformed: {e}"], {}
    got = classify_outcome(case, res)
    problems: list[str] = []
    detail: dict = {"expected": exp["kind"], "outcome": got}
    for side in ("left", "right"):
        if side + "_raw" in res and res[side + "_raw"] != res.get(side + "_raw_after"):
            problems.append(f"the {side} operand was modified by the operator")
    if exp["kind"] == "value":
        if got == "tensor":
            raw = res["outcome"]["raw"]
            try:
                actual = decode(raw)
            except (Malformed, IndexError, TypeError) as e:
                problems.append(f"result is not a readable stored tensor: {e}")
                actual = None
            if raw["dims"] != exp["dims"]:
                problems.append(f"result dimensions {raw['dims']} expected {exp['dims']}")
            elif actual is not None:
                wrong = {}
                for c, v in exp["value"].items():
                    a = actual.get(c, 0.0)
                    if not (a == v):
                        wrong[key_str(c)] = {"expected": v, "actual": a}
                for c, a in actual.items():
                    if c not in exp["value"] and a != 0.0:
                        wrong[key_str(c)] = {"expected": "outside the dimensions", "actual": a}
                if wrong:
                    problems.append(f"wrong value at {len(wrong)} coordinate(s)")
                    detail["wrong"] = dict(list(sorted(wrong.items()))[:8])
            if exp["modes"] is not None:
                if raw["modes"] != exp["modes"] or not is_natural(raw["ordering"]):
                    problems.append(
                        f"result format {''.join(raw['modes'])}/{raw['ordering']} but the documented "
                        f"rule gives {''.join(exp['modes'])} in natural order"
                    )
            detail["actual_raw"] = raw
        elif got in ("no-kernel", "K-C08-1"):
            pass  # documented refusal / the known internal refusal of the kernel generator (C08)
        else:
            problems.append(f"expected a tensor or a refusal, got {got}: {res['outcome'].get('message', '')}")
    else:
        if got != exp["kind"]:
            what = res["outcome"].get("message", "") if res["outcome"]["kind"] == "error" else got
            problems.append(f"expected the documented {exp['kind']} error, got {got}: {what}")
    return got, problems, detail


# ------------------------------------------------------------------------------------ Coq terms


def coq_list(items, scope="") -> str:
    return "[" + "; ".join(items) + "]" + scope


def coq_operand_from(case_operand, raw) -> str:
    if case_operand["kind"] == "tensor":
        dims = coq_list([f"({d})" for d in raw["dims"]], "%Z")
        modes = coq_list(["MDense" if m == "d" else "MCompressed" for m in raw["modes"]])
        ordering = coq_list([str(o) for o in raw["ordering"]], "%nat")
        return f"(OTensor {dims} {modes} {ordering})"
    if case_operand["kind"] == "scalar":
        return "OScalar"
    return "OOther"


class NotRepresentable(Exception):
    pass


def coq_strs(l) -> str:
    return coq_list([coq_term_str(s) for s in l])


def coq_expr(e) -> str:
    tag = e[0]
    if tag == "int":
        return f"(EInteger ({int(e[1])})%Z)"
    if tag == "tensor":
        return f"(ETensor {coq_term_str(e[1])} {coq_strs(e[2])})"
    if tag in ("add", "sub", "mul"):
        ctor = {"add": "EAdd", "sub": "ESub", "mul": "EMul"}[tag]
        return f"({ctor} {coq_expr(e[1])} {coq_expr(e[2])})"
    raise NotRepresentable(str(e))


def coq_format(f) -> str:
    modes = coq_list(["MDense" if m == "d" else "MCompressed" for m in f["modes"]])
    return f"(mkFormat {modes} {coq_list([str(o) for o in f['ordering']], '%nat')})"


def scalar_side(case, binding_raw) -> str | None:
    """A fresh tensor bound to a keyword: which Python number is it the conversion of?"""
    if binding_raw["dims"] != [] or binding_raw["modes"] != [] or len(binding_raw["vals"]) != 1:
        return None
    v = float.fromhex(binding_raw["vals"][0])
    for side, ctor in (("left", "SLeft"), ("right", "SRight")):
        o = case[side]
        if o["kind"] == "scalar" and scalar_value(o) == v:
            return ctor
    return None


def coq_observed(case, res) -> tuple:
    """The observation as a term of type [observed]; raises NotRepresentable when the model's
    vocabulary cannot express it (that is a disagreement by itself)."""
    calls = res["calls"]
    got = classify_outcome(case, res)
    if len(calls) == 0:
        err = {"shape": "EShape", "matmul-order": "EMatmulOrder", "type": "ENotImplemented"}.get(got)
        if err is None:
            raise NotRepresentable(f"no request and outcome {got}")
        return ("err", err)
    if len(calls) > 1:
        raise NotRepresentable("more than one call of evaluate_tensora")
    call = calls[0]
    if "ast" not in call or "format" not in call:
        raise NotRepresentable("the request does not parse: " + json.dumps(call)[:200])
    binds = []
    for name, b in call["bindings"]:
        if b["is"] == "left":
            binds.append(f"({coq_term_str(name)}, BOperand SLeft)")
        elif b["is"] == "right":
            binds.append(f"({coq_term_str(name)}, BOperand SRight)")
        elif b["is"] == "fresh":
            side = scalar_side(case, b["raw"])
            if side is None:
                raise NotRepresentable("keyword bound to a tensor that is neither operand")
            binds.append(f"({coq_term_str(name)}, BScalarTensor {side})")
        else:
            raise NotRepresentable("keyword bound to a non-tensor")
    a = call["ast"]
    assignment = f"(mkAssignment {coq_term_str(a['target'][0])} {coq_strs(a['target'][1])} {coq_expr(a['rhs'])})"
    if got == "tensor":
        dims = "(Some " + coq_list([f"({d})" for d in res["outcome"]["raw"]["dims"]], "%Z") + ")"
        out_format = "(Some " + coq_format(res["outcome"]["raw"]) + ")"
    elif got in ("no-kernel", "K-C08-1"):
        dims = "None"
        out_format = "None"
    else:
        raise NotRepresentable(f"request made but outcome {got}")
    # components, assembled (and interned) per shard by coq_shard_text
    return ("req", assignment, coq_term_str(call["assignment"]), coq_format(call["format"]),
            coq_term_str(call["output_format"]), coq_list(binds), dims, out_format)


PYOP = {"+": "PyAdd", "-": "PySub", "*": "PyMul", "@": "PyMatmul"}

COQ_HEADER = (
    "From Coq Require Import ZArith String List.\nImport ListNotations.\n"
    "From TV Require Import spec.Storage model.Operators.\n"
)


def coq_case(case, res) -> tuple:
    l = coq_operand_from(case["left"], res.get("left_raw"))
    r = coq_operand_from(case["right"], res.get("right_raw"))
    return (PYOP[case["op"]], l, r, coq_observed(case, res))


def coq_shard_text(rows: list[tuple[int, tuple[str, str, str, str]]]) -> str:
    """rows: (representative id, (pyop, left, right, observed)).  Operand and observation terms are
    interned as top-level definitions (string literals are expensive for coqc to elaborate)."""
    names: dict[str, str] = {}
    defs: list[str] = []

    def intern(term: str, ty: str) -> str:
        if term not in names:
            names[term] = f"t{len(names)}"
            defs.append(f"Definition {names[term]} : {ty} := {term}.")
        return names[term]

    def observed(o: tuple) -> str:
        if o[0] == "err":
            return f"(ObsError {o[1]})"
        _, assignment, astr, fmt, fstr, binds, dims, out_format = o
        return (f"(ObsRequest {intern(assignment, 'assignment')} {intern(astr, 'string')} "
                f"{intern(fmt, 'format')} {intern(fstr, 'string')} "
                f"{intern(binds, 'list (string * binding)')} {dims} {out_format})")

    body = []
    for i, (p, l, r, o) in rows:
        body.append(f"({i}%nat, {p}, {intern(l, 'operand')}, {intern(r, 'operand')}, {observed(o)})")
    return (
        COQ_HEADER
        + "\n".join(defs)
        + "\nDefinition cases : list (nat * pyop * operand * operand * observed) :=\n  ["
        + ";\n  ".join(body)
        + "].\n"
        "Eval vm_compute in (map (fun c => match c with (i, _, _, _, _) => i end)\n"
        "  (filter (fun c => match c with (_, p, l, r, o) => negb (obs_agrees p l r o) end) cases)).\n"
    )


def parse_failing(out: str) -> list[int] | None:
    m = re.search(r"=\s*(.*?)\s*:\s*list nat", out, flags=re.S)
    if not m:
        return None
    return [int(x) for x in re.findall(r"\d+", m.group(1))]


# ------------------------------------------------------------------------------------ generation

VALUES = [1.0, 2.0, 3.0, -1.0, -2.0, 4.0, 0.5, 2.5, 0.0]


def cells(dims):
    return list(itertools.product(*[range(d) for d in dims]))


def pattern(rng, dims, kind):
    cs = cells(dims)
    if kind == "empty" or not cs:
        return []
    if kind == "full":
        return [[list(c), float(rng.choice(VALUES[:8]))] for c in cs]
    if kind == "one":
        return [[list(rng.choice(cs)), float(rng.choice(VALUES[:8]))]]
    # random subset, explicit zeros allowed
    p = rng.choice([0.3, 0.5, 0.7])
    return [[list(c), float(rng.choice(VALUES))] for c in cs if rng.random() < p]


def tensor(rng, dims, fmt, kind=None):
    kind = kind or rng.choice(["random", "random", "random", "full", "empty", "one"])
    return {"kind": "tensor", "dims": list(dims), "format": fmt_str(fmt), "entries": pattern(rng, dims, kind)}


SCALARS = [
    {"kind": "scalar", "pytype": "int", "value": 3},
    {"kind": "scalar", "pytype": "int", "value": 0},
    {"kind": "scalar", "pytype": "int", "value": -2},
    {"kind": "scalar", "pytype": "float", "value": 2.5},
    {"kind": "scalar", "pytype": "float", "value": -0.5},
    {"kind": "scalar", "pytype": "float", "value": 0.0},
    {"kind": "scalar", "pytype": "bool", "value": True},
    {"kind": "scalar", "pytype": "fraction", "value": [3, 2]},
]
OTHERS = [{"kind": "other", "what": w} for w in ("str", "list", "none", "complex", "tuple", "dict")]


def dims_choices(rng, n, k):
    """k dimension tuples of order n from {0,1,2,3}: the first without a degenerate size."""
    out = [tuple(rng.choice([2, 3]) for _ in range(n))]
    while len(out) < k:
        out.append(tuple(rng.choice([0, 1, 2, 3, 2, 3]) for _ in range(n)))
    return out


def generate(chk: Check) -> list[dict]:
    rng = chk.rng
    thorough = chk.tier == "thorough"
    cases: list[dict] = []

    def add(op, left, right, group):
        cases.append({"id": len(cases), "op": op, "left": left, "right": right, "group": group})

    fmts = {n: all_formats(n) for n in range(4)}

    # (A) tensor <op> tensor, equal dimensions
    k_inputs = 8 if thorough else 3
    for n in (0, 1, 2):
        for fa in fmts[n]:
            for fb in fmts[n]:
                for dims in dims_choices(rng, n, k_inputs):
                    a, b = tensor(rng, dims, fa), tensor(rng, dims, fb)
                    for op in "+-*":
                        add(op, a, b, "pointwise")
    pairs3 = [(fa, fb) for fa in fmts[3] for fb in fmts[3]]
    natural3 = [(fa, fb) for fa, fb in pairs3 if is_natural(fa[1]) and is_natural(fb[1])]
    if thorough:
        chosen = [(p, 2) for p in pairs3] + [(p, 3) for p in natural3] + [(p, 2) for p in rng.sample(pairs3, 400)]
    else:
        chosen = [(p, 1) for p in rng.sample(natural3, 24)] + [(p, 1) for p in rng.sample(pairs3, 72)]
    for (fa, fb), k in chosen:
        for dims in dims_choices(rng, 3, k):
            a, b = tensor(rng, dims, fa), tensor(rng, dims, fb)
            for op in "+-*":
                add(op, a, b, "pointwise3")

    # (A') exhaustive sparsity patterns on vectors (every subset of cells on both sides)
    for dim in ((1, 2, 3) if thorough else (2,)):
        subsets = [s for r in range(dim + 1) for s in itertools.combinations(range(dim), r)]
        for fa in fmts[1]:
            for fb in fmts[1]:
                for sa in subsets:
                    for sb in subsets:
                        a = {"kind": "tensor", "dims": [dim], "format": fmt_str(fa),
                             "entries": [[[i], float(i + 1)] for i in sa]}
                        b = {"kind": "tensor", "dims": [dim], "format": fmt_str(fb),
                             "entries": [[[i], float(10 * (i + 1))] for i in sb]}
                        for op in "+-*":
                            add(op, a, b, "patterns")
    if thorough:
        subsets = [s for r in range(5) for s in itertools.combinations(cells((2, 2)), r)]
        for fa, fb in rng.sample([(x, y) for x in fmts[2] for y in fmts[2]], 12):
            for sa in subsets:
                sb = rng.choice(subsets)
                a = {"kind": "tensor", "dims": [2, 2], "format": fmt_str(fa),
                     "entries": [[list(c), float(1 + 2 * c[0] + c[1])] for c in sa]}
                b = {"kind": "tensor", "dims": [2, 2], "format": fmt_str(fb),
                     "entries": [[list(c), float(10 * (1 + 2 * c[0] + c[1]))] for c in sb]}
                add(rng.choice("+-*"), a, b, "patterns")

    # (B) tensor <op> number and number <op> tensor
    fmts_b = fmts[0] + fmts[1] + fmts[2] + (fmts[3] if thorough else rng.sample(fmts[3], 10))
    for f in fmts_b:
        n = len(f[0])
        for dims in dims_choices(rng, n, 3 if thorough else 2):
            t = tensor(rng, dims, f)
            for s in rng.sample(SCALARS, 3 if thorough else 2):
                for op in "+-*":
                    add(op, t, s, "scalar-right")
                    add(op, s, t, "scalar-left")
    for f in rng.sample(fmts[1] + fmts[2], 4):
        t = tensor(rng, dims_choices(rng, len(f[0]), 1)[0], f)
        for s in rng.sample(SCALARS, 2):
            add("@", t, s, "scalar-matmul")
            add("@", s, t, "scalar-matmul")

    # (C) matrix multiplication, the four shapes, all format pairs
    k_mm = 12 if thorough else 3
    for na, nb in ((1, 1), (2, 1), (1, 2), (2, 2)):
        for fa in fmts[na]:
            for fb in fmts[nb]:
                for k in range(k_mm):
                    small = [0, 1, 2, 3, 2, 3] if k else [2, 3]
                    i, j, kk = (rng.choice(small) for _ in range(3))
                    da = (j,) if na == 1 else (i, j)
                    db = (j,) if nb == 1 else (j, kk)
                    add("@", tensor(rng, da, fa), tensor(rng, db, fb), "matmul")

    # (D) shape errors
    def differing(n):
        base = [rng.choice([1, 2, 3]) for _ in range(n)]
        other = list(base)
        where = rng.randrange(n)
        other[where] = rng.choice([d for d in (0, 1, 2, 3, 4) if d != base[where]])
        return base, other

    n_shape = 60 if thorough else 20
    for n in (1, 2, 3):
        for _ in range(n_shape):
            fa, fb = rng.choice(fmts[n]), rng.choice(fmts[n])
            da, db = differing(n)
            add(rng.choice("+-*"), tensor(rng, da, fa), tensor(rng, db, fb), "shape")
        # only the LAST dimension differs; only the first differs
        for where in (n - 1, 0):
            fa, fb = rng.choice(fmts[n]), rng.choice(fmts[n])
            da = [2] * n
            db = list(da)
            db[where] = 3
            for op in "+-*":
                add(op, tensor(rng, da, fa), tensor(rng, db, fb), "shape")
    for na, nb in ((0, 1), (1, 0), (1, 2), (2, 1), (2, 3), (3, 2), (0, 2)):
        for _ in range(4 if thorough else 2):
            fa, fb = rng.choice(fmts[na]), rng.choice(fmts[nb])
            da = [2] * na
            db = [2] * nb          # one dimension tuple is a prefix of the other
            add(rng.choice("+-*"), tensor(rng, da, fa), tensor(rng, db, fb), "shape-order")
    for na, nb in ((1, 1), (2, 1), (1, 2), (2, 2)):
        for _ in range(20 if thorough else 8):
            fa, fb = rng.choice(fmts[na]), rng.choice(fmts[nb])
            j = rng.choice([1, 2, 3])
            j2 = rng.choice([d for d in (0, 1, 2, 3, 4) if d != j])
            i, kk = rng.choice([1, 2, 3]), rng.choice([1, 2, 3])
            da = (j,) if na == 1 else (i, j)
            db = (j2,) if nb == 1 else (j2, kk)
            add("@", tensor(rng, da, fa), tensor(rng, db, fb), "matmul-shape")
        # inner dimensions agree, outer ones differ: NOT an error
        fa, fb = rng.choice(fmts[na]), rng.choice(fmts[nb])
        da = (2,) if na == 1 else (3, 2)
        db = (2,) if nb == 1 else (2, 1)
        add("@", tensor(rng, da, fa), tensor(rng, db, fb), "matmul")
    for na, nb in ((0, 0), (0, 1), (1, 0), (0, 2), (2, 0), (3, 1), (1, 3), (3, 2), (2, 3), (3, 3)):
        for _ in range(3 if thorough else 1):
            fa, fb = rng.choice(fmts[na]), rng.choice(fmts[nb])
            add("@", tensor(rng, [2] * na, fa), tensor(rng, [2] * nb, fb), "matmul-order")

    # (E) unsupported operand types
    for f in rng.sample(fmts[0] + fmts[1] + fmts[2], 6 if thorough else 3):
        t = tensor(rng, [2] * len(f[0]), f)
        for o in OTHERS:
            for op in "+-*@":
                add(op, t, o, "other")
                add(op, o, t, "other")
    return cases


# ------------------------------------------------------------------------------------ running


def run_harness(chk: Check, cases: list[dict], workers: int = 6) -> dict[int, dict]:
    """Run the cases in several subprocesses; cases making the same request stay together so that
    each process compiles a kernel once."""
    def request_key(c):
        return (c["op"], c["left"].get("format", c["left"]["kind"]), c["right"].get("format", c["right"]["kind"]))

    ordered = sorted(cases, key=lambda c: (request_key(c), c["id"]))
    n_chunks = max(1, min(workers * 3, len(ordered) // 40 + 1))
    size = (len(ordered) + n_chunks - 1) // n_chunks
    chunks = [ordered[i : i + size] for i in range(0, len(ordered), size)]
    results: dict[int, dict] = {}

    def one(chunk):
        payload = json.dumps({"cases": [{k: c[k] for k in ("id", "op", "left", "right")} for c in chunk]})
        rc, out, err = chk.impl("c11_run.py", [], input=payload, timeout=1500)
        if rc != 0:
            return [{"id": c["id"], "harness_error": f"harness exit {rc}: {err[-300:]}"} for c in chunk]
        try:
            return json.loads(out)["results"]
        except Exception as e:  # noqa: BLE001
            return [{"id": c["id"], "harness_error": f"unreadable harness output: {e}"} for c in chunk]

    with ThreadPoolExecutor(max_workers=workers) as ex:
        for rs in ex.map(one, chunks):
            for r in rs:
                results[r["id"]] = r
    return results


def correspondence(chk: Check, cases: list[dict], results: dict[int, dict]) -> list[dict]:
    """Compare observed requests with the model (coqc); returns the disagreeing cases."""
    terms, unrepresentable = [], []
    for c in cases:
        r = results[c["id"]]
        if "harness_error" in r:
            continue
        try:
            terms.append((c["id"], coq_case(c, r)))
        except (NotRepresentable, Malformed, KeyError) as e:
            unrepresentable.append({"id": c["id"], "why": f"observation outside the model's vocabulary: {e}"})
    # identical (operator, operand descriptions, observation) need to be evaluated once
    groups: dict[tuple, list[int]] = {}
    for i, t in terms:
        groups.setdefault(t, []).append(i)
    rows = [(ids[0], t) for t, ids in groups.items()]
    members = {ids[0]: ids for ids in groups.values()}
    shards = [rows[i : i + 500] for i in range(0, len(rows), 500)]
    chk.count("correspondence_distinct_terms", len(rows))

    def one(ix_shard):
        ix, shard = ix_shard
        ok, out = chk.coq_eval(f"c11_shard{ix}", coq_shard_text(shard), timeout=600)
        if not ok and "inconsistent assumptions" in out:
            # a shared library was recompiled by somebody else between our build and this
            # evaluation: rebuild our model against it and try once more
            chk.coq_make(["model/Operators.vo"], timeout=600)
            ok, out = chk.coq_eval(f"c11_shard{ix}", coq_shard_text(shard), timeout=600)
        failing = parse_failing(out) if ok else None
        return ix, ok, out, failing

    bad = list(unrepresentable)
    with ThreadPoolExecutor(max_workers=6) as ex:
        for ix, ok, out, failing in ex.map(one, enumerate(shards)):
            if failing is None:
                chk.broken.append({"kind": "correspondence", "what": f"coqc failed on shard {ix}",
                                   "coq_output_tail": out[-1500:]})
                continue
            for rep in failing:
                for i in members.get(rep, [rep]):
                    bad.append({"id": i, "why": "request differs from the model's"})
    bad.sort(key=lambda b: b["id"])
    return bad


def model_answer(chk: Check, case, res) -> str:
    try:
        l = coq_operand_from(case["left"], res.get("left_raw"))
        r = coq_operand_from(case["right"], res.get("right_raw"))
    except Exception:  # noqa: BLE001
        return "n/a"
    text = COQ_HEADER + f"Eval vm_compute in (show_result ({PYOP[case['op']]}) {l} {r}).\n"
    ok, out = chk.coq_eval(f"c11_answer{case['id']}", text, timeout=120)
    return " ".join(out.split())[:900]


# ------------------------------------------------------------------------------------ request_checks
# Second correspondence: the model's transcription of the checks between a request and the kernel
# (Assignment.__post_init__, parse_format, make_problem, broadcast check, Signature.bind, index
# sizes) against the real evaluate_tensora on hand-made, also malformed, requests.

def T(name, *idx):
    return ("t", name, list(idx))


def tree_str(e, parent=None, right=False) -> str:
    if e[0] == "t":
        return f"{e[1]}({','.join(e[2])})"
    if e[0] == "i":
        return str(e[1])
    op, l, r = e
    ls = tree_str(l)
    rs = tree_str(r)
    if op == "*":
        if l[0] in "+-":
            ls = f"({ls})"
        if r[0] in "+-*":
            rs = f"({rs})"
    else:
        if r[0] in "+-":
            rs = f"({rs})"
    return f"{ls} {op} {rs}"


def tree_coq(e) -> str:
    if e[0] == "t":
        return f"(ETensor {coq_term_str(e[1])} {coq_strs(e[2])})"
    if e[0] == "i":
        return f"(EInteger ({e[1]})%Z)"
    ctor = {"+": "EAdd", "-": "ESub", "*": "EMul"}[e[0]]
    return f"({ctor} {tree_coq(e[1])} {tree_coq(e[2])})"


L2, R2 = T("left", "i", "j"), T("right", "i", "j")
LR = [["left", "left"], ["right", "right"]]
NAT2 = (("d", "d"), (0, 1))

# (label, target, rhs, output format, bindings)
CHECK_TEMPLATES = [
    ("good", T("output", "i", "j"), ("+", L2, R2), NAT2, LR),
    ("good-sparse-out", T("output", "i", "j"), ("*", L2, R2), (("d", "s"), (0, 1)), LR),
    ("good-permuted-out", T("output", "i", "j"), ("-", L2, R2), (("d", "d"), (1, 0)), LR),
    ("mutating", T("left", "i", "j"), ("+", L2, R2), NAT2, LR),
    ("mutating-right", T("right", "i", "j"), ("*", L2, R2), NAT2, LR),
    ("name-conflict", T("output", "left", "j"), ("+", T("left", "left", "j"), T("right", "left", "j")), NAT2, LR),
    ("name-conflict-target", T("output", "output", "j"), ("+", T("left", "output", "j"), T("right", "output", "j")), NAT2, LR),
    ("inconsistent", T("output", "i", "j"), ("+", L2, ("*", T("left", "i"), R2)), NAT2, LR),
    ("incorrect-order", T("output", "i"), ("+", T("left", "i"), T("right", "i")), (("d",), (0,)), LR),
    ("incorrect-order-one", T("output", "i", "j"), ("+", L2, T("right", "i")), NAT2, LR),
    ("output-format-order", T("output", "i", "j"), ("+", L2, R2), (("d",), (0,)), LR),
    ("invalid-ordering", T("output", "i", "j"), ("+", L2, R2), (("d", "d"), (1, 1)), LR),
    ("invalid-ordering-range", T("output", "i", "j"), ("+", L2, R2), (("d", "d"), (0, 2)), LR),
    ("broadcast", T("output", "i", "j", "k"), ("+", L2, R2), (("d", "d", "d"), (0, 1, 2)), LR),
    ("transposed", T("output", "i", "j"), ("+", L2, T("right", "j", "i")), NAT2, LR),
    ("unused-format", T("output", "i", "j"), ("+", L2, L2), NAT2, LR),
    ("missing-binding", T("output", "i", "j"), ("+", L2, R2), NAT2, [["left", "left"]]),
    ("renamed-binding", T("output", "i", "j"), ("+", L2, T("other", "i", "j")), NAT2, LR),
    ("scalar", T("output", "i", "j"), ("*", L2, T("right")), NAT2, [["left", "left"], ["right", "scalar"]]),
    ("scalar-left", T("output", "i", "j"), ("-", T("left"), R2), NAT2, [["left", "scalar"], ["right", "right"]]),
    ("scalar-order", T("output", "i", "j"), ("*", L2, T("right", "i")), NAT2, [["left", "left"], ["right", "scalar"]]),
    ("contract", T("output", "i"), ("*", L2, R2), (("d",), (0,)), LR),
    ("contract-all", T("output"), ("*", L2, R2), ((), ()), LR),
    ("matmul", T("output", "i", "k"), ("*", L2, T("right", "j", "k")), NAT2, LR),
    ("literal", T("output", "i", "j"), ("+", ("*", L2, ("i", 2)), R2), NAT2, LR),
    ("repeat", T("output", "i", "j"), ("+", L2, ("*", R2, L2)), NAT2, LR),
    ("swap", T("output", "j", "i"), ("+", L2, R2), NAT2, LR),
    ("mutating+broadcast", T("left", "i", "j", "k"), ("+", L2, R2), (("d", "d", "d"), (0, 1, 2)), LR),
    ("conflict+format", T("output", "right", "j"), ("+", T("left", "right", "j"), R2), (("d",), (0,)), LR),
]
CHECK_DIMS = [([2, 3], [2, 3]), ([2, 2], [2, 2]), ([2, 3], [3, 2]), ([3, 3], [3, 2]), ([0, 2], [0, 2])]

CHECK_CODE = {
    "MutatingAssignmentError": 1, "InconsistentDimensionsError": 2, "NameConflictError": 3,
    "InvalidModeOrderingError": 4, "UnusedFormatError": 5, "UndefinedReferenceError": 6,
    "IncorrectDimensionsError": 7, "BroadcastTargetIndexError": 8,
}


def observed_check_code(r) -> int | None:
    cls, msg, site = r["class"], r["message"], r["site"]
    if cls in CHECK_CODE:
        return CHECK_CODE[cls]
    if cls == "TypeError" and site[0] == "compile/_tensor_method.py" and site[1] == "__call__":
        return 9
    if cls == "ValueError" and site == ["compile/_tensor_method.py", "__call__"]:
        if msg.startswith("Argument "):
            return 10
        if "expected all these dimensions" in msg:
            return 11
    return None


def checks_correspondence(chk: Check):
    cases = []
    for label, target, rhs, fmt, bindings in CHECK_TEMPLATES:
        for dl, dr in CHECK_DIMS:
            cases.append({
                "id": len(cases), "label": label, "target": target, "rhs": rhs, "fmt": fmt,
                "assignment": f"{tree_str(target)} = {tree_str(rhs)}",
                "output_format": "".join(m + str(o) for m, o in zip(*fmt)),
                "left": {"dims": dl, "format": "dd"}, "right": {"dims": dr, "format": "dd"},
                "bindings": bindings,
            })
    payload = json.dumps({"cases": [{k: c[k] for k in ("id", "assignment", "output_format", "left", "right", "bindings")}
                                    for c in cases]})
    rc, out, err = chk.impl("c11_checks.py", [], input=payload, timeout=600)
    if rc != 0:
        chk.broken.append({"kind": "harness", "what": "c11_checks.py failed", "stderr": err[-800:]})
        return
    results = {r["id"]: r for r in json.loads(out)["results"]}
    terms = []
    for c in cases:
        r = results[c["id"]]
        if r["kind"] == "pass":
            obs = "(ObsPass " + coq_list([f"({d})" for d in r["dims"]], "%Z") + ")"
        else:
            code = observed_check_code(r)
            obs = f"(ObsFail {code if code is not None else 99}%nat)"
        binds = coq_list([
            f"({coq_term_str(n)}, " + {"left": "BOperand SLeft", "right": "BOperand SRight"}.get(w, "BScalarTensor SRight") + ")"
            for n, w in c["bindings"]])
        fmt = {"modes": list(c["fmt"][0]), "ordering": list(c["fmt"][1])}
        q = (f"(mkRequest (mkAssignment {coq_term_str(c['target'][1])} {coq_strs(c['target'][2])} {tree_coq(c['rhs'])}) "
             f"{coq_format(fmt)} {binds})")
        opd = lambda t: "(OTensor " + coq_list([f"({d})" for d in t["dims"]], "%Z") + " [MDense; MDense] [0; 1]%nat)"
        terms.append(f"({c['id']}%nat, {q}, {opd(c['left'])}, {opd(c['right'])}, {obs}, "
                     f"{coq_term_str(c['assignment'])})")
    text = (COQ_HEADER
            + "Definition cases : list (nat * request * operand * operand * observed_check * string) :=\n  ["
            + ";\n  ".join(terms) + "].\n"
            "Eval vm_compute in (map (fun c => match c with (i, _, _, _, _, _) => i end)\n"
            "  (filter (fun c => match c with (_, q, l, r, o, s) =>\n"
            "     negb (checks_agree q l r o && String.eqb (deparse_assignment (rq_assignment q)) s) end) cases)).\n")
    ok, out = chk.coq_eval("c11_checks", text, timeout=600)
    if not ok and "inconsistent assumptions" in out:
        chk.coq_make(["model/Operators.vo"], timeout=600)
        ok, out = chk.coq_eval("c11_checks", text, timeout=600)
    failing = parse_failing(out) if ok else None
    kinds = {}
    for c in cases:
        r = results[c["id"]]
        k = "pass" if r["kind"] == "pass" else r["class"]
        kinds[k] = kinds.get(k, 0) + 1
        chk.case(("checks", c["assignment"], c["output_format"], c["left"]["dims"], c["right"]["dims"], c["bindings"]),
                 nontrivial=True)
    chk.extra["request_checks_correspondence"] = {"cases": len(cases), "outcomes": kinds}
    if failing is None:
        chk.broken.append({"kind": "correspondence", "what": "coqc failed on the request_checks cases",
                           "coq_output_tail": out[-1500:]})
        return
    for i in failing[:5]:
        c = cases[i]
        chk.broken.append({"kind": "correspondence", "what": "request_checks differs from evaluate_tensora",
                           "label": c["label"], "assignment": c["assignment"], "output_format": c["output_format"],
                           "left": c["left"], "right": c["right"], "bindings": c["bindings"],
                           "observed": results[i]})



def strip_case(c):
    return {k: c[k] for k in ("op", "left", "right", "group") if k in c}


def run(chk: Check):
    chk.rule = (
        "operand format pairs (all modes x all orderings): orders 0-2 all pairs, order 3 sampled (quick) / "
        "all pairs (thorough), @ all four shapes x all format pairs; dimensions from {0,1,2,3}; sparsity: "
        "empty / full / single / random subsets with explicit zeros, every subset pair on vectors; numbers "
        "(int, float, bool, Fraction) and unsupported objects on either side; mismatching shapes. A case is "
        "(operator, operands with entries); distinct = distinct canonical case; non-trivial = a kernel ran "
        "and returned a tensor that was compared cell by cell"
    )
    chk.trusted += [
        "hand model coq/model/Operators.v of tensor.py's operator layer, tied by correspondence and by regeneration + equivalence proof (TIE operators)",
        "C11's 'never a wrong value' = C11 theorems + C01 (evaluate computes the meaning of the assignment) "
        "applied to the synthesised assignment; the kernel itself is covered here only by the oracle sweep",
        "parse_assignment / parse_format of the synthesised strings (C12): the harness compares the real "
        "parser's tree and format with the model's on every case",
        "Python's binary-operator dispatch (forward method, reflected method) as modelled by python_operator",
        "tensor values are modelled in Z (a commutative ring); binary64 rounding is not modelled",
    ]
    import time as _time
    t0 = _time.time()
    timing = chk.extra.setdefault("timing_s", {})
    chk.coq_props()
    timing["coq_props"] = round(_time.time() - t0, 1)
    # concrete instances of the theorems' hypotheses and sanity examples of the model
    ok_ex, log_ex = chk.coq_make(["proofs/OperatorsExamples.vo"], timeout=600)
    if not ok_ex:
        chk.broken.append({"kind": "proof", "file": "proofs/OperatorsExamples.v",
                           "coq_output_tail": "\n".join(log_ex.strip().splitlines()[-25:])})
    # informational finding (not an obligation): by-dimension format rule fails for non-natural orderings
    ok_k, _ = chk.coq_make(["findings/K_C11_1.vo"], timeout=600)
    if ok_k:
        chk.note("finding K-C11-1 (informational, outside the property): for operands in non-natural mode order "
                 "the operators pair modes by level; format_rule_any_ordering_refuted still holds")
    else:
        chk.note("FINDING-NO-LONGER-REPRODUCES K-C11-1 (coq/findings/K_C11_1.v no longer builds)")

    cases: list[dict] = []
    if CORPUS.is_dir():
        for p in sorted(CORPUS.glob("*.json")):
            try:
                c = json.loads(p.read_text())
                cases.append({"id": len(cases), "op": c["op"], "left": c["left"], "right": c["right"],
                              "group": "corpus"})
            except Exception as e:  # noqa: BLE001
                chk.note(f"corpus file {p.name} unreadable: {e}")
    n_corpus = len(cases)
    for c in generate(chk):
        c["id"] = len(cases)
        cases.append(c)

    timing["coq_total"] = round(_time.time() - t0, 1)
    t1 = _time.time()
    side = ThreadPoolExecutor(max_workers=1)
    side_job = side.submit(checks_correspondence, chk)     # independent of the sweep: run alongside
    results = run_harness(chk, cases)
    timing["harness"] = round(_time.time() - t1, 1)
    by_id = {c["id"]: c for c in cases}

    n_viol = 0
    outcome_of: dict[int, str] = {}
    for c in cases:
        r = results.get(c["id"], {"harness_error": "no result"})
        got, problems, detail = oracle(c, r)
        outcome_of[c["id"]] = got
        chk.count("group:" + c["group"])
        chk.count("outcome:" + got.split("@")[0])
        chk.case(json.dumps(strip_case(c), sort_keys=True), nontrivial=(got == "tensor"))
        if got == "K-C08-1":
            chk.known_finding(
                "K-C08-1",
                "operator request refused with NotImplementedError raised in AppendOutput.next_output "
                "(iteration_graph/outputs/_append.py): the kernel generator's known internal refusal, C08",
            )
            if "K-C08-1-example" not in chk.extra:
                chk.extra["K-C08-1-example"] = strip_case(c)
        if got == "harness":
            chk.broken.append({"kind": "harness", "case": strip_case(c), "what": problems})
            continue
        if problems:
            n_viol += 1
            if n_viol <= 5:
                payload = {"case": strip_case(c), "problems": problems, "detail": detail,
                           "observed_calls": r.get("calls"), "outcome": r.get("outcome")}
                if n_viol <= 2:
                    payload["model"] = model_answer(chk, c, r)
                chk.violation("; ".join(problems), payload)
        elif got == "tensor" and len(chk.samples) < 6 and c["id"] % 37 == 0:
            chk.sample({"case": strip_case(c), "request": r["calls"][0]["assignment"] if r["calls"] else None,
                        "output_format": r["calls"][0]["output_format"] if r["calls"] else None,
                        "result": r["outcome"]["raw"]})
    if n_viol > 5:
        chk.note(f"{n_viol} failing cases in total; the first 5 were written as replays")

    t2 = _time.time()
    bad = correspondence(chk, [c for c in cases if outcome_of[c["id"]] != "harness"], results)
    timing["correspondence_coqc"] = round(_time.time() - t2, 1)
    chk.count("correspondence_compared", len(cases))
    chk.count("correspondence_disagreements", len(bad))
    for b in bad[:5]:
        c, r = by_id[b["id"]], results[b["id"]]
        chk.broken.append({"kind": "correspondence", "why": b["why"], "case": strip_case(c),
                           "observed_calls": r.get("calls"), "outcome_class": outcome_of[b["id"]],
                           "model": model_answer(chk, c, r)})
    chk.note(f"corpus cases: {n_corpus}; generated: {len(cases) - n_corpus}")
    t3 = _time.time()
    side_job.result()
    side.shutdown()
    timing["request_checks_correspondence_wait"] = round(_time.time() - t3, 1)

    # tie to the source by regeneration: the operator layer of tensor.py (evaluate_binary_operator,
    # evaluate_matrix_multiplication_operator, the eight __op__ methods, Format/Mode) is re-translated from /repo
    # on every run and PROVED equal to model/Operators.v (coq/props/TIE_operators.v) + translator self-check
    from props._tie import run_tie
    run_tie(chk, ["operators", 'compose'])


def replay(chk: Check, payload: dict) -> int:
    c = payload.get("case") or payload
    if "op" not in c:
        print("replay file has no concrete case (broken obligation without failing input)")
        return 1
    case = {"id": 0, "op": c["op"], "left": c["left"], "right": c["right"], "group": "replay"}
    results = run_harness(chk, [case], workers=1)
    got, problems, detail = oracle(case, results[0])
    print(json.dumps({"outcome": got, "problems": problems, "detail": detail}, indent=1, default=str))
    bad = correspondence(chk, [case], results) if got != "harness" else []
    if bad:
        print("request differs from the model:", bad)
    return 1 if (problems or bad) else 0
