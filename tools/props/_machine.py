"""Shared driver for the IR-machine correspondences (C04, C05, C06, C16)."""

from __future__ import annotations

import json
import re

from vlib.core import BUILD, GUARD


def parse_failing(out: str):
    m = re.search(r"=\s*(.*?)\s*:\s*list \(nat \* verdict\)", out, flags=re.S)
    if not m:
        return None
    body = m.group(1).strip()
    if body in ("[]", "nil"):
        return []
    body = body.replace("%nat", "").replace("%string", "")
    res = []
    for mm in re.finditer(r"\((\d+),\s*(V\w+(?:\s+(?:\"[^\"]*\"|\w+))?)\)", body):
        res.append((int(mm.group(1)), " ".join(mm.group(2).split())))
    return res


def run_mgen(chk, tag: str, cfg: dict, capacity: str | None, workers: int = 6, script: str = "mgen.py"):
    """Run the generator + Coq shards.  Returns (index, failing) where failing is a list of
    (case meta, verdict string).  Records counts on chk; shard-level problems go to chk.broken."""
    d = BUILD / "cases" / f"{chk.prop.lower()}_{chk.tier}_{tag}"
    d.mkdir(parents=True, exist_ok=True)
    for f in d.glob("*"):
        f.unlink()
    cfg = dict(cfg, outdir=str(d), prefix="m")
    env = {GUARD: capacity} if capacity else {}
    rc, out, err = chk.impl(script, input=json.dumps(cfg), timeout=2400, env=env)
    if rc != 0:
        if rc < 0 or rc in (139, 134, 137):
            chk.violation(f"the library crashed the process while the sweep ran (exit {rc})",
                          {"generator_config": cfg, "capacity": capacity, "stderr_tail": err[-1500:]})
        else:
            chk.broken.append({"kind": "harness", "what": f"{script} failed rc={rc}", "stderr": err[-2000:]})
        return None, []
    summary = json.loads(out.strip().splitlines()[-1])
    chk.extra.setdefault("sweeps", {})[tag] = summary
    index = json.loads((d / "m_index.json").read_text())
    res = chk.coq_run_files([str(d / (s["name"] + ".v")) for s in index["shards"]], workers=workers, timeout=1800)
    failing = []
    for sh in index["shards"]:
        okr, outr = res[str(d / (sh["name"] + ".v"))]
        fails = parse_failing(outr) if okr else None
        if fails is None:
            chk.broken.append({"kind": "correspondence", "what": "machine shard did not evaluate",
                               "shard": sh["name"], "output": outr[-1500:]})
            continue
        bad = dict(fails)
        for i, meta in enumerate(sh["cases"]):
            meta = dict(meta, capacity=capacity, shard=f"{d.name}/{sh['name']}.v", case_index=i)
            chk.case((meta["assignment"], json.dumps(meta["formats"], sort_keys=True),
                      json.dumps(meta.get("inputs"), sort_keys=True), meta["kind"], capacity))
            chk.count("runs_" + meta["kind"])
            if i in bad:
                failing.append((meta, bad[i]))
    for e in index.get("impl_errors", []):
        chk.count("impl_unexpected_exception")
    for e in index.get("generator_errors", []):
        chk.count("generator_unexpected_exception")
    return index, failing
