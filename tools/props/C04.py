"""C04 -- assemble followed by compute is equivalent to evaluate.

Theorem (props/C04.v): the compute-kernel certificate is sound on the IR machine for all inputs.
This file (i) evaluates the certificate on the REAL compute kernel of every swept problem, and
(ii) runs the three real kernels on the machine: assemble;compute == evaluate, assemble;compute;
compute(re-valued);compute(re-valued) == evaluate(re-valued), and compute leaves every pos/crd block,
every field and the allocation counter untouched."""

from __future__ import annotations

import json

from props._machine import run_mgen
from vlib.core import BUILD


from props.C05 import GROWTH

# kernels where assemble and compute take different paths: buckets under contractions, sums of
# contractions, compressed outputs above dense layers
SHAPES = GROWTH + [
    ["a(i) = b(i,j,k) * c(j) * d(k)", {"a": "s", "b": "dss", "c": "d", "d": "d"}],
    ["a(i) = b(i,j,k) * c(j) * d(k)", {"a": "s", "b": "sss", "c": "s", "d": "d"}],
    ["a(i) = b(i,j) * c(j) + d(i,k) * e(k)", {"a": "s", "b": "ds", "c": "d", "d": "ds", "e": "d"}],
    ["a(i) = b(i,j) * c(j) + d(i,k) * e(k)", {"a": "s", "b": "ss", "c": "s", "d": "ds", "e": "s"}],
    ["a(i) = b(i,j) * c(j) + d(i)", {"a": "s", "b": "ds", "c": "d", "d": "s"}],
    ["a(i,j) = b(i,k) * c(k,j) + d(i,j)", {"a": "ss", "b": "ds", "c": "ds", "d": "ds"}],
    ["a(i,j) = b(i,j,k) * c(k)", {"a": "sd", "b": "dds", "c": "d"}],
    ["a(i,l) = b(i,j) * c(j,k) * d(k,l)", {"a": "sd", "b": "ds", "c": "ds", "d": "dd"}],
    ["a() = b(i,j) * c(i,j)", {"a": "", "b": "ds", "c": "ss"}],
    # a compressed output layer above an index at which a sparse addend and a non-vanishing addend meet:
    # rows fed only by the loop that runs after the sparse operand is exhausted
    ["a(i,j) = b(i,j) + c(i,j)", {"a": "sd", "b": "ds", "c": "dd"}],
    ["a(i,j) = b(i,j) + c(i,j)", {"a": "ss", "b": "ds", "c": "dd"}],
    ["a(i) = (b(i,j) + c(i,j)) * d(j)", {"a": "s", "b": "ds", "c": "dd", "d": "d"}],
    ["a(i,j) = b(i,j) + c(j)", {"a": "sd", "b": "ds", "c": "d"}],
    ["a(i,j,k) = b(i,j,k) + c(i,j,k)", {"a": "ssd", "b": "dds", "c": "ddd"}],
]


def run(chk):
    quick = chk.tier == "quick"
    chk.rule = ("sweep.TEMPLATES x formats x index sizes {0,1,2,3} x sparsity patterns; histories assemble;compute and "
                "assemble;compute;compute(re-valued v*2+1);compute(re-valued v*2+3); structure comparison before/after "
                "compute; capacities {2, default}; plus compute_cert on each real compute kernel")
    chk.trusted += [
        "Coq 8.16.1 kernel; vm_compute",
        "IR abstract machine spec/IRSem.v (hand-written specification; agreement with gcc/LLVM checked by C06)",
        "IR dumper tools/harness/irdump.py and translator tools/py2coq (gen/IRAst.v)",
        "the equality assemble;compute == evaluate is observed on swept inputs (exploration); the certificate gives a for-all-inputs guarantee per swept kernel only",
    ]
    ok = chk.regen(["IRAst.v"])
    if ok:
        chk.coq_props()
    chk.coq_make(["spec/IRRun.vo", "proofs/Certs.vo"])
    for cap in (["2", None] if quick else ["1", "2", None]):
        cfg = {"seed": chk.seed * 17 + 3 + (int(cap) if cap else 0), "kinds": ["hist", "structure"],
               "fmt_cap": 4 if quick else 10, "n_inputs": 2 if quick else 4,
               "max_problems": (len(SHAPES) + 60) if quick else 600, "per_shard": 8, "fuel": 400000,
               "certs": True, "priority": SHAPES}
        index, failing = run_mgen(chk, f"cap{cap or 'default'}", cfg, cap)
        if index is None:
            continue
        for meta, verdict in failing:
            what = {"hist1": "assemble;compute differs from evaluate", "hist3": "re-running compute with re-valued inputs differs from evaluate",
                    "structure": "compute changed the structure it was given", "cert": "compute kernel fails the no-allocation / no-field-store certificate"}.get(meta["kind"], meta["kind"])
            chk.violation(f"{what}: machine verdict {verdict}",
                          {"assignment": meta["assignment"], "formats": meta["formats"], "inputs": meta.get("inputs"),
                           "kind": meta["kind"], "capacity": cap, "machine_verdict": verdict,
                           "expected_from_llvm_evaluate": meta.get("expected"), "shard": meta["shard"], "case_index": meta["case_index"]})
        if index["shards"] and index["shards"][0]["cases"]:
            m = index["shards"][0]["cases"][0]
            chk.sample({"assignment": m["assignment"], "formats": m["formats"], "inputs": m.get("inputs"), "kind": m["kind"], "capacity": cap})


    # static certificate: every store of the compute kernel goes into the block out->vals pointed to at
    # entry; every other block is cell-for-cell unchanged, for ALL inputs (CERT_compute_store_sound)
    from props._certs import cert_props, run_certs
    cert_props(chk)
    run_certs(chk, ["compute_store"], priority=SHAPES)

    # relational certificate over the THREE real kernels of a problem (props/CERT_kinds.v): the assemble and compute
    # kernels are the evaluate kernel with statements dropped, under role/taint side conditions; soundness (for ALL
    # inputs, any fuel, any capacity): assemble builds exactly evaluate's structure, compute run on that structure writes
    # exactly evaluate's values (or stops with EOutOfBounds), whatever the value block held before (re-valued re-runs)
    from props._certs_kinds import kinds_props, run_kinds_cert
    kinds_props(chk)
    run_kinds_cert(chk, priority=SHAPES)

    # the premise of the relational certificate, from the source: generate_module_tensora (regenerated) builds ONE
    # definition and ONE graph and maps generate_ir over the requested kinds in order (props/TIE_glue.v)
    from props._tie import run_tie
    # the loop generator itself: _generate_ir.py regenerated as a Gallina function graph -> IR, compared with the real
    # generate_ir on every swept graph and kind; for ALL graphs the compute kernel it emits satisfies compute_cert (props/TIE_genir.v)
    run_tie(chk, ["glue", "genir"])


def replay(chk, payload):
    print(json.dumps(payload, indent=1)[:4000])
    return 0
