"""TIE entry for the regenerated glue between the desugared assignment and the kernel generator (auto-discovered by
props/_tie.py).  Suggested calls: run_tie(chk, ["glue"]) in C01 (output description of the abstract kernel model,
index sizes), C04 (one graph / one definition for all requested kinds), C08 (best_algorithm, KernelType truth table),
C10 (index sizes: the first participant decides), C15 (the module is a function of the request)."""
TIE_EXTRA = {
    "glue": {
        "gen": ["ExhaustAst.v", "Exhaust.v", "Deparse.v", "Desugar.v", "IterGraphs.v", "IRAst.v", "Peephole.v", "Names.v",
                "AppendGen.v", "GlueGen.v"],
        "vo": "proofs/GenGlue_equiv.vo",
        "theorems": ["gen_to_identifiable_equiv", "gen_to_identifiable_identify", "gen_to_identifiable_description",
                     "gen_to_identifiable_levels", "gen_index_dimensions_expression_equiv", "gen_index_dimensions_equiv",
                     "gen_index_dimensions_first", "gen_index_dimensions_target_index", "gen_index_dimensions_total",
                     "gen_index_dimensions_sizes", "gen_best_algorithm_first", "gen_best_algorithm_equiv",
                     "gen_kernel_type_truth_table", "gen_kernel_type_equiv", "gen_kernel_type_bijection",
                     "gen_module_one_plan", "gen_module_same_graph_for_all_kinds", "gen_module_three_kinds",
                     "gen_module_failure_independent_of_kinds", "gen_module_failure_only_from_plan", "gen_module_map",
                     "gen_module_depends_only_on_request", "gen_generate_code_spec", "gen_cli_spec", "gen_cli_request",
                     "gen_cli_defaults"],
        "source": "desugar/_to_identifiable.py, desugar/_index_dimensions.py, desugar/_best_algorithm.py, kernel_type.py, "
                  "iteration_graph/_definition.py, generate/_tensora.py, generate/_base.py, cli.py (body and option defaults "
                  "of `tensora`)",
        "model": "coq/model/Glue.v (level_index, output_description_of, index_dims), coq/model/Graphs.v (identify, best_of), "
                 "coq/model/OutputOrder.v (is_assemble, is_compute)",
    },
}
