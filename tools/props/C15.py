"""C15 -- generated code is a pure function of the request; caching is invisible.

Proof: coq/props/C15.v (models coq/model/{ExprAst,Problem,Desugar}.v).
Correspondence / searcher:
  * generate_code text for every swept request in fresh subprocesses under several PYTHONHASHSEEDs and
    in three request orders: byte-identical (sha256 of the text);
  * CLI (typer CliRunner on tensora.cli.app; stdout and -o file) == library text, unmentioned tensors dense;
  * desugared tree / index_dimensions / index_participants under every seed vs the Coq model
    (up to the proved-irrelevant nesting order of adjacent Contract nodes);
  * Problem.__eq__/__hash__ on pairs vs problem_eqb; make_problem vs the model;
  * cachable_tensor_method (real lru_cache, stub TensorMethod) identity pattern vs the cache model;
  * evaluate through a warm cache == after cache_clear() on real kernels.
"""

from __future__ import annotations

import difflib
import itertools
import json
import re
import sys
from concurrent.futures import ThreadPoolExecutor

from vlib.core import BUILD, VERIF, Check

sys.path.insert(0, str(VERIF / "tools" / "harness"))
import c10_common as cc  # noqa: E402
import c10_gen as gen  # noqa: E402

KINDS = ["assemble", "compute", "evaluate"]
KIND_SUBSETS = [list(c) for n in (1, 2, 3) for c in itertools.combinations(KINDS, n)]
LANGS = ["c", "llvm"]

EXTRA_TEMPLATES = [
    ("y(i) = A(i,j) * x(j)", [{"A": "ds"}, {"A": "d1s0"}, {"y": "s", "A": "ss", "x": "s"}]),
    ("A(i,j) = B(i,k) * C(k,j)", [{"B": "ds"}, {"C": "ds", "B": "ds"}]),
    ("a(i) = b(i,j,k,l) * c(j,k,l)", [{"b": "dsss", "c": "sss"}]),
    ("a(i) = b(i,j,k,l) * c(j) * d(k) * e(l)", [{"b": "dsss"}]),
    ("a() = b(i,j,k) * c(i,j,k) + d(i,j,k) * e(i,j,k)", [{"b": "sss", "c": "sss", "d": "sss", "e": "sss"}]),
    ("a(i) = b(i,j) * c(j) + d(i,k) * e(k)", [{"b": "ds", "d": "ds"}]),
    # sensitive to where a contraction may be hoisted (repair 51a0a5b), and forcing distribution
    ("o() = X() + Y(k) + Z(k)", [{"Y": "s", "Z": "s"}]),
    ("o() = (Y(k) + X()) * (Z(k) + E())", []),
    ("o() = (Y(k) - X()) * (Z(k) - E())", [{"Y": "s", "Z": "s"}]),
    ("o(i) = V(i,k) * Y(k) + W(i) + U(i,k)", [{"V": "ds", "U": "ds"}]),
    ("o(i) = (V(i,k,l) + W(i)) * (Y(k,l) + U(i))", []),
    ("o() = (Y(k) + X()) * Z(k)", []),
    ("o() = 2 * (Y(k) - X()) * (Z(k) + 3)", []),
    ("a(i) = b(i,j) + c(i,k)", []),
    ("a(i,j) = b(i,j,k,l,m) * c(k,l,m)", []),
    ("a(i) = (b(i,j) * c(j,k)) * (d(k,l) * e(l))", []),
    ("a(i) = b(i) + 2.5 * c(i) - 0 * d(i)", []),
    ("a(i) = b(i,j,k)", [{"b": "dss"}]),          # one tensor carrying several contracted indexes of its own
    ("a() = b(i,j,k)", []),
    ("a() = b(i,j) - c(i,j)", [{"b": "ss", "c": "ss"}]),
    ("a(i) = b(i,j,k) + c(i)", []),
    ("a() = b(i,j) + c(k,l)", []),
    ("a(i) = b(i,j,k) * c(i) + d(i,l,m)", []),
    ("a(i) = b(i,i)", []),                       # DiagonalAccessError: a refusal must be stable too
    ("a(i,j) = b(i,j) * c(j,i)", [{"b": "ds", "c": "ds"}]),  # may be NoKernelFoundError
]

PREAMBLE = r"""
From Coq Require Import String List ZArith Bool Arith. Import ListNotations.
From TV Require Import model.ExprAst model.Problem model.Desugar.
Open Scope string_scope.
Definition ord_rev : path -> list string -> list string := fun _ l => rev l.
Definition ordi_rev : path -> path -> list string -> list string := fun _ _ l => rev l.
Fixpoint dims_eqb (a b : dims_map) : bool :=
  match a, b with
  | [], [] => true
  | (k, (n, d)) :: a', (k', (n', d')) :: b' => (k =? k') && (n =? n') && Nat.eqb d d' && dims_eqb a' b'
  | _, _ => false
  end.
Definition pset_eqb (a b : list participant) : bool :=
  Nat.eqb (length a) (length b) && forallb (fun x => pmem x b) a.
Definition ip_eqb (py model : ipmap) : bool :=
  Nat.eqb (length py) (length model) &&
  forallb (fun kp => match aget (fst kp) model with Some ps => pset_eqb (snd kp) ps | None => false end) py.
(* a desugar case: assignment, python tree, python index_dimensions, python index_participants *)
Definition desugar_ok (a : assignment) (py : dassignment) (dims : dims_map) (ip : ipmap) : bool :=
  dassignment_equivb py (desugar_assignment ord_id ordi_id a) &&
  dassignment_equivb py (desugar_assignment ord_rev ordi_rev a) &&
  dims_eqb dims (index_dimensions (desugar_assignment ord_id ordi_id a)) &&
  dims_eqb dims (index_dimensions py) &&
  ip_eqb ip (assignment_index_participants ord_id a) &&
  ip_eqb ip (assignment_index_participants ord_rev a).
Definition bad {A} (l : list (nat * A)) (f : A -> bool) : list nat :=
  flat_map (fun c => if f (snd c) then [] else [fst c]) l.
Definition mp_ok (c : assignment * list (string * format) * option (list (string * format)) * string) : bool :=
  let '(a, fs, expected, name) := c in
  match make_problem a fs, expected with
  | Ok p, Some items => items_eqb (p_formats p) items
  | Error (EUnusedFormat n), None => n =? name
  | Error (EUndefinedReference n), None => n =? name
  | Error (EIncorrectDimensions n), None => n =? name
  | _, _ => false
  end.
Definition serials (ops : list (op)) : list nat :=
  map (fun km => tm_serial unit (snd km)) (run unit (fun _ _ => tt) 128 ops (empty_state unit)).
Fixpoint nats_eq (a b : list nat) : bool :=
  match a, b with [], [] => true | x :: a', y :: b' => Nat.eqb x y && nats_eq a' b' | _, _ => false end.
"""


MAX_VIOLATIONS = 8


def report(chk: Check, what, payload):
    """at most MAX_VIOLATIONS replay files per run; the rest are only counted"""
    if len(chk.violations) < MAX_VIOLATIONS:
        chk.violation(what, payload)
    else:
        chk.count("violations_not_listed")


# ------------------------------------------------------------------------------------------ sweep


def bases(chk: Check, rng):
    """(assignment text, formats handed to make_problem as an ordered list)"""
    out = []
    for text, variants in list(gen.TEMPLATES) + EXTRA_TEMPLATES:
        out.append((text, []))
        for fm in variants:
            out.append((text, list(fm.items())))
            if len(fm) >= 2:
                items = list(fm.items())
                out.append((text, items[1:]))                    # one tensor unmentioned -> dense
                out.append((text, list(reversed(items))))        # same request, dict in another order
    if chk.tier != "thorough":
        must = [b for b in out if b[0] in ("a(i) = b(i,j,k,l) * c(j,k,l)", "a(i) = b(i,j,k,l) * c(j) * d(k) * e(l)",
                                           "a() = b(i,j,k) * c(i,j,k) + d(i,j,k) * e(i,j,k)",
                                           "a(i,j) = b(i,j,k,l,m) * c(k,l,m)", "a(i) = (b(i,j) * c(j,k)) * (d(k,l) * e(l))",
                                           "A(i,j) = B(i,k) * C(k,l) * D(l,j)", "a(i) = b(i,j,k) * c(j) * d(k)",
                                           "a(i) = b(i,j,k)", "a() = b(i,j,k)", "a() = b(i,j) - c(i,j)", "a(i) = b(i,j,k) + c(i)",
                                           "a() = b(i,j) + c(k,l)", "a(i) = b(i,j,k) * c(i) + d(i,l,m)",
                                           "o() = X() + Y(k) + Z(k)", "o() = (Y(k) + X()) * (Z(k) + E())",
                                           "o() = (Y(k) - X()) * (Z(k) - E())", "o(i) = V(i,k) * Y(k) + W(i) + U(i,k)",
                                           "o(i) = (V(i,k,l) + W(i)) * (Y(k,l) + U(i))", "o() = (Y(k) + X()) * Z(k)",
                                           "o() = 2 * (Y(k) - X()) * (Z(k) + 3)")]
        out = must + [b for b in out if b not in must]
        head, tail = out[:len(must)], out[len(must):]
        rng.shuffle(tail)
        out = head + tail[:max(0, 64 - len(head))]
    return out


def build_requests(chk: Check, rng):
    reqs = []
    for text, formats in bases(chk, rng):
        for kinds in KIND_SUBSETS:
            for lang in LANGS:
                reqs.append({"rid": len(reqs), "assignment": text, "formats": formats, "kinds": kinds, "language": lang})
    return reqs


def run_mode(chk: Check, payload: dict, seed: str = "0", timeout=1500):
    rc, out, err = chk.impl("c15_run.py", input=json.dumps(payload), timeout=timeout, hashseed=seed)
    try:
        return json.loads(out[out.index("{"):]), err
    except (ValueError, json.JSONDecodeError):
        return None, (err or "")[-2000:] + f"\n[rc={rc}] stdout head: {out[:300]}"


# ------------------------------------------------------------------------------------------ Coq terms


def coq_dtree(t):
    k = t[0]
    if k == "int":
        return f"(DInteger ({t[1]})%Z)"
    if k == "float":
        return f"(DFloat {cc.float_id(float(t[1]))}%Z)"
    if k == "tensor":
        return f"(DTensor {t[1]}%nat {cc.cstr(t[2])} {cc.clist(cc.cstr(i) for i in t[3])})"
    if k == "contract":
        return f"(DContract {cc.cstr(t[1])} {coq_dtree(t[2])})"
    c = {"add": "DAdd", "mul": "DMultiply"}[k]
    return f"({c} {coq_dtree(t[1])} {coq_dtree(t[2])})"


def coq_problem(text, formats):
    return f"(Problem {cc.coq_assignment(cc.parse_assignment(text))} {cc.coq_formats(formats)})"


def coq_bad_list(chk: Check, name: str, items, fn: str):
    """items: [(index, coq term)]; -> (failing indexes, problems)"""
    files = []
    for k in range(0, len(items), 300):
        part = items[k:k + 300]
        body = ";\n ".join(f"({i}%nat, {t})" for i, t in part)
        files.append((f"{name}_{k // 300}", PREAMBLE + f"\nEval vm_compute in (bad [\n {body}] {fn}).\n"))
    failing, problems = [], []

    def one(f):
        return f[0], chk.coq_eval(f[0], f[1], timeout=600)

    with ThreadPoolExecutor(max_workers=6) as ex:
        for fname, (ok, out) in ex.map(one, files):
            m = re.search(r"=\s*\[(.*?)\]\s*:\s*list nat", out, flags=re.S) if ok else None
            if not m:
                problems.append({"file": fname, "output_tail": out[-1500:]})
                continue
            failing += [int(x) for x in re.findall(r"\d+", m.group(1))]
    return failing, problems


# ------------------------------------------------------------------------------------------ parts


def part_codegen(chk: Check, reqs, rng):
    """fresh subprocess per (hash seed, request order); all texts must be identical"""
    thorough = chk.tier == "thorough"
    n_seeds = 32 if thorough else 8
    seeds = [str(s) for s in ([0, 1, 2, 3, 4, 5, 6, 7] + [rng.randrange(8, 2**32 - 1) for _ in range(n_seeds - 8)])]
    rids = [r["rid"] for r in reqs]
    shuffled = list(rids)
    rng.shuffle(shuffled)
    # interleave: a different problem between two requests of the same problem
    orders = {"given": rids, "reversed": list(reversed(rids)), "shuffled": shuffled}
    assignments = sorted({r["assignment"] for r in reqs})
    runs = [("0", "given"), ("0", "reversed"), ("0", "shuffled")]
    names = list(orders)
    for i, s in enumerate(seeds[1:], 1):
        runs.append((s, names[i % 3]))

    def one(run):
        seed, oname = run
        res, err = run_mode(chk, {"mode": "codegen", "requests": reqs, "order": orders[oname],
                                  "assignments": assignments}, seed=seed)
        return run, res, err

    results = {}
    with ThreadPoolExecutor(max_workers=8) as ex:
        for run, res, err in ex.map(one, runs):
            if res is None:
                chk.broken.append({"kind": "harness", "what": f"c15_run.py codegen failed (seed {run[0]}, order {run[1]})",
                                   "stderr": err})
            else:
                results[run] = res
    ref_run = ("0", "given")
    ref = results.get(ref_run)
    if ref is None:
        return results, orders
    n_viol = 0
    for r in reqs:
        rid = str(r["rid"])
        a = ref["texts"].get(rid)
        chk.case(("codegen", r["assignment"], r["formats"], r["kinds"], r["language"]), nontrivial=bool(a and a.get("ok")))
        chk.count("codegen:" + ("ok" if a and a.get("ok") else "refused:" + str((a or {}).get("cls"))))
        for run, res in results.items():
            b = res["texts"].get(rid)
            same = a is not None and b is not None and a.get("ok") == b.get("ok") and a.get("sha") == b.get("sha") \
                and a.get("cls") == b.get("cls")
            if not same and n_viol < 5:
                n_viol += 1
                by_rid = {q["rid"]: q for q in reqs}

                def before(oname, rid=r["rid"]):
                    o = orders[oname]
                    k = o.index(rid)
                    return [by_rid[x] for x in o[max(0, k - 20):k]]

                report(chk, "generated text differs between two runs of the same request",
                       {"request": r,
                        "run_a": {"seed": ref_run[0], "order": ref_run[1], "result": a, "generated_before": before(ref_run[1])},
                        "run_b": {"seed": run[0], "order": run[1], "result": b, "generated_before": before(run[1])},
                        "kind": "codegen"})
            elif not same:
                chk.count("violations_not_listed")
    chk.count("codegen_processes", len(results))
    chk.count("hash_seeds", len({run[0] for run in results}))
    chk.extra["hash_seeds"] = sorted({run[0] for run in results})
    return results, orders


def part_desugar(chk: Check, results):
    """every tree any seed produced vs the model; how many distinct trees the seeds produced"""
    seen = {}
    for (seed, _), res in results.items():
        for text, d in res["desugar"].items():
            key = (text, json.dumps(d["target"]), json.dumps(d["expr"]), json.dumps(res["index_dimensions"][text]),
                   json.dumps(res["index_participants"][text]))
            seen.setdefault(key, seed)
    per_assignment = {}
    for key in seen:
        per_assignment.setdefault(key[0], set()).add(key[2])
    chk.count("desugar_assignments", len(per_assignment))
    chk.count("desugar_assignments_with_seed_dependent_tree", sum(1 for v in per_assignment.values() if len(v) > 1))
    items = []
    keys = list(seen)
    for i, key in enumerate(keys):
        text, target, expr, dims, ip = key
        a = cc.coq_assignment(cc.parse_assignment(text))
        py = f"(DAssignment {coq_dtree(json.loads(target))} {coq_dtree(json.loads(expr))})"
        cdims = cc.clist(f"({cc.cstr(k)}, ({cc.cstr(n)}, {d}%nat))" for k, n, d in json.loads(dims))
        cip = cc.clist("(" + cc.cstr(k) + ", " + cc.clist(f"({cc.cstr(n)}, {d}%nat)" for n, d in ps) + ")"
                       for k, ps in json.loads(ip))
        items.append((i, f"({a}, {py}, {cdims}, {cip})"))
        chk.case(("desugar", key), nontrivial=True)
    failing, problems = coq_bad_list(chk, "c15_desugar", items,
                                     "(fun c => match c with (a, py, dims, ip) => desugar_ok a py dims ip end)")
    for p in problems:
        chk.broken.append({"kind": "model-evaluation", **p})
    for i in failing[:10]:
        text, target, expr, dims, ip = keys[i]
        chk.broken.append({"kind": "correspondence", "what": "desugared tree / index_dimensions / index_participants differ from the model",
                           "assignment": text, "seed": seen[keys[i]], "python_tree": json.loads(expr),
                           "python_index_dimensions": json.loads(dims), "python_index_participants": json.loads(ip)})
    if per_assignment:
        ex = next((k for k, v in per_assignment.items() if len(v) > 1), None)
        if ex:
            chk.sample({"seed_dependent_desugared_tree": ex, "variants": sorted(per_assignment[ex])[:3]})


def part_cli(chk: Check, reqs, codegen_ref, rng):
    thorough = chk.tier == "thorough"
    picked = list(reqs) if thorough else rng.sample(reqs, min(len(reqs), 90))
    extra = []
    # kinds in an order other than the alphabetical one of KIND_SUBSETS: the CLI must keep the order of its -t flags
    for r in picked:
        if len(r["kinds"]) >= 2 and (thorough or rng.random() < 0.5):
            ks = list(r["kinds"])
            while ks == sorted(ks):
                rng.shuffle(ks)
            extra.append({**r, "rid": 300000 + r["rid"], "kinds": ks})
    for r in picked[:12]:
        # defaults: no -t -> [compute]; no -l -> c
        extra.append({**r, "rid": 100000 + r["rid"], "kinds": ["compute"], "default_kinds": True})
        extra.append({**r, "rid": 200000 + r["rid"], "language": "c", "default_language": True})
    scratch = str(BUILD / "c15_cli")
    shards = [(picked + extra)[i::4] for i in range(4)]

    def one(shard):
        return run_mode(chk, {"mode": "cli", "requests": shard, "scratch": scratch + f"/{shard[0]['rid']}"}, seed="0")

    merged = {}
    with ThreadPoolExecutor(max_workers=4) as ex:
        for res, err in ex.map(one, [s for s in shards if s]):
            if res is None:
                chk.broken.append({"kind": "harness", "what": "c15_run.py cli failed", "stderr": err})
            else:
                merged.update(res)
    n_viol = 0
    for r in picked + extra:
        e = merged.get(str(r["rid"]))
        if e is None:
            continue
        chk.case(("cli", r["assignment"], r["formats"], r["kinds"], r["language"], r.get("default_kinds"),
                  r.get("default_language")), nontrivial=e["lib_ok"])
        chk.count("cli:" + ("ok" if e["lib_ok"] else "refused"))
        bad = None
        if e["lib_ok"]:
            if not e["stdout_is_text_nl"] or e["exit"] != 0:
                bad = "CLI stdout differs from the library text"
            elif not e["file_is_text"] or e["exit_o"] != 0 or not e["stdout_o_empty"]:
                bad = "CLI -o file differs from the library text"
            ref = codegen_ref["texts"].get(str(r["rid"])) if r["rid"] < 100000 else None
            if ref and ref.get("sha") != e["lib_sha"]:
                bad = "library text in the CLI process differs from the codegen process"
        else:
            if e["exit"] == 0 or e["exit_o"] == 0 or e.get("file_written"):
                bad = "CLI succeeded (or wrote a file) where the library refuses"
        if bad and n_viol < 5:
            n_viol += 1
            report(chk, bad, {"kind": "cli", "request": r, "cli": e})
        elif bad:
            chk.count("violations_not_listed")


def eq_pairs(chk: Check):
    """pairs of problems differing in exactly one respect"""
    pairs = []
    sources = [("a(i) = b(i,j) * c(j)", [("a", "d"), ("b", "ds"), ("c", "d")]),
               ("A(i,j) = B(i,k) * C(k,j)", [("A", "ds"), ("B", "ds"), ("C", "ds")]),
               ("a(i) = b(i) + c(i) + d(i)", [("a", "d"), ("b", "s"), ("c", "d"), ("d", "s")]),
               ("a(i) = 2 * b(i) + 1.5 * c(i)", [("a", "s"), ("b", "s"), ("c", "s")]),
               ("a(i,j,k) = b(i,j,k) * c(k)", [("a", "ddd"), ("b", "d2d0d1"), ("c", "s")]),
               ("A(i,j) = B(i,j) * B(j,i)", [("A", "dd"), ("B", "dd")])]
    ren = {"i": "p", "j": "q", "k": "r"}

    def rename_idx(t):
        return re.sub(r"\b([ijk])\b", lambda m: ren[m.group(1)], t)

    for text, fs in sources:
        pairs.append(("same", text, fs, text, list(fs)))
        pairs.append(("format order reversed", text, fs, text, list(reversed(fs))))
        if len(fs) > 2:
            pairs.append(("format order rotated", text, fs, text, fs[1:] + fs[:1]))
            pairs.append(("two inputs' formats exchanged in order only", text, fs, text, [fs[0], fs[2], fs[1]] + fs[3:]))
        for k in range(len(fs)):
            n, f = fs[k]
            modes, ordering = cc.parse_format(f)
            if modes:
                m2 = ("s" if modes[0] == "d" else "d") + modes[1:]
                pairs.append((f"one mode of {n}", text, fs, text, fs[:k] + [(n, cc.format_str(m2, ordering))] + fs[k + 1:]))
            if len(modes) >= 2:
                o2 = (ordering[1], ordering[0]) + tuple(ordering[2:])
                pairs.append((f"ordering of {n}", text, fs, text, fs[:k] + [(n, cc.format_str(modes, o2))] + fs[k + 1:]))
        pairs.append(("index names", text, fs, rename_idx(text), fs))
        pairs.append(("an extra, unused format", text, fs, text, fs + [("zz", "d")]))
    pairs.append(("literal int vs float", "a(i) = 2 * b(i)", [("a", "d"), ("b", "d")], "a(i) = 2.0 * b(i)", [("a", "d"), ("b", "d")]))
    pairs.append(("same float written differently", "a(i) = 1.5 * b(i)", [("a", "d"), ("b", "d")], "a(i) = 1.50 * b(i)", [("a", "d"), ("b", "d")]))
    pairs.append(("literal value", "a(i) = 2 * b(i)", [("a", "d"), ("b", "d")], "a(i) = 3 * b(i)", [("a", "d"), ("b", "d")]))
    pairs.append(("operand order", "a(i) = b(i) * c(i)", [("a", "d"), ("b", "d"), ("c", "d")], "a(i) = c(i) * b(i)", [("a", "d"), ("c", "d"), ("b", "d")]))
    pairs.append(("operator", "a(i) = b(i) * c(i)", [("a", "d"), ("b", "d"), ("c", "d")], "a(i) = b(i) + c(i)", [("a", "d"), ("b", "d"), ("c", "d")]))
    pairs.append(("association", "a(i) = b(i) + (c(i) + d(i))", [("a", "d"), ("b", "d"), ("c", "d"), ("d", "d")],
                  "a(i) = b(i) + c(i) + d(i)", [("a", "d"), ("b", "d"), ("c", "d"), ("d", "d")]))
    pairs.append(("tensor name", "a(i) = b(i)", [("a", "d"), ("b", "d")], "a(i) = c(i)", [("a", "d"), ("c", "d")]))
    pairs.append(("target index order", "a(i,j) = b(i,j)", [("a", "dd"), ("b", "dd")], "a(j,i) = b(i,j)", [("a", "dd"), ("b", "dd")]))
    return [{"pid": i, "why": w, "a1": a1, "f1": f1, "a2": a2, "f2": f2} for i, (w, a1, f1, a2, f2) in enumerate(pairs)]


def make_problem_cases(chk: Check, rng):
    cases = []
    for text, variants in list(gen.TEMPLATES)[:30] + EXTRA_TEMPLATES[:6]:
        a = cc.parse_assignment(text)
        names = [n for n, _ in gen.tensors_in_order(a)]
        for fm in [{}] + list(variants):
            items = list(fm.items())
            cases.append((text, items))
            cases.append((text, list(reversed(items))))
            if items:
                cases.append((text, items[1:]))
                cases.append((text, items + [("zz", "d")]))
                cases.append((text, [("zz", "d")] + items))
                n0, f0 = items[0]
                m0, o0 = cc.parse_format(f0)
                cases.append((text, [(n0, cc.format_str(m0 + "d", tuple(o0) + (len(m0),)))] + items[1:]))
            sh = [(n, "d" * o) for n, o in gen.tensors_in_order(a)]
            rng.shuffle(sh)
            cases.append((text, sh))
        del names
    return [{"mid": i, "assignment": t, "formats": f} for i, (t, f) in enumerate(cases)]


def part_eqhash(chk: Check, rng):
    pairs = eq_pairs(chk)
    mps = make_problem_cases(chk, rng)
    res, err = run_mode(chk, {"mode": "eqhash", "pairs": pairs, "make_problem": mps})
    if res is None:
        chk.broken.append({"kind": "harness", "what": "c15_run.py eqhash failed", "stderr": err})
        return
    items = []
    by = {p["pid"]: p for p in pairs}
    for r in res["pairs"]:
        p = by[r["pid"]]
        if "error" in r:
            chk.count("eq_pair_not_constructible")
            continue
        chk.case(("eq", p["a1"], p["f1"], p["a2"], p["f2"]))
        chk.count("eq_pairs:" + ("equal" if r["eq"] else "different"))
        # Python-side laws: symmetric, != is the negation, equal => same hash and found in a dict, reflexive
        if r["eq"] != r["eq_sym"] or r["ne"] == r["eq"] or (r["eq"] and not (r["hash_eq"] and r["in_dict"])) \
                or (r["in_dict"] and not r["eq"]) or not r["refl"]:
            report(chk, "Problem.__eq__/__hash__ break the laws a cache key needs", {"kind": "eqhash", "pair": p, "python": r})
        want = "true" if r["eq"] else "false"
        items.append((r["pid"], f"(Bool.eqb (problem_eqb {coq_problem(p['a1'], p['f1'])} {coq_problem(p['a2'], p['f2'])}) {want})"))
    failing, problems = coq_bad_list(chk, "c15_eq", items, "(fun b => b)")
    for pr in problems:
        chk.broken.append({"kind": "model-evaluation", **pr})
    for i in failing:
        p = by[i]
        py = next(r for r in res["pairs"] if r["pid"] == i)
        # the model is proved to be structural equality: a disagreement means Python's __eq__ is not
        if py["eq"] and (p["a1"] != p["a2"] or p["f1"] != p["f2"]) and p["why"] != "same float written differently":
            report(chk, f"two different problems compare equal (differ in: {p['why']}): they would share a cached kernel",
                          {"kind": "eqhash", "pair": p, "python": py})
        else:
            chk.broken.append({"kind": "correspondence", "what": "Problem.__eq__ differs from problem_eqb", "pair": p, "python": py})
    # make_problem
    items = []
    bym = {m["mid"]: m for m in mps}
    for r in res["make_problem"]:
        m = bym[r["mid"]]
        chk.case(("make_problem", m["assignment"], m["formats"]))
        chk.count("make_problem:" + ("ok" if r["ok"] else r["cls"]))
        a = cc.coq_assignment(cc.parse_assignment(m["assignment"]))
        exp = f"(Some {cc.coq_formats(r['formats'])})" if r["ok"] else "None"
        items.append((r["mid"], f"({a}, {cc.coq_formats(m['formats'])}, {exp}, {cc.cstr(r.get('name') or '')})"))
        if r["ok"]:
            # the documented behaviour, stated independently: output first, first appearance, dense defaults
            tree = cc.parse_assignment(m["assignment"])
            given = dict(m["formats"])
            want = [[n, given.get(n, "d" * o)] for n, o in gen.tensors_in_order(tree)]
            if r["formats"] != want:
                report(chk, "make_problem did not reorder by appearance / fill dense defaults",
                              {"kind": "make_problem", "case": m, "python": r, "expected": want})
    failing, problems = coq_bad_list(chk, "c15_mp", items, "mp_ok")
    for pr in problems:
        chk.broken.append({"kind": "model-evaluation", **pr})
    for i in failing[:10]:
        chk.broken.append({"kind": "correspondence", "what": "make_problem differs from the model", "case": bym[i],
                           "python": next(r for r in res["make_problem"] if r["mid"] == i)})


def part_lru(chk: Check, rng):
    """history of cache requests (real functools.lru_cache, stub TensorMethod) vs the cache model"""
    n_keys = 150
    pool = []
    for k in range(n_keys):
        text = f"a(i) = b(i) * c{k}(i)"
        fs = [("a", "d"), ("b", "s"), (f"c{k}", "d")]
        pool.append((text, fs, "llvm"))
    # near-duplicates of key 0: other format order, other backend, other mode
    pool.append(("a(i) = b(i) * c0(i)", [("a", "d"), ("c0", "d"), ("b", "s")], "llvm"))
    pool.append(("a(i) = b(i) * c0(i)", [("a", "d"), ("b", "s"), ("c0", "d")], "cffi"))
    pool.append(("a(i) = b(i) * c0(i)", [("a", "d"), ("b", "d"), ("c0", "d")], "llvm"))
    ops = []
    hot = [0, 1, 2, n_keys, n_keys + 1, n_keys + 2]
    n_ops = 700 if chk.tier == "thorough" else 420
    for t in range(n_ops):
        x = rng.random()
        if x < 0.01:
            ops.append({"op": "clear"})
            continue
        if x < 0.45:
            k = rng.choice(hot)
        elif x < 0.6:
            k = rng.randrange(len(pool))
        else:
            k = t % len(pool)       # a long scan: pushes old entries out of a 128-entry cache
        text, fs, backend = pool[k]
        ops.append({"op": "request", "assignment": text, "formats": fs, "backend": backend, "key": k})
    res, err = run_mode(chk, {"mode": "lru", "ops": ops})
    if res is None:
        chk.broken.append({"kind": "harness", "what": "c15_run.py lru failed", "stderr": err})
        return
    if res["maxsize"] != 128:
        chk.broken.append({"kind": "correspondence", "what": f"lru_cache maxsize is {res['maxsize']}, the model assumes 128"})
    got = [r["serial"] - 1 for r in res["results"]]
    requests = [o for o in ops if o["op"] == "request"]
    # the property on the implementation: same object => same key; object built for the request
    owner = {}
    for o, r in zip(requests, res["results"]):
        chk.case(("lru", o["key"], len(owner)), nontrivial=True)
        if not r["built_for_request"] or not r["same_formats_order"]:
            report(chk, "the cache handed out a method built for another problem",
                          {"kind": "lru", "request": o, "python": r})
            break
        if owner.setdefault(r["serial"], o["key"]) != o["key"]:
            report(chk, "two different requests share one cached method",
                          {"kind": "lru", "request": o, "other_key": pool[owner[r["serial"]]], "python": r})
            break
    coq_ops = cc.clist(
        "CacheClear" if o["op"] == "clear" else
        f"(Request ({coq_problem(o['assignment'], o['formats'])}, {'LLVM' if o['backend'] == 'llvm' else 'CFFI'}))"
        for o in ops)
    text = PREAMBLE + f"\nEval vm_compute in (nats_eq (serials {coq_ops}) {cc.coq_nats(got)}).\n"
    ok, out = chk.coq_eval("c15_lru", text, timeout=600)
    chk.count("lru_ops", len(ops))
    chk.count("lru_distinct_methods", len(set(got)))
    if not ok or "= true" not in out:
        chk.broken.append({"kind": "correspondence", "what": "hit/miss pattern of cachable_tensor_method differs from the cache model",
                           "coq_output_tail": out[-800:], "python_serials_head": got[:60]})


CACHE_CASES = [
    ("a(i) = b(i) + c(i)", "d", [("b", "s", [3], [[[0], 1.0], [[2], 2.0]]), ("c", "d", [3], [[[1], 4.0]])]),
    ("y(i) = A(i,j) * x(j)", "d", [("A", "ds", [2, 3], [[[0, 0], 1.0], [[1, 2], 3.0]]), ("x", "d", [3], [[[0], 2.0], [[2], 5.0]])]),
    ("y(i) = A(i,j) * x(j)", "d", [("A", "d1s0", [2, 3], [[[0, 0], 1.0], [[1, 2], 3.0]]), ("x", "d", [3], [[[0], 2.0], [[2], 5.0]])]),
    ("y(i) = A(i,j) * x(j)", "s", [("A", "d1s0", [2, 3], [[[0, 0], 1.0], [[1, 2], 3.0]]), ("x", "s", [3], [[[0], 2.0], [[2], 5.0]])]),  # refused: must be refused warm and cold
    ("A(i,j) = B(i,k) * C(k,j)", "dd", [("B", "ds", [2, 2], [[[0, 1], 2.0]]), ("C", "ds", [2, 2], [[[1, 0], 3.0], [[1, 1], 1.0]])]),
    ("a() = b(i) * c(i)", "", [("b", "s", [4], [[[1], 2.0], [[3], 1.0]]), ("c", "s", [4], [[[1], 5.0], [[2], 1.0]])]),
    ("A(i,j) = B(i,j) * B(j,i)", "ds", [("B", "dd", [2, 2], [[[0, 1], 2.0], [[1, 0], 3.0], [[1, 1], 1.0]])]),
    ("a(i) = b(i) + c(i) + d(i)", "s", [("b", "s", [3], [[[0], 1.0]]), ("c", "s", [3], [[[1], 1.0]]), ("d", "s", [3], [[[0], 2.0]])]),
    ("a(i) = 2 * b(i)", "s", [("b", "s", [5], [[[4], 1.5]])]),
    # the same assignment with other formats: distinct problems, distinct kernels
    ("a(i) = b(i) + c(i)", "s", [("b", "d", [3], [[[0], 1.0], [[2], 2.0]]), ("c", "s", [3], [[[1], 4.0]])]),
    ("a(i) = b(i) + c(i)", "d", [("b", "d", [3], [[[0], 1.0], [[2], 2.0]]), ("c", "d", [3], [[[1], 4.0]])]),
]


def part_cache(chk: Check):
    backends = ["llvm", "cffi"] if chk.tier == "thorough" else ["llvm"]
    cases = []
    for b in backends:
        for text, of, inputs in CACHE_CASES:
            cases.append({"cid": len(cases), "assignment": text, "output_format": of, "backend": b,
                          "inputs": [[n, {"format": f, "dims": d, "entries": e}] for n, f, d, e in inputs]})
    res, err = run_mode(chk, {"mode": "cache", "cases": cases})
    if res is None:
        chk.broken.append({"kind": "harness", "what": "c15_run.py cache failed", "stderr": err})
        return
    for c in cases:
        r = res["cases"][str(c["cid"])]
        if "error" in r["first"]:
            chk.count("cache:refused:" + r["first"]["error"])
            if not r["equal"]:
                report(chk, "a request is refused or not depending on the state of the cache", {"kind": "cache", "case": c, "python": r})
            continue
        chk.case(("cache", c["assignment"], c["output_format"], c["backend"], c["inputs"]))
        chk.count("cache:" + ("equal" if r["equal"] else "DIFFERENT"))
        if not r["equal"]:
            report(chk, "a result obtained through the kernel cache differs from a freshly compiled kernel's",
                          {"kind": "cache", "case": c, "python": r})
    chk.count("cache_hits_in_warm_pass", res["hits_warm"])
    refused = sum(1 for c in cases if "error" in res["cases"][str(c["cid"])]["first"])
    if res["hits_warm"] != len(cases) - refused or res["misses_warm"] != refused:
        chk.note(f"warm pass: {res['hits_warm']} hits / {res['misses_warm']} misses for {len(cases)} evaluations")


def run(chk: Check):
    chk.rule = ("requests = (assignment template, formats handed over: none / all / all but one / in another dict "
                "order) x every non-empty subset of {assemble, compute, evaluate} x {c, llvm}; each generated in fresh "
                "processes under several PYTHONHASHSEEDs and in three request orders.  Distinct by the whole request. "
                "Plus: desugared trees per seed vs model, Problem eq/hash pairs differing in one respect, make_problem "
                "cases, an lru history over 153 keys incl. near-duplicates, warm/cold evaluations.")
    chk.trusted += [
        "hand models coq/model/{ExprAst,Desugar}.v tied to /repo by correspondence and by regeneration + equivalence proof (TIE desugar, variables, index_participants); Problem.v by correspondence only",
        "Python set iteration = arbitrary permutation (oracle); functools.lru_cache = LRU list of 128 entries "
        "keyed by __hash__/__eq__ (model/Problem.v) -- tied by the identity pattern of a request history",
        "graph construction, IR generation and printing are NOT modelled for C15: their determinism is shown by "
        "byte-comparison across processes / hash seeds / orders only",
        "typer CliRunner stands for the command line",
    ]
    import time
    t0 = time.time()
    timings = {}
    chk.extra["timings_s"] = timings
    chk.coq_props()
    timings["coq_props"] = round(time.time() - t0, 1)

    # corpus first
    for f in sorted((VERIF / "corpus" / "C15").glob("*.json")):
        try:
            rc = replay(chk, json.loads(f.read_text()), quiet=True)
            chk.count("corpus_cases")
            if rc:
                report(chk, "corpus case fails again", {"corpus": f.name, **json.loads(f.read_text())})
        except Exception as e:  # noqa: BLE001
            chk.note(f"corpus file {f.name} unreadable: {e}")

    import random
    rngs = {n: random.Random(chk.rng.getrandbits(64)) for n in ("sweep", "codegen", "cli", "eq", "lru")}
    reqs = build_requests(chk, rngs["sweep"])
    bg = ThreadPoolExecutor(max_workers=3)
    f_eq = bg.submit(part_eqhash, chk, rngs["eq"])
    f_lru = bg.submit(part_lru, chk, rngs["lru"])
    f_cache = bg.submit(part_cache, chk)
    results, orders = part_codegen(chk, reqs, rngs["codegen"])
    timings["codegen"] = round(time.time() - t0, 1)
    ref = results.get(("0", "given"))
    if ref is not None:
        part_desugar(chk, results)
        timings["desugar"] = round(time.time() - t0, 1)
        part_cli(chk, reqs, ref, rngs["cli"])
        timings["cli"] = round(time.time() - t0, 1)
    for f in (f_eq, f_lru, f_cache):
        f.result()
    bg.shutdown()
    timings["all"] = round(time.time() - t0, 1)
    ok_reqs = [r for r in reqs if ref and ref["texts"].get(str(r["rid"]), {}).get("ok")]
    for r in ok_reqs[:3]:
        chk.sample({"request": r, "sha256": ref["texts"][str(r["rid"])]["sha"], "identical_in_processes": len(results)})
    chk.extra["searcher"] = "the sweep above is the searcher (always run); replay = request, two (seed, order) runs, diff"

    # tie to the source by regeneration: the listed definitions are re-translated from /repo by py2coq on
    # every run and PROVED equal to the hand models (coq/props/TIE.v), plus a translator self-check
    from props._tie import run_tie
    run_tie(chk, ['desugar', 'variables', 'index_participants', 'problem', 'glue', 'compose'])


def replay(chk: Check, payload, quiet=False):
    kind = payload.get("kind")
    if kind == "codegen":
        r = payload["request"]
        texts = []
        for run in (payload["run_a"], payload["run_b"]):
            hist = [q for q in run.get("generated_before", []) if q["rid"] != r["rid"]]
            res, err = run_mode(chk, {"mode": "codegen", "requests": hist + [r], "order": [q["rid"] for q in hist] + [r["rid"]],
                                      "want_text": [r["rid"]], "assignments": []}, seed=str(run["seed"]))
            texts.append((res or {}).get("texts", {}).get(str(r["rid"]), {}))
        a, b = texts
        same = a.get("ok") == b.get("ok") and a.get("sha") == b.get("sha")
        if not quiet:
            print("request:", json.dumps(r))
            print(f"seed {payload['run_a']['seed']}: {a.get('sha') or a.get('cls')}   seed {payload['run_b']['seed']}: {b.get('sha') or b.get('cls')}")
            if not same:
                diff = difflib.unified_diff((a.get("text") or "").splitlines(), (b.get("text") or "").splitlines(),
                                            f"seed {payload['run_a']['seed']}", f"seed {payload['run_b']['seed']}", lineterm="", n=2)
                print("\n".join(list(diff)[:80]))
                print("(each run regenerated the up-to-20 requests that preceded this one in its order:",
                      payload["run_a"].get("order"), "vs", payload["run_b"].get("order"), ")")
        return 0 if same else 1
    if kind == "cli":
        r = payload["request"]
        res, err = run_mode(chk, {"mode": "cli", "requests": [r], "scratch": str(BUILD / "c15_cli" / "replay")})
        e = (res or {}).get(str(r["rid"]), {})
        bad = (e.get("lib_ok") and not (e.get("stdout_is_text_nl") and e.get("file_is_text"))) or \
              (not e.get("lib_ok") and (e.get("exit") == 0 or e.get("file_written")))
        if not quiet:
            print("tensora", " ".join(repr(a) for a in e.get("args", [])))
            if e.get("lib_text") is not None:
                diff = difflib.unified_diff(e["lib_text"].splitlines(), (e.get("stdout") or "").splitlines(), "library", "cli stdout", lineterm="", n=2)
                print("\n".join(list(diff)[:80]))
            print(json.dumps({k: v for k, v in e.items() if k not in ("stdout", "file", "lib_text")}))
        return 1 if bad else 0
    if kind in ("eqhash", "make_problem", "lru", "cache"):
        if not quiet:
            print(json.dumps(payload, indent=1)[:4000])
            print("re-run: ./check C15 (this part of the sweep is deterministic and takes seconds)")
        if kind == "eqhash":
            p = payload["pair"]
            res, _ = run_mode(chk, {"mode": "eqhash", "pairs": [p], "make_problem": []})
            r = (res or {}).get("pairs", [{}])[0]
            if not quiet:
                print("now:", r)
            return 1 if r.get("eq") and (p["a1"] != p["a2"] or p["f1"] != p["f2"]) else 0
        if kind == "cache":
            res, _ = run_mode(chk, {"mode": "cache", "cases": [payload["case"]]})
            r = (res or {}).get("cases", {}).get(str(payload["case"]["cid"]), {})
            if not quiet:
                print("now:", json.dumps(r)[:1500])
            return 0 if r.get("equal") else 1
        return 1
    print("replay: no concrete input in this file:", json.dumps(payload)[:3000])
    return 1
