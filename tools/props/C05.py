"""C05 -- generated kernels are memory-safe, leave inputs untouched and terminate.

Theorems (props/C05.v): on the IR abstract machine a kernel that returns never changed an input
(for every IR program), initial states are well-formed, and a successful load/store is in bounds,
live and initialised.  Observation (this file): the real evaluate / assemble / compute kernels of a
sweep of problems x formats x inputs x initial capacities {1,2,3,default} are run on the machine,
which checks every access, int32 range, finiteness and a step budget; the final output must equal
the LLVM JIT's arrays with exact block lengths."""

from __future__ import annotations

from props._machine import run_mgen
from vlib.core import known_for


def run(chk):
    quick = chk.tier == "quick"
    chk.rule = ("sweep.TEMPLATES x formats (exhaustive when small, seeded sample otherwise) x index sizes {0,1,2,3} x "
                "sparsity patterns (empty/full/random/explicit zeros) x initial capacities; kernels evaluate, and "
                "assemble;compute histories; distinct = (assignment, formats, inputs, kind, capacity)")
    chk.trusted += [
        "Coq 8.16.1 kernel; vm_compute",
        "IR abstract machine spec/IRSem.v (hand-written specification; agreement with gcc/LLVM checked by C06)",
        "IR dumper tools/harness/irdump.py and translator tools/py2coq (gen/IRAst.v)",
        "the per-kernel claim 'returns on the machine' is observed on swept inputs only (exploration), not proved for all inputs",
    ]
    ok = chk.regen(["IRAst.v"])
    if ok:
        chk.coq_props()
    chk.coq_make(["spec/IRRun.vo"])
    caps = ["1", "2", None] if quick else ["1", "2", "3", None]
    total_fail = 0
    for cap in caps:
        cfg = {"seed": chk.seed * 31 + (int(cap) if cap else 7), "kinds": ["eval", "hist"],
               "fmt_cap": 3 if quick else 10, "n_inputs": 2 if quick else 4,
               "max_problems": 60 if quick else 600, "per_shard": 8, "fuel": 400000}
        index, failing = run_mgen(chk, f"cap{cap or 'default'}", cfg, cap)
        if index is None:
            continue
        for e in index.get("impl_errors", []) + index.get("generator_errors", []):
            chk.violation("kernel generation or execution raised an unexpected exception",
                          dict(e, capacity=cap))
        for meta, verdict in failing:
            total_fail += 1
            chk.violation(f"kernel run on the IR abstract machine ends with {verdict} (capacity {cap or 'default'})",
                          {"assignment": meta["assignment"], "formats": meta["formats"], "inputs": meta["inputs"],
                           "kind": meta["kind"], "capacity": cap, "machine_verdict": verdict,
                           "expected_from_llvm": meta.get("expected"), "shard": meta["shard"], "case_index": meta["case_index"]})
        if index["shards"] and index["shards"][0]["cases"]:
            m = index["shards"][0]["cases"][0]
            chk.sample({"assignment": m["assignment"], "formats": m["formats"], "inputs": m["inputs"], "capacity": cap, "kind": m["kind"]})
    chk.extra["initial_capacities"] = [c or "default(2^20)" for c in caps]


def replay(chk, payload):
    import json
    print(json.dumps(payload, indent=1)[:4000])
    return 0
