"""C05 -- generated kernels are memory-safe, leave inputs untouched and terminate.

Theorems (props/C05.v): on the IR abstract machine a kernel that returns never changed an input
(for every IR program), initial states are well-formed, and a successful load/store is in bounds,
live and initialised.  Observation (this file): the real evaluate / assemble / compute kernels of a
sweep of problems x formats x inputs x initial capacities {1,2,3,default} are run on the machine,
which checks every access, int32 range, finiteness and a step budget; the final output must equal
the LLVM JIT's arrays with exact block lengths."""

from __future__ import annotations

from props._machine import run_mgen
from vlib.core import known_for


# problems whose output has the growth/shrink paths of every shape: compressed above dense,
# compressed below dense, permuted orderings, contraction buckets
GROWTH = []
for _out in ("sd", "ss", "ds", "d1s0", "s1s0", "s1d0"):
    for _in in ("ds", "dd"):
        GROWTH.append(["a(i,j) = b(i,j)", {"a": _out, "b": _in}])
for _out in ("sds", "ssd", "sdd", "dss", "dsd", "d2d1s0", "s2d0s1"):
    GROWTH.append(["a(i,j,k) = b(i,j,k)", {"a": _out, "b": "ddd"}])
for _out in ("ss", "sd", "ds"):
    GROWTH.append(["a(i,j) = b(i,k) * c(k,j)", {"a": _out, "b": "ds", "c": "ds"}])
GROWTH.append(["a(i) = b(i,j) * c(j)", {"a": "s", "b": "ds", "c": "d"}])
GROWTH.append(["a(i,j) = b(i,j) + c(i,j)", {"a": "sd", "b": "ds", "c": "ss"}])


def run(chk):
    quick = chk.tier == "quick"
    chk.rule = ("sweep.TEMPLATES x formats (exhaustive when small, seeded sample otherwise) x index sizes {0,1,2,3} x "
                "sparsity patterns (empty/full/random/explicit zeros) x initial capacities; kernels evaluate, and "
                "assemble;compute histories; distinct = (assignment, formats, inputs, kind, capacity)")
    chk.trusted += [
        "Coq 8.16.1 kernel; vm_compute",
        "IR abstract machine spec/IRSem.v (hand-written specification; agreement with gcc/LLVM checked by C06)",
        "IR dumper tools/harness/irdump.py and translator tools/py2coq (gen/IRAst.v)",
        "the per-kernel claim 'returns on the machine' is observed on swept inputs only (exploration), not proved for all inputs",
        "tools/interpose/redzone.c (LD_PRELOAD allocator with canaries) observing the LLVM-compiled kernels: evidence, not proof",
    ]
    ok = chk.regen(["IRAst.v"])
    if ok:
        chk.coq_props()
    chk.coq_make(["spec/IRRun.vo"])
    caps = ["1", "2", None] if quick else ["1", "2", "3", None]
    total_fail = 0
    for cap in caps:
        cfg = {"seed": chk.seed * 31 + (int(cap) if cap else 7), "kinds": ["eval", "hist"],
               "fmt_cap": 4 if quick else 10, "n_inputs": 2 if quick else 4,
               "max_problems": (len(GROWTH) + 70) if quick else 600, "per_shard": 8, "fuel": 400000,
               "priority": GROWTH if cap else GROWTH[:6]}
        index, failing = run_mgen(chk, f"cap{cap or 'default'}", cfg, cap)
        if index is None:
            continue
        for e in index.get("impl_errors", []) + index.get("generator_errors", []):
            chk.violation("kernel generation or execution raised an unexpected exception",
                          dict(e, capacity=cap))
        for meta, verdict in failing:
            total_fail += 1
            chk.violation(f"kernel run on the IR abstract machine ends with {verdict} (capacity {cap or 'default'})",
                          {"assignment": meta["assignment"], "formats": meta["formats"], "inputs": meta["inputs"],
                           "kind": meta["kind"], "capacity": cap, "machine_verdict": verdict,
                           "expected_from_llvm": meta.get("expected"), "shard": meta["shard"], "case_index": meta["case_index"]})
        if index["shards"] and index["shards"][0]["cases"]:
            m = index["shards"][0]["cases"][0]
            chk.sample({"assignment": m["assignment"], "formats": m["formats"], "inputs": m["inputs"], "capacity": cap, "kind": m["kind"]})
    chk.extra["initial_capacities"] = [c or "default(2^20)" for c in caps]
    # static certificate on the real IR of every swept kernel: no store can ever target an input
    # (CERT_input_safe_sound: for ALL inputs the kernel never even attempts a write into an input)
    from props._certs import cert_props, run_certs
    cert_props(chk)
    run_certs(chk, ["input_safe"], priority=GROWTH)

    # growth paths: the regenerated emitters' capacity tests / doubling reallocations refine model/Append.v's
    # grow steps on the IR machine (coq/props/TIE_append.v)
    from props._tie import run_tie
    run_tie(chk, ["append", "genir"])
    redzone_sweep(chk, caps)
    if not quick:
        asan_sweep(chk)


def redzone_sweep(chk, caps):
    """the REAL LLVM-compiled kernels under the red-zone allocator (LD_PRELOAD): a write past the end of an array the
    kernel allocated is reported when the block is resized or released -- observes the lowering of the capacity tests
    (_ir_to_llvm.py) which the IR machine cannot see"""
    import json
    from concurrent.futures import ThreadPoolExecutor

    from vlib.core import BUILD, GUARD, PY, VERIF, impl_env, sh

    so = BUILD / "interpose" / "libredzone.so"
    rc, out, err = sh(["bash", str(VERIF / "tools" / "interpose" / "build_redzone.sh")], timeout=120)
    if not so.exists():
        chk.broken.append({"kind": "harness", "what": "red-zone allocator did not build", "stderr": (out + err)[-800:]})
        return
    base = BUILD / "redzone"
    base.mkdir(parents=True, exist_ok=True)
    quick = chk.tier == "quick"

    def one(cap):
        log = base / f"rz_{chk.tier}_{cap or 'default'}.log"
        if log.exists():
            log.unlink()
        cfg = {"seed": chk.seed * 53 + (int(cap) if cap else 9), "priority": GROWTH if cap else GROWTH[:4],
               "max_problems": (len(GROWTH) + 40) if quick else 400, "n_inputs": 2 if quick else 3, "fmt_cap": 2 if quick else 5}
        env = impl_env({GUARD: cap or "", "LD_PRELOAD": str(so), "REDZONE_LOG": str(log), "REDZONE_POISON": "1"})
        if not cap:
            env.pop(GUARD, None)
        r = sh([PY, "-B", str(VERIF / "tools" / "harness" / "c05_redzone.py")], env=env, input=json.dumps(cfg), timeout=1500, cwd=str(VERIF))
        return cap, r, log

    with ThreadPoolExecutor(max_workers=4) as ex:
        results = list(ex.map(one, caps))
    for cap, (rc, out, err), log in results:
        cases = {}
        done = None
        for l in out.splitlines():
            if l.startswith("CASE "):
                k, js = l[5:].split(" ", 1)
                cases[int(k)] = json.loads(js)
            elif l.startswith("DONE "):
                done = json.loads(l[5:])
        for k, m in cases.items():
            chk.case(("redzone", cap, m["assignment"], json.dumps(m["formats"], sort_keys=True), json.dumps(m["inputs"], sort_keys=True)))
        chk.count(f"redzone_runs_cap={cap or 'default'}", len(cases))
        cur, hits = 0, {}
        if log.exists():
            for l in log.read_text().splitlines():
                if l.startswith("M "):
                    cur = int(l[2:])
                elif l.startswith("OVERFLOW"):
                    hits.setdefault(cur, []).append(l)
        for k, lines in list(hits.items())[:6]:
            m = cases.get(k) or (cases.get(max(cases)) if cases and k == 0 else {})
            chk.violation("the compiled (LLVM JIT) kernel wrote past the end of an array it had allocated (red-zone allocator)",
                          dict(m, capacity=cap, allocator_report=lines[:4], backend="llvm"))
        if done is None or rc != 0:
            last = cases.get(max(cases)) if cases else {}
            if done is None or "error" in (done or {}):
                chk.violation("the process running the compiled kernels under the red-zone allocator crashed or did not finish "
                              f"(exit status {rc}); last case started:", dict(last or {}, capacity=cap, stderr_tail=err[-1500:], done=done))
        elif done.get("overflows_seen_by_allocator") and not hits:
            chk.broken.append({"kind": "harness", "what": "allocator counted overflows but the log has none", "done": done})


def asan_sweep(chk):
    """the same kernels compiled from the emitted C with gcc -fsanitize=address,undefined"""
    import json
    import subprocess
    from concurrent.futures import ThreadPoolExecutor

    from vlib.core import BUILD, GUARD, PY, VERIF, impl_env, sh

    rc, libasan, _ = sh(["gcc", "-print-file-name=libasan.so"])
    libasan = libasan.strip()
    base = BUILD / "asan"
    base.mkdir(parents=True, exist_ok=True)

    def one(k):
        d = base / f"w{k}"
        d.mkdir(exist_ok=True)
        cfg = {"seed": chk.seed * 101 + k, "max_problems": 6, "n_inputs": 2, "fmt_cap": 3, "builddir": str(d)}
        env = impl_env({GUARD: "1" if k % 2 == 0 else "2", "LD_PRELOAD": libasan,
                        "ASAN_OPTIONS": "detect_leaks=0:exitcode=99", "UBSAN_OPTIONS": "halt_on_error=1:print_stacktrace=1"})
        return k, sh([PY, "-B", str(VERIF / "tools" / "harness" / "c05_asan.py")], env=env, input=json.dumps(cfg), timeout=2400, cwd=str(VERIF))

    with ThreadPoolExecutor(max_workers=6) as ex:
        results = list(ex.map(one, range(6)))
    total = 0
    for k, (rc, out, err) in results:
        cases = [l[5:] for l in out.splitlines() if l.startswith("CASE ")]
        res = [l[7:] for l in out.splitlines() if l.startswith("RESULT ")]
        total += len(cases)
        for c in cases:
            chk.case(("asan", c))
        if rc != 0 or not res:
            last = json.loads(cases[-1]) if cases else {}
            chk.violation("kernel compiled from the emitted C with -fsanitize=address,undefined was stopped by the sanitizer (or crashed)",
                          dict(last, exit_code=rc, sanitizer_report_tail=err[-3000:]))
            continue
        r = json.loads(res[0])
        for m in r["mismatches"]:
            chk.violation("kernel compiled from the emitted C (sanitizer build) differs from the LLVM JIT result", m)
    chk.count("asan_kernel_runs", total)


def replay(chk, payload):
    import json
    print(json.dumps(payload, indent=1)[:4000])
    return 0
