"""TIE entry for the COMPOSITION of the TIE layers across their borders (auto-discovered by props/_tie.py):
(1) grammar + problem (the regenerated Assignment.__post_init__ is the hook of the regenerated grammar),
(2) operators + deparse + grammar (the emitted assignment string parses back to the request tree),
(3) glue + problem + grammar (the CLI body over regenerated library functions).
No translator of its own: "gen" is the union of what the composed layers need.
Suggested calls: run_tie(chk, ["compose"]) in C12 (parser with the real __post_init__), C11 (the text handed to
evaluate_tensora denotes), C15 (CLI request = library request, unmentioned tensors dense)."""
TIE_EXTRA = {
    "compose": {
        "gen": ["ExhaustAst.v", "Exhaust.v", "Deparse.v", "Desugar.v", "IterGraphs.v", "IRAst.v", "Peephole.v", "Names.v",
                "AppendGen.v", "GlueGen.v", "GrammarGen.v", "TensorMethod.v", "ProblemGen.v", "TensorOps.v"],
        "vo": "proofs/Compose_all.vo",
        "theorems": ["compose_validate_check", "compose_gen_post_is_validate", "compose_grammar_assignment_equiv",
                     "compose_grammar_assignment_equiv_model", "compose_grammar_parse_sound_complete",
                     "compose_grammar_parse_deparse", "compose_grammar_assignment_total", "compose_grammar_roundtrip_int",
                     "compose_grammar_parsed_is_object", "compose_text_parses", "compose_request_text_parses",
                     "compose_request_text_printed", "compose_binary_text", "compose_matmul_text", "compose_methods_text",
                     "compose_format_text_parses", "compose_binary_format", "compose_matmul_format",
                     "compose_cli_conversions", "compose_cli_parsers_total", "compose_cli_request_eq",
                     "compose_cli_effective", "compose_cli_all_dense"],
        "source": "expression/_parser.py + expression/ast.py (Assignment.__post_init__) + tensor.py (operators) + "
                  "format/_parser.py + problem.py (make_problem) + cli.py, composed: the regenerated functions of TIE "
                  "grammar / problem / operators / deparse / glue plugged into each other",
        "model": "coq/model/Parser.v (validate) = coq/model/ExprAst.v (assignment_check) through the tree conversion; "
                 "coq/model/Operators.v (requests) ; coq/model/Problem.v (make_problem)",
    },
}
