"""C13 — kernel-allocated storage is freed exactly once, after its last user.

Proof: coq/props/C13.v (theorems about the protocol model coq/model/Ownership.v, all histories).
Correspondence: every generated history is run against the real library in a subprocess under the
LD_PRELOAD allocator interposer (tools/interpose); after each step the free count of every array a
kernel allocated so far is compared with the model's prediction (computed by vm_compute in coqc).
Searcher: the driver also checks the property itself on every history, without the model (never a
double free, never a free while a name still reaches the structure, exactly one free after the last
name is gone and gc.collect()).  A failure of that oracle is a VIOLATION with the history as replay.
"""
from __future__ import annotations

import concurrent.futures as cf
import json
import os
import re
import shutil
import sys
from collections import Counter
from pathlib import Path

from vlib.core import BUILD, PY, VERIF, Check, impl_env, sh

sys.path.insert(0, str(VERIF / "tools" / "harness"))
import c13_gen as gen  # noqa: E402

SO = BUILD / "interpose" / "libinterpose.so"
WORK = BUILD / "c13"
DRIVER = VERIF / "tools" / "harness" / "c13_driver.py"


def ensure_interposer() -> str | None:
    src = VERIF / "tools" / "interpose" / "interpose.c"
    if SO.exists() and SO.stat().st_mtime >= src.stat().st_mtime:
        return None
    rc, out, err = sh([str(VERIF / "tools" / "interpose" / "build.sh")], timeout=300)
    if rc != 0 or not SO.exists():
        return (out + err)[-2000:]
    return None


# ---------------------------------------------------------------------------- running histories

def run_batch(tag: str, backend: str, cap: str | None, cases: list[dict], timeout: int) -> dict:
    """Run cases (dicts with id, ops) in one or more driver processes; survive crashes.

    Returns {"results": {id: result}, "crashes": [ {id, rc, stderr} ]}."""
    d = WORK / tag
    d.mkdir(parents=True, exist_ok=True)
    results: dict = {}
    crashes = []
    todo = list(cases)
    attempt = 0
    while todo and attempt < 4:
        attempt += 1
        cf_ = d / f"cases{attempt}.json"
        of_ = d / f"out{attempt}.jsonl"
        if of_.exists():
            of_.unlink()
        cf_.write_text(json.dumps({"backend": backend, "cases": todo}))
        extra = {"LD_PRELOAD": str(SO), "INTERPOSE_LOG": str(d / f"events{attempt}.log")}
        env = impl_env(extra)
        if cap:
            env["TENSORA_VERIF_INITIAL_CAPACITY"] = cap
        else:
            env.pop("TENSORA_VERIF_INITIAL_CAPACITY", None)
        rc, out, err = sh([PY, "-B", str(DRIVER), str(cf_), str(of_)], timeout=timeout, env=env, cwd=str(VERIF))
        begun = None
        if of_.exists():
            for line in of_.read_text().splitlines():
                try:
                    r = json.loads(line)
                except ValueError:
                    continue
                if r.get("begin"):
                    begun = r["id"]
                else:
                    results[r["id"]] = r
                    begun = None
        if rc == 0 and all(c["id"] in results for c in todo):
            break
        # the driver died: the history that had begun (or the first one) is the culprit
        culprit = begun if begun is not None else next((c["id"] for c in todo if c["id"] not in results), None)
        crashes.append({"id": culprit, "rc": rc, "stderr": err[-1500:]})
        todo = [c for c in todo if c["id"] not in results and c["id"] != culprit]
    return {"results": results, "crashes": crashes}


def coq_compare(chk: Check, tag: str, items: list[tuple[list, list]]) -> tuple[bool, list[int], str]:
    """items = [(ops, observed steps)]; returns (ran, indexes that differ from the model, output)."""
    lines = [f"({gen.coq_ops(ops)}, {gen.coq_obs(steps)})" for ops, steps in items]
    text = (
        "From TV Require Import model.Ownership.\nFrom Coq Require Import List. Import ListNotations.\n"
        "Definition cases : list (list op * list (outcome * list nat)) := [\n" + ";\n".join(lines) + "].\n"
        "Eval vm_compute in failing_from 0 cases.\n"
    )
    ok, out = chk.coq_eval(f"c13_{tag}", text, timeout=600)
    if not ok:
        return False, [], out[-1500:]
    m = re.search(r"=\s*\[([^\]]*)\]", out)
    if not m:
        return False, [], out[-1500:]
    body = m.group(1).strip()
    idx = [int(x) for x in body.split(";")] if body else []
    return True, idx, out


def model_prediction(chk: Check, ops: list) -> str:
    text = (
        "From TV Require Import model.Ownership.\nFrom Coq Require Import List. Import ListNotations.\n"
        f"Eval vm_compute in run_counts true init {gen.coq_ops(ops)}.\n"
    )
    ok, out = chk.coq_eval("c13_predict", text, timeout=300)
    return " ".join(out.split())[:3000]


# ---------------------------------------------------------------------------- the check

def make_cases(chk: Check) -> list[dict]:
    """[{ops, backend, cap, origin}] in the order they are run."""
    thorough = chk.tier == "thorough"
    rng = chk.rng
    cases = []

    def add(ops, backend, cap, origin):
        cases.append({"ops": ops, "backend": backend, "cap": cap, "origin": origin})

    # corpus first
    cdir = VERIF / "corpus" / "C13"
    if cdir.is_dir():
        for p in sorted(cdir.glob("*.json")):
            try:
                c = json.loads(p.read_text())
            except ValueError:
                continue
            for backend in ("llvm", "cffi") if c.get("both_backends") else (c.get("backend", "llvm"),):
                add(c["ops"], backend, c.get("cap"), f"corpus/{p.name}")

    # bounded-exhaustive skeletons (2 names), shapes and the initial array capacity drawn from the seed
    for sk in gen.enumerate_skeletons(5, 2, False):
        add(gen.assign_shapes(sk, rng), "llvm", rng.choice([None, None, "2"]), "exhaustive<=5/2names")
    if thorough:
        # length 6 over two names (381 799 skeletons) and length <= 5 over three names: seeded samples
        six = [sk for sk in gen.enumerate_skeletons(6, 2, False) if len(sk) == 6]
        for sk in rng.sample(six, 50000):
            add(gen.assign_shapes(sk, rng), "llvm", rng.choice([None, "2"]), "sample-of-all-length6/2names")
        three = [sk for sk in gen.enumerate_skeletons(5, 3, False) if gen.mentions(sk, 2)]
        for sk in rng.sample(three, 15000):
            add(gen.assign_shapes(sk, rng), "llvm", rng.choice([None, "2"]), "sample-of-all-length<=5/3names")
    # rich random histories: 3 names, two-input evaluations, same-name rebinding, ill-formed operations
    for _ in range(6000 if thorough else 2500):
        add(gen.random_history(rng, rng.randint(4, 9), 3), "llvm", rng.choice([None, "2", "1"]), "random-rich")
    # the cffi back end: C compilation costs ~1 s per distinct kernel, so few distinct kernels
    cffi_len = 4 if thorough else 3
    for sk in gen.enumerate_skeletons(cffi_len, 2, False):
        ops = gen.assign_shapes(sk, rng)
        if not thorough:  # quick: two output shapes only -> few distinct kernels
            ops = gen.map_shapes(ops, {"s1": "s0", "e": "s0", "0": "d"})
        add(ops, "cffi", None, f"exhaustive<= {cffi_len}/2names/cffi")
    # evaluations through TensorMethod(Problem(...)) with the output format listed last
    for sk in gen.enumerate_skeletons(4 if thorough else 3, 2, False):
        add(gen.assign_shapes(sk, rng), "direct", None, "exhaustive/2names/direct-problem")
    for _ in range(600 if thorough else 150):
        add(gen.random_history(rng, rng.randint(3, 7), 3), "direct", rng.choice([None, "2"]), "random/direct-problem")
    if thorough:
        for _ in range(600):
            h = gen.random_history(rng, rng.randint(4, 8), 3)
            h = [op for op in h if not (op[0] == "eval" and len(op[2]) > 1)]
            if h and h[0][0] in ("eval", "build"):
                add(h, "cffi", rng.choice([None, "2"]), "random/cffi")
    for i, c in enumerate(cases):
        c["id"] = i
    return cases


def run(chk: Check):
    chk.rule = (
        "histories over {eval (no/one/two history inputs; output sparse 1 or 2 levels, empty sparse, dense, "
        "scalar), build, alias, structref (a name for the C structure), read, pickle round-trip, del, gc.collect}: "
        "ALL well-formed histories up to length 5 over two names up to renaming (thorough: + 50 000 of the 381 799 of "
        "length 6 and 15 000 of those of length <= 5 over three names), output shapes and "
        "initial array capacity (default / 2 / 1) drawn from the seed, + random histories of length 4-9 over three names "
        "including ill-formed operations, + the cffi back end on short histories; a case is distinct by "
        "(ops, back end, capacity) and non-trivial when at least one kernel-allocated array is tracked"
    )
    chk.trusted += [
        "hand model coq/model/Ownership.v (names, Tensor wrappers, cffi structures, weak dictionary, holders, "
        "blocks) tied to the implementation by correspondence only",
        "CPython reference counting / weakref callback timing, cffi ffi.gc destructor and ffi.new ownership, "
        "glibc malloc/realloc/free (realloc(p,0) releases p): modelled, observed through the interposer, not verified",
        "tools/interpose/interpose.c (LD_PRELOAD interposer: quarantines watched blocks, counts free calls) and "
        "tools/harness/c13_driver.py",
    ]
    chk.extra["partial"] = (
        "theorems are about the protocol model; the runtime (CPython refcounting, weakref callbacks, ffi.gc, glibc) "
        "is tied to it by bounded-exhaustive observation only"
    )
    chk.coq_props()

    err = ensure_interposer()
    if err:
        chk.broken.append({"kind": "harness", "what": "interposer does not build", "output": err})
        return
    if WORK.exists():
        shutil.rmtree(WORK, ignore_errors=True)
    WORK.mkdir(parents=True, exist_ok=True)

    import time
    t0 = time.time()
    cases = make_cases(chk)
    by_id = {c["id"]: c for c in cases}
    # group into batches per (backend, cap); llvm batches of ~4000 histories, cffi one batch per cap
    groups: dict = {}
    for c in cases:
        groups.setdefault((c["backend"], c["cap"]), []).append(c)
    batches = []
    for (backend, cap), cs in groups.items():
        size = 4000 if backend == "llvm" else 100000
        if backend == "cffi" and chk.tier == "thorough":
            size = (len(cs) + 3) // 4
        for i in range(0, len(cs), size):
            batches.append((f"{backend}_{cap or 'dflt'}_{i // size}", backend, cap, cs[i:i + size]))
    timeout = 2400 if chk.tier == "thorough" else 600
    # cffi batches first: they are the slowest
    batches.sort(key=lambda b: (b[1] != "cffi", -len(b[3])))
    results: dict = {}
    crashes = []
    with cf.ThreadPoolExecutor(max_workers=8) as ex:
        futs = {
            ex.submit(run_batch, tag, backend, cap,
                      [{"id": c["id"], "ops": c["ops"], "wf": gen.wellformed_flags(c["ops"])} for c in cs], timeout): tag
            for tag, backend, cap, cs in batches
        }
        for f in cf.as_completed(futs):
            r = f.result()
            results.update(r["results"])
            crashes.extend(r["crashes"])

    t_run = time.time() - t0
    # ---- the property itself (searcher): oracle violations and crashes
    bad = []
    for cid, r in results.items():
        if r["oracle"]:
            bad.append((len(by_id[cid]["ops"]), cid))
    bad.sort()
    kinds = Counter()
    for _, cid in bad:
        for o in results[cid]["oracle"]:
            kinds[o["kind"]] += 1
    for _, cid in bad[:3]:
        c, r = by_id[cid], results[cid]
        chk.violation(
            f"ownership oracle: {r['oracle'][0]['kind']} at {r['oracle'][0]['where']}",
            {"input": {"ops": c["ops"], "backend": c["backend"], "cap": c["cap"]},
             "expected": "every kernel-allocated array: 0 frees while a name reaches its structure, exactly 1 after",
             "actual": {"oracle": r["oracle"], "steps": r["steps"], "final": r["final"]},
             "histories_failing_in_this_run": len(bad), "kinds": dict(kinds), "origin": c["origin"]},
        )
    for cr in crashes[:3]:
        c = by_id.get(cr["id"])
        chk.violation(
            "driver process died while running a history (crash = memory error)",
            {"input": {"ops": c["ops"], "backend": c["backend"], "cap": c["cap"]} if c else None,
             "expected": "exit status 0", "actual": {"rc": cr["rc"], "stderr": cr["stderr"]}},
        )
    missing = [c["id"] for c in cases if c["id"] not in results and c["id"] not in {x["id"] for x in crashes}]
    if missing:
        chk.broken.append({"kind": "harness", "what": "histories without a result", "n": len(missing),
                           "first": by_id[missing[0]]})

    # ---- correspondence with the model
    done = [c for c in cases if c["id"] in results]
    shard = 2000
    shards = [done[i:i + shard] for i in range(0, len(done), shard)]
    mismatches = []

    def cmp(i_s):
        i, cs = i_s
        return i, coq_compare(chk, f"shard{i}", [(c["ops"], results[c["id"]]["steps"]) for c in cs])

    with cf.ThreadPoolExecutor(max_workers=6) as ex:
        for i, (ran, idx, out) in ex.map(cmp, list(enumerate(shards))):
            if not ran:
                chk.broken.append({"kind": "correspondence", "what": "model evaluation failed", "shard": i, "output": out})
                continue
            for j in idx:
                mismatches.append(shards[i][j])
    for c in mismatches[:3]:
        chk.broken.append({
            "kind": "correspondence",
            "what": "free counts after each step differ from the model's prediction",
            "history": c["ops"], "backend": c["backend"], "cap": c["cap"],
            "observed": results[c["id"]]["steps"], "model": model_prediction(chk, c["ops"]),
            "mismatching_histories": len(mismatches),
        })

    chk.extra["phase_seconds"] = {"histories_run": round(t_run, 1), "model_compare": round(time.time() - t0 - t_run, 1)}
    # ---- evidence
    for c in done:
        r = results[c["id"]]
        nblocks = len(r["final"])
        chk.case((c["ops"], c["backend"], c["cap"]), nontrivial=nblocks > 0)
        chk.count("len=%d" % len(c["ops"]))
        chk.count("backend=" + c["backend"])
        chk.count("cap=" + (c["cap"] or "default"))
        chk.count("tracked_blocks", nblocks)
        chk.count("frees_observed", sum(1 for x in r["final"] if x == 1))
        chk.count("origin=" + c["origin"].split("/")[0])
        for op in c["ops"]:
            chk.count("op=" + op[0])
        for oc, _ in r["steps"]:
            chk.count("outcome=" + oc)
    for c in (done[:: max(1, len(done) // 6)])[:6]:
        chk.sample({"ops": c["ops"], "backend": c["backend"], "cap": c["cap"], "observed": results[c["id"]]["steps"]})
    chk.extra["correspondence"] = {
        "histories": len(done), "model_mismatches": len(mismatches), "oracle_failures": len(bad), "crashes": len(crashes),
    }
    if not os.environ.get("C13_KEEP"):
        shutil.rmtree(WORK, ignore_errors=True)

    # tie by regeneration: the ownership functions of _cffi_ownership.py and the tail of TensorMethod.__call__ are
    # re-translated from /repo on every run as effect programs over a modelled cffi/CPython interface
    # (coq/model/OwnershipApi.v) and PROVED to perform model/Ownership.v's take_ownership / eval_call transitions
    # (coq/props/TIE_ownership.v) + self-check against the real functions under real cffi with a recording gc
    from props._tie import run_tie
    run_tie(chk, ["ownership"])


def replay(chk: Check, payload: dict) -> int:
    err = ensure_interposer()
    if err:
        print("interposer does not build:", err)
        return 2
    inp = payload.get("input")
    if not inp:
        print("replay has no concrete history (see 'broken' in the file)")
        return 1
    WORK.mkdir(parents=True, exist_ok=True)
    r = run_batch("replay", inp["backend"], inp.get("cap"),
                  [{"id": 0, "ops": inp["ops"], "wf": gen.wellformed_flags(inp["ops"])}], 600)
    shutil.rmtree(WORK / "replay", ignore_errors=True)
    if r["crashes"]:
        print("history:", json.dumps(inp["ops"]))
        print("CRASH:", r["crashes"][0])
        return 1
    res = r["results"][0]
    print("history:", json.dumps(inp["ops"]), "backend:", inp["backend"], "cap:", inp.get("cap"))
    for op, (oc, counts) in zip(inp["ops"], res["steps"]):
        print(f"  {op!s:40} -> {oc:10} free counts {counts}")
    print("  after deleting every name + gc.collect():", res["final"])
    print("model:", model_prediction(chk, inp["ops"]))
    if res["oracle"]:
        for o in res["oracle"]:
            print("ORACLE VIOLATION:", o)
        return 1
    print("oracle: ok")
    return 0
