"""TIE entry for the regenerated desugaring (imported by props/_tie.py)."""
TIE_DESUGAR = {
    "desugar": {
        "gen": ["Deparse.v", "Desugar.v"],
        "vo": "proofs/GenDesugar_equiv.vo",
        "theorems": ["gen_desugar_equiv", "gen_desugar_assignment_equiv", "gen_desugar_correct"],
        "source": "desugar/ast.py, desugar/_desugar_expression.py",
        "model": "coq/model/DesugarSem.v (desugar with flag true = the repaired function)",
    },
}
