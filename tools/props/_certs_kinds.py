"""Relational kernel-kind certificate (coq/props/CERT_kinds.v) evaluated on the REAL IR.

    from props._certs_kinds import kinds_props, run_kinds_cert
    kinds_props(chk)                           # builds props/CERT_kinds.v, records its theorems
    run_kinds_cert(chk, priority=SHAPES)       # C04

`run_kinds_cert` generates evaluate / assemble / compute of ~100 (quick; all of the sweep in
thorough) problems with the library under test (tools/harness/certgen_kinds.py), writes each
triple as Coq terms and lets coqc decide by vm_compute

  kinds_assemble   assemble_cert fe fa = true    CERT_kinds_assemble_sound / _runs: whenever evaluate
                   returns, assemble returns with the same fuel and builds the same structure, for
                   ALL inputs (and whatever the input values are)
  kinds_compute    compute_cert3 fe fc = true    CERT_kinds_compute_sound / _values: from any pair of
                   states where the inputs are the same and out->vals of the compute side is a live
                   double block, whenever evaluate returns, compute (same fuel) returns the same value
                   and every value evaluate stored is in that block -- or compute fails with
                   EOutOfBounds, nothing else; for ALL inputs

With input_safe_cert on assemble and compute_store_cert on compute (both evaluated by props/_certs.py)
the harness-level theorems follow: CERT_kinds_history (run_check fe ts = VOk -> run_history
[assemble; compute] ts in {VOk, VFail EOutOfBounds}) and CERT_kinds_history_revalued (the hist3 shape
assemble; compute; compute(re-valued); compute(re-valued)).

A `false` (or a shard that does not evaluate) goes to chk.broken (kind `certificate`, problem and
kernel named): a broken obligation, not by itself a violation; the calling check's history sweep
(assemble;compute == evaluate on the machine) is the searcher.
"""

from __future__ import annotations

import json

from props._certs import parse_false
from vlib.core import BUILD

THEOREM = {
    "kinds_assemble": "CERT_kinds_assemble_sound/_runs and CERT_kinds_history(_revalued): whenever evaluate returns, assemble returns (same fuel) with the same output structure, for all inputs",
    "kinds_compute": "CERT_kinds_compute_sound/_values: whenever evaluate returns, compute (same fuel, started on a live value block, same inputs) returns with every value evaluate stored -- or fails with EOutOfBounds only -- for all inputs; CERT_kinds_history(_revalued): assemble;compute(;compute re-valued) == evaluate on the harness",
}


def kinds_props(chk) -> bool:
    """Build coq/props/CERT_kinds.v (+ dependencies), record its theorems and their assumptions."""
    return chk.coq_props("props/CERT_kinds.v")


def run_kinds_cert(chk, priority=None, max_problems: int | None = None, tag: str = "kinds",
                   workers: int = 6, templates=None) -> dict:
    """Evaluate kinds_cert (as its two conjuncts) on the real kernel triples of a sweep.  Returns
    {"problems", "kernels", "cases": {cert: n}, "accepted": {cert: n}, "rejected": [...]} (also in
    chk.extra["certificates"][tag])."""
    quick = chk.tier == "quick"
    if max_problems is None:
        max_problems = 100 if quick else 400
    d = BUILD / "cases" / f"{chk.prop.lower()}_{chk.tier}_{tag}"
    d.mkdir(parents=True, exist_ok=True)
    for f in d.glob("*"):
        f.unlink()
    cfg = {"seed": chk.seed * 31 + 7, "outdir": str(d), "prefix": "k", "max_problems": max_problems,
           "fmt_cap": 3 if quick else 8, "per_shard": 15, "priority": priority or []}
    if templates:
        cfg["templates"] = templates
    ok, _ = chk.coq_make(["proofs/Certs3Defs.vo"])
    if not ok:
        chk.broken.append({"kind": "proof", "what": "the certificate definitions coq/proofs/Certs3Defs.v do not build"})
        return {}
    rc, out, err = chk.impl("certgen_kinds.py", input=json.dumps(cfg), timeout=1800)
    if rc != 0:
        chk.broken.append({"kind": "harness", "what": f"certgen_kinds.py failed rc={rc}", "stderr": err[-2000:]})
        return {}
    gen = json.loads(out.strip().splitlines()[-1])
    index = json.loads((d / "k_index.json").read_text())
    res = chk.coq_run_files([str(d / (s["name"] + ".v")) for s in index["shards"]], workers=workers, timeout=1800)
    certs = ("kinds_assemble", "kinds_compute")
    summary = {"problems": gen["problems"], "kernels": gen["kernels"], "skipped": gen["skipped"],
               "cases": {c: 0 for c in certs}, "accepted": {c: 0 for c in certs}, "rejected": []}
    ge = index.get("generator_errors", [])
    if ge:
        chk.count("generator_unexpected_exception", len(ge))
        chk.broken.append({"kind": "certificate", "what": "kernel generation raised an unexpected exception: no IR to certify",
                           "count": len(ge), "examples": ge[:5]})
    for sh in index["shards"]:
        okr, outr = res[str(d / (sh["name"] + ".v"))]
        bad = parse_false(outr) if okr else None
        if bad is None:
            chk.broken.append({"kind": "certificate", "what": "kinds certificate shard did not evaluate (IR outside the generated inductives?)",
                               "shard": f"{d.name}/{sh['name']}.v", "output": outr[-1500:]})
            continue
        bad = set(bad)
        for i, meta in enumerate(sh["cases"]):
            c = meta["cert"]
            summary["cases"][c] += 1
            chk.case(("cert", c, meta["assignment"], json.dumps(meta["formats"], sort_keys=True), meta["kernel"]))
            chk.count("cert_" + c)
            if i in bad:
                m = dict(meta, shard=f"{d.name}/{sh['name']}.v", case_index=i)
                summary["rejected"].append(m)
                chk.broken.append({"kind": "certificate", "certificate": c, "theorem_lost": THEOREM[c],
                                   "what": f"{c}: the real {meta['kernel']} kernel is not evaluate-minus-dropped-statements "
                                           f"(or a kept statement reads what a dropped one changes)",
                                   "assignment": meta["assignment"], "formats": meta["formats"], "kernel": meta["kernel"],
                                   "shard": m["shard"], "case_index": i})
            else:
                summary["accepted"][c] += 1
    chk.extra.setdefault("certificates", {})[tag] = {k: v for k, v in summary.items() if k != "rejected"} | {
        "rejected": summary["rejected"][:20]}
    return summary
