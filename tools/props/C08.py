"""C08 - kernel generation is total: code, or one of the documented refusals.

Proof side   : coq/props/C08.v (theorems about the hand model coq/model/{Graphs,OutputOrder,Names}.v)
Tie          : the model's `generate` / `tensor_method` / first graph / whole list of graphs are compared
               with /repo on a bounded-exhaustive sweep of formats (this file + harness/c08_worker.py)
Oracle       : the property itself, evaluated on /repo without the model: outcome must be code accepted
               by its tool chain or a documented typed refusal; the CLI exits 0/1 without traceback.
Known findings (classified exactly, never hidden): see CLASSIFIERS below.
"""

from __future__ import annotations

import concurrent.futures
import itertools
import json
import keyword
import os
import re
import time
from pathlib import Path

from vlib.core import BUILD, PY, VERIF, impl_env, load_known, sh

KINDS = ["assemble", "compute", "evaluate"]
K1_SITE = "Internal:NotImplementedError@iteration_graph/outputs/_append.py:next_output"
WRITE_SITE = "Internal:RuntimeError@iteration_graph/outputs/_append.py:write_assignment"
LLVM_FILE = "@codegen/_ir_to_llvm.py:"

# --- K-C08-2: identifiers that are C reserved words or names of the prepended header ------------
C11_KEYWORDS = (
    "auto break case char const continue default do double else enum extern float for goto if "
    "inline int long register restrict return short signed sizeof static struct switch typedef "
    "union unsigned void volatile while"
).split()
HEADER_NAMES = ["bool", "true", "false", "NULL", "malloc", "realloc", "free"]
# these are in the family too but cannot be spelled in a request (the name regex has no '_'):
UNSPELLABLE = ["int32_t", "taco_tensor_t", "taco_mode_t", "TACO_MIN", "TACO_MAX", "_Bool", "size_t"]
RESERVED = C11_KEYWORDS + HEADER_NAMES
# --- K-C08-4: names of the runtime functions the LLVM back end keeps in its `locals` dictionary
LLVM_RUNTIME_NAMES = ["malloc", "realloc"]
# --- K-C08-3: BucketOutput.name() "bucket_<id>_<output>" == pos_name/crd_name("bucket", <id>)
BUCKET_TENSOR = "bucket"
BUCKET_OUTPUTS = ["pos", "crd"]

# --- K-C08-5: inspect.Parameter rejects Python keywords as names of input tensors
PY_KEYWORDS = [k for k in keyword.kwlist if re.fullmatch(r"[A-Za-z][A-Za-z0-9]*", k)]
TM_INIT_SITE = "Internal:ValueError@compile/_tensor_method.py:__init__"

VOCAB = ("p i pos crd vals dim capacity end written bucket evaluate compute assemble sum main "
         "free exit abs x0 Ab9 Zz").split()

TEMPLATES = [
    # copies and permutations
    "a(i) = b(i)",
    "A(i,j) = B(i,j)",
    "A(i,j) = B(j,i)",
    "A(i,j,k) = B(i,j,k)",
    "A(i,j,k) = B(j,i,k)",
    "A(i,j,k) = B(k,j,i)",
    "A(i,j,k) = B(k,i,j)",
    # element-wise
    "a(i) = b(i) + c(i)",
    "a(i) = b(i) * c(i)",
    "a(i) = b(i) - c(i)",
    "A(i,j) = B(i,j) + C(i,j)",
    "A(i,j) = B(i,j) * C(i,j)",
    "A(i,j) = B(i,j) + C(j,i)",
    "A(i,j) = B(i,j) + C(i,j) + D(i,j)",
    "a(i) = b(i) + c(i) * d(i)",
    "a(i) = (b(i) + c(i)) * d(i)",
    # contractions
    "a(i) = B(i,j) * c(j)",
    "a(j) = B(i,j) * c(i)",
    "A(i,j) = B(i,k) * C(k,j)",
    "a(i) = B(i,j)",
    "a(j) = B(i,j)",
    "A(i,j) = b(i) * c(j)",
    # contraction + addition (SumNode)
    "a(i) = b(i,j) * c(j) + d(i)",
    "a(i) = d(i) + b(i,j) * c(j)",
    "A(i,j) = B(i,k) * C(k,j) + D(i,j)",
    "a(i) = B(i,j) * c(j) + D(i,k) * e(k)",
    "a(i) = (b(i,j) * c(j) + d(i)) * e(i)",
    "a(i) = b(i) - C(i,j) * d(j)",
    # scalar outputs
    "a() = b(i) * c(i)",
    "a() = B(i,j)",
    "a() = b()",
    "a() = 2",
    "a() = b(i) * c(i) + d()",
    # literals
    "a(i) = 2 * b(i)",
    "a(i) = b(i) + 1",
    "a(i) = 0",
    "a(i) = 2.5",
    "A(i,j) = 0.0 * B(i,j)",
    "A(i,j) = 0 * B(j,i)",
    "a(i) = 3000000000 * b(i)",
    # literals whose product / sum leaves the binary64 range (must still print as valid C)
    "a(i) = 1e200 * 1e200 * b(i)",
    "a(i) = b(i) * (1.7e308 + 1.7e308)",
    "a() = 1e308 * 10",
    "a(i) = 0.5 * 4 * b(i) + 1e-320",
    # repeated tensor
    "A(i,j) = B(i,j) * B(j,i)",
    "a(i) = b(i) * b(i)",
    "A(i,j) = B(i,j) + B(j,i)",
    # diagonal access (typed refusal)
    "a(i) = B(i,i)",
    "A(i,i) = b(i)",
    "a(i) = b(i) * C(j,j)",
    "a(i) = B(i,j) * C(j,i) * D(k,k)",
    # broadcast target (typed refusal for callable kernels only)
    "A(i,j) = b(i)",
    "A(i,j) = b(j)",
    "A(i,j) = 1",
    # order-3 contractions
    "A(i,j) = B(i,j,k) * c(k)",
    "a(i) = B(i,j,k) * C(j,k)",
    "A(i,j,k) = B(i,j,l) * C(l,k)",
    "A(i,j) = B(i,k,l) * C(k,j) * D(l,j)",
    "A(i,j,k) = B(i,j,k) + C(i,j,k)",
    "A(i,j,k) = B(i,j,k) * c(k)",
    "A(i,j,k) = b(i) * c(j) * d(k)",
]

# requests that must be refused with a typed, Result-carried error (CLI: exit 1 + message)
REFUSALS = [
    ("a(i) = a(i) + b(i)", [("a", "d"), ("b", "s")]),          # MutatingAssignmentError
    ("a(i) = b(i,j) + b(j)", [("a", "d"), ("b", "ds")]),       # InconsistentDimensionsError
    ("a(i) = i(i)", [("a", "d"), ("i", "s")]),                 # NameConflictError
    ("a(i) = b(i)", [("a", "dd"), ("b", "s")]),                # IncorrectDimensionsError
    ("a(i) = b(i)", [("a", "d"), ("b", "s"), ("z", "d")]),     # UnusedFormatError
    ("a(i) = b(i)", [("a", "d"), ("b", "d1d1")]),              # InvalidModeOrderingError
    ("a(i) = b(i)", [("a", "d"), ("b", "x")]),                 # ParseError (format)
    ("a(i) = b(i)", [("a", "d"), ("a", "s")]),                 # format mentioned twice (CLI only)
    ("a(i) = ", [("a", "d")]),                                 # ParseError (assignment)
    ("a(i) = b(i) +* c(i)", [("a", "d")]),                     # ParseError
    ("a_b(i) = c(i)", [("c", "d")]),                           # ParseError: '_' is not a name character
    ("a(i) == b(i)", []),                                      # ParseError
]

# templates for the identifier-spelling sweep: {T}/{U}/{V} tensors, {I}/{J} indexes
IDENT_TEMPLATES = [
    ("{T}({I}) = {U}({I})", {"T": "s", "U": "s"}),
    ("{T}({I}) = {U}({I},{J}) * {V}({J})", {"T": "s", "U": "ss", "V": "s"}),
    ("{T}({I}) = {U}({I},{J}) * {V}({J})", {"T": "d", "U": "ds", "V": "d"}),
    ("{T}() = {U}({J}) * {V}({J})", {"T": "", "U": "s", "V": "s"}),
]
IDENT_DEFAULT = {"T": "a", "U": "b", "V": "c", "I": "i", "J": "j"}


# ------------------------------------------------------------------------------------- sweep
def tensors_in(assignment: str) -> list[tuple[str, int]]:
    out: dict[str, int] = {}
    for m in re.finditer(r"([A-Za-z][A-Za-z0-9]*)\s*\(([^()]*)\)", assignment):
        name, args = m.group(1), m.group(2).strip()
        out.setdefault(name, 0 if not args else args.count(",") + 1)
    return list(out.items())


_FMT_CACHE: dict[int, list[str]] = {}


def all_formats(n: int) -> list[str]:
    if n not in _FMT_CACHE:
        out = []
        for modes in itertools.product("ds", repeat=n):
            for perm in itertools.permutations(range(n)):
                if perm == tuple(range(n)):
                    out.append("".join(modes))
                else:
                    out.append("".join(m + str(p) for m, p in zip(modes, perm)))
        _FMT_CACHE[n] = out
    return _FMT_CACHE[n]


def format_combos(chk, tensors, exhaustive_cap: int, sample: int) -> list[tuple[str, ...]]:
    spaces = [all_formats(o) for _, o in tensors]
    total = 1
    for s in spaces:
        total *= len(s)
    if total <= exhaustive_cap:
        return list(itertools.product(*spaces))
    picked: dict[tuple, None] = {}
    picked[tuple("d" * o for _, o in tensors)] = None
    picked[tuple("s" * o for _, o in tensors)] = None
    # single operand templates always contain the documented witness family: dense run then sparse
    while len(picked) < sample:
        picked[tuple(chk.rng.choice(s) for s in spaces)] = None
    return list(picked.keys())


def kind_sets(tier: str, rng, wide: bool) -> list[list[str]]:
    base = [["evaluate"], ["assemble", "compute"], ["assemble", "compute", "evaluate"]]
    if tier == "quick" or not wide:
        return base
    subsets = [list(c) for n in (1, 2, 3) for c in itertools.combinations(KINDS, n)]
    return subsets + [["evaluate", "compute", "assemble"], ["compute", "compute"]]


def build_cases(chk) -> list[dict]:
    quick = chk.tier == "quick"
    cases: list[dict] = []

    def add(assignment, fmts, **kw):
        c = {
            "id": len(cases), "assignment": assignment, "formats": [list(x) for x in fmts],
            "kinds_sets": kw.pop("kinds_sets", None) or kind_sets(chk.tier, chk.rng, False),
            "langs": ["c", "llvm"], "tm": True, "cli": True,
            "graph": "first" if quick else "all", "graph_cap": GRAPH_CAP,
        }
        c.update(kw)
        # rotate what the CLI is asked for
        ks = c["kinds_sets"]
        c.setdefault("cli_kinds", ks[chk.rng.randrange(len(ks))])
        c.setdefault("cli_lang", chk.rng.choice(["c", "llvm"]))
        cases.append(c)
        return c

    # 0. corpus (past minimal failures / documented witnesses) first
    cdir = VERIF / "corpus" / "C08"
    for f in sorted(cdir.glob("*.json")) if cdir.exists() else []:
        try:
            spec = json.loads(f.read_text())
        except Exception:  # noqa: BLE001
            continue
        extra = {k: spec[k] for k in ("kinds_sets", "cli_kinds", "cli_lang") if k in spec}
        add(spec["assignment"], spec["formats"], origin="corpus:" + f.name,
            own_gcc=bool(spec.get("own_gcc")), graph="all", **extra)

    # 0b. typed refusals of ill-formed requests
    for a_, fm in REFUSALS:
        add(a_, fm, origin="refusal", graph="none", tm=False,
            kinds_sets=[["compute"]], cli_kinds=["compute"], cli_lang="c")

    # 1. format sweep
    cap, sample = (32, 16) if quick else (2400, 400)
    for t in TEMPLATES:
        tensors = tensors_in(t)
        single_operand = len(tensors) <= 2
        order3 = any(o >= 3 for _, o in tensors)
        if quick:
            combos = format_combos(chk, tensors, cap, 64 if (single_operand and order3) else sample)
        else:
            combos = format_combos(chk, tensors, cap, sample)
        for n, combo in enumerate(combos):
            wide = (not quick) and (n % 5 == 0)
            add(t, [(nm, f) for (nm, _), f in zip(tensors, combo)], origin="sweep",
                kinds_sets=kind_sets(chk.tier, chk.rng, wide),
                tm_cffi=(not quick) and n % 400 == 7)   # a few real cffi builds (the published header)

    # 2. identifier spellings: one position at a time from the reserved / vocabulary lists, plus
    #    (output, operand) pairs from the vocabulary of generated-name fragments
    words = RESERVED + [k for k in PY_KEYWORDS if k not in RESERVED] + VOCAB + random_names(chk, 6 if quick else 30)
    singles = []
    for tmpl, fm in IDENT_TEMPLATES:
        slots = [s for s in "TUVIJ" if "{" + s + "}" in tmpl]
        for slot in slots:
            for w in words:
                singles.append((tmpl, fm, {slot: w}))
    pairs = []
    for tmpl, fm in IDENT_TEMPLATES[1:]:
        for o, u in itertools.permutations(VOCAB, 2):
            pairs.append((tmpl, fm, {"T": o, "U": u}))
    if quick:
        singles = chk.rng.sample(singles, 40)
        pairs = chk.rng.sample(pairs, 20)
    elif len(pairs) > 300:
        pairs = chk.rng.sample(pairs, 300)
    for tmpl, fm, sub in singles + pairs:
        names = dict(IDENT_DEFAULT)
        names.update(sub)
        if len(set(names.values())) != len(names):
            continue
        a = tmpl.format(**names)
        fmts = [(names[s], fm[s]) for s in "TUV" if s in fm]
        add(a, fmts, origin="ident", own_gcc=True, graph="none", tm=not quick or chk.rng.random() < 0.3,
            kinds_sets=[["assemble", "compute", "evaluate"]])
    return cases


def random_names(chk, n: int) -> list[str]:
    alpha = "abcdefghijklmnopqrstuvwxyzABCDEFGHIJKLMNOPQRSTUVWXYZ"
    alnum = alpha + "0123456789"
    out = []
    for _ in range(n):
        ln = chk.rng.choice([1, 2, 3, 5, 8, 17, 40])
        out.append(chk.rng.choice(alpha) + "".join(chk.rng.choice(alnum) for _ in range(ln - 1)))
    return out


# ------------------------------------------------------------------------------------- workers
def run_workers(chk, cases: list[dict], call_timeout: int = 20, nworkers: int = 8) -> dict[int, dict]:
    """Run the cases in worker subprocesses; a batch that exceeds its wall-clock bound is split
    to find the hanging case."""
    if not cases:
        return {}
    bs = 30 if chk.tier == "quick" else 80
    batches = [cases[i:i + bs] for i in range(0, len(cases), bs)]
    results: dict[int, dict] = {}

    def run_batch(batch, bound):
        tmp = BUILD / "c08" / "tmp"
        tmp.mkdir(parents=True, exist_ok=True)
        rc, out, err = chk.impl("c08_worker.py", [], input=json.dumps({"cases": batch, "call_timeout": call_timeout}),
                                timeout=bound, env={"TMPDIR": str(tmp)})
        got = {}
        last_started = None
        for line in out.splitlines():
            try:
                r = json.loads(line)
            except Exception:  # noqa: BLE001
                continue
            if "progress" in r:
                last_started = r["progress"]
            elif "id" in r:
                got[r["id"]] = r
        return rc, got, last_started, err

    def handle(batch):
        bound = 60 + len(batch) * (call_timeout * 2 + 10)
        rc, got, last_started, err = run_batch(batch, bound)
        if len(got) == len(batch):
            return got
        # incomplete: re-run the missing ones one by one with a tight bound
        out = dict(got)
        for c in batch:
            if c["id"] in out:
                continue
            rc1, got1, _, err1 = run_batch([c], 60 + 8 * call_timeout)
            if c["id"] in got1:
                out[c["id"]] = got1[c["id"]]
            else:
                out[c["id"]] = {"id": c["id"], "assignment": c["assignment"], "formats": c["formats"],
                                "worker_failed": "Hang" if rc1 == 124 else f"worker exit {rc1}",
                                "stderr_tail": (err1 or "")[-400:]}
        return out

    with concurrent.futures.ThreadPoolExecutor(nworkers) as ex:
        for got in ex.map(handle, batches):
            results.update(got)
    return results


# ------------------------------------------------------------------------------------- model
GRAPH_CAP = 40

PREAMBLE = """From Coq Require Import List String ZArith NArith Bool Arith. Import ListNotations.
From TV Require Import model.Graphs model.OutputOrder.
Open Scope string_scope. Open Scope list_scope.
Definition ocode (o : outcome) : N :=
  match o with Code => 0 | Diagonal => 1 | NoKernel => 2 | BroadcastTarget => 3
  | InternalAppendNextOutput => 4 | InternalWriteAssignment => 5 | IllFormed => 6 end%N.
Definition b2n (b : bool) : N := if b then 1%N else 0%N.
Definition grow (modes : list mode) (g : graph) : list N :=
  [hash_graph g; b2n (graph_bad modes g); b2n (graph_bad_struct modes g)].
(* [id; wf; tensor_method; status (0 list, 1 Diagonal, 2 IllFormed); number of graphs]
   ++ outcome per kind list ++ the same after skipping bad graphs ++ after skipping structurally bad graphs
   ++ (hash, bad, bad_struct) of the first graphs *)
Definition row (id : N) (a : dassign) (fs : formats) (kss : list (list kind)) (cap : nat) : list N :=
  let r := to_iteration_graphs a fs in
  let rf := filter_good_r a fs r in
  let rs := filter_good_struct_r a fs r in
  let modes := match output_modes a fs with Some m => m | None => [] end in
  let gs := match r with ROk l => l | _ => [] end in
  [id; b2n (wf_problem a fs); ocode (tensor_method_r a fs r);
   match r with ROk _ => 0 | RDiagonal => 1 | RIllFormed => 2 end; N.of_nat (List.length gs)]%N
  ++ map (fun ks => ocode (generate_r a fs r ks)) kss
  ++ map (fun ks => ocode (generate_r a fs rf ks)) kss
  ++ map (fun ks => ocode (generate_r a fs rs ks)) kss
  ++ flat_map (grow modes) (firstn cap gs).
"""

OCODE = {"Code": 0, "Diagonal": 1, "NoKernel": 2, "BroadcastTarget": 3, K1_SITE: 4, WRITE_SITE: 5}
ONAME = {0: "Code", 1: "Diagonal", 2: "NoKernel", 3: "BroadcastTarget", 4: "InternalAppendNextOutput",
         5: "InternalWriteAssignment", 6: "IllFormed"}


def ckinds(ks):
    return "[" + "; ".join(k.capitalize() for k in ks) + "]"


def case_term(case: dict, r: dict) -> str:
    kss = "[" + "; ".join(ckinds(ks) for ks in case["kinds_sets"]) + "]"
    return f"(row {case['id']}%N {r['coq_assign']} {r['coq_formats']} {kss} {GRAPH_CAP + 1}%nat)"


class Row:
    """Decoded model answer for one request."""

    def __init__(self, nums: list[int], nk: int):
        self.id, self.wf, self.tm, self.status, self.n = nums[0:5]
        self.outcomes = nums[5:5 + nk]
        self.filtered = nums[5 + nk:5 + 2 * nk]
        self.filtered_struct = nums[5 + 2 * nk:5 + 3 * nk]
        g = nums[5 + 3 * nk:]
        self.graphs = [(g[i], g[i + 1], g[i + 2]) for i in range(0, len(g) - 2, 3)]  # (hash, bad, bad_struct)
        self.bad = bool(self.graphs and self.graphs[0][1])
        self.bad_struct = bool(self.graphs and self.graphs[0][2])

    def first(self):
        if self.status == 1:
            return "Diagonal"
        if self.status == 2:
            return "IllFormed"
        return self.graphs[0][0] if self.graphs else "NoKernel"

    def first_of(self, which: int):
        """first graph after skipping bad (1) / structurally bad (2) graphs"""
        if self.status != 0:
            return self.first()
        rest = [h for h, *flags in self.graphs if not flags[which - 1]]
        return rest[0] if rest else "NoKernel"

    def hashes(self, which: int = 0):
        if self.status == 1:
            return "Diagonal"
        return [h for h, *flags in self.graphs if which == 0 or not flags[which - 1]]

    def brief(self):
        return {"wf": self.wf, "first_graph_bad": self.bad, "first_graph_bad_struct": self.bad_struct,
                "tensor_method": ONAME.get(self.tm), "graphs": self.n,
                "outcomes": [ONAME.get(o) for o in self.outcomes]}


def run_model(chk, cases: list[dict], results: dict[int, dict]) -> dict[int, "Row"]:
    todo = [c for c in cases if "coq_assign" in results.get(c["id"], {})]
    shards: list[list[dict]] = []
    cur: list[dict] = []
    size = 0
    for c in todo:
        t = len(results[c["id"]]["coq_assign"]) + len(results[c["id"]]["coq_formats"]) + 100
        if cur and (len(cur) >= 400 or size + t > 400_000):
            shards.append(cur)
            cur, size = [], 0
        cur.append(c)
        size += t
    if cur:
        shards.append(cur)
    rows: dict[int, Row] = {}
    failed: list[str] = []
    by_id = {c["id"]: c for c in cases}

    def run_shard(arg):
        n, shard = arg
        body = (PREAMBLE + "Definition rows : list (list N) := [\n"
                + ";\n".join(case_term(c, results[c["id"]]) for c in shard)
                + "\n].\nOpen Scope N_scope.\nEval vm_compute in rows.\n")
        name = f"c08_p{os.getpid()}_shard{n}"
        ok, out = chk.coq_eval(name, body, timeout=900)
        if ok:
            for ext in (".v", ".vo", ".vok", ".vos", ".glob"):
                (BUILD / "cases" / (name + ext)).unlink(missing_ok=True)
            (BUILD / "cases" / ("." + name + ".aux")).unlink(missing_ok=True)
        return n, shard, ok, out

    with concurrent.futures.ThreadPoolExecutor(6) as ex:
        for n, shard, ok, out in ex.map(run_shard, list(enumerate(shards))):
            if not ok:
                failed.append(f"shard {n}: " + out.strip()[-600:])
                continue
            for m in re.finditer(r"\[([0-9; \n]+)\]", out):
                nums = [int(x) for x in m.group(1).replace("\n", " ").split(";") if x.strip()]
                if len(nums) >= 5 and nums[0] in by_id:
                    rows[nums[0]] = Row(nums, len(by_id[nums[0]]["kinds_sets"]))
    if failed:
        chk.broken.append({"kind": "model-evaluation", "detail": failed[:3]})
    return rows


# ------------------------------------------------------------------------------------- judging
def word_in(word: str, text: str) -> bool:
    return re.search(r"(?<![A-Za-z0-9_])" + re.escape(word) + r"(?![A-Za-z0-9_])", text or "") is not None


def property_failures(case: dict, r: dict) -> list[dict]:
    """The property oracle: everything observed that is neither accepted code nor a documented
    typed refusal.  Does not use the model."""
    fails = []

    def bad(where, what, **kw):
        d = {"where": where, "what": what}
        d.update(kw)
        fails.append(d)

    if "skipped" in r:
        return fails
    if "worker_failed" in r:
        bad("worker", r["worker_failed"], detail=r.get("stderr_tail", ""))
        return fails
    if "harness_error" in r:
        bad("harness", r["harness_error"], detail=r.get("trace", ""))
        return fails
    prob = r.get("problem", "")
    if prob != "ok" and not prob.startswith("Problem:"):
        bad("make_problem", prob)
    if prob.startswith("Problem:") and r.get("cli") and r["cli"].get("exit_code") == 0:
        bad("cli", f"exit 0 although the request is refused by the library ({prob})")
    for key, g in (r.get("gen") or {}).items():
        o = g["outcome"]
        if o in ("Diagonal", "NoKernel"):
            continue
        if o == "Code":
            tc = g.get("toolchain")
            if tc is not None and not tc["ok"]:
                bad("toolchain:" + key, "rejected by " + ("gcc" if key.endswith("|c") else "llvm verifier"),
                    first_error=tc.get("first_error", ""), error_line=tc.get("error_line", ""))
            continue
        bad("generate_code:" + key, o, message=g.get("message", ""))
    for tmk in ("tm", "tm_cffi"):
        if tmk in r:
            o = r[tmk]["outcome"]
            if not (o in ("Code", "Diagonal", "NoKernel", "BroadcastTarget") or o.startswith("Problem:")):
                bad("tensor_method" if tmk == "tm" else "tensor_method[cffi]", o, message=r[tmk].get("message", ""))
    cli = r.get("cli")
    if cli:
        if cli.get("outcome"):
            bad("cli", cli["outcome"])
        else:
            ec = cli.get("exit_code")
            if "traceback" in cli:
                bad("cli", cli["traceback"], exit_code=ec, traceback=True)
            elif ec == 0:
                if not cli.get("stdout_nonempty") and cli.get("key", "|").split("|")[0]:
                    bad("cli", "exit 0 without code")
                elif cli.get("same_as_library") is False:
                    bad("cli", "exit 0 but output differs from generate_code")
            elif ec == 1:
                if not cli.get("stderr_nonempty"):
                    bad("cli", "exit 1 without a message")
            else:
                bad("cli", f"exit code {ec}")
            # consistency with the library outcome for the same request
            lib = (r.get("gen") or {}).get(cli.get("key", ""))
            if lib is not None and "traceback" not in cli:
                if (lib["outcome"] == "Code") != (ec == 0):
                    bad("cli", f"exit {ec} but library outcome {lib['outcome']}")
    return fails


def fixed_ids() -> set[str]:
    """Findings recorded as repaired in /verif/known_findings.json excuse nothing any more."""
    out = set()
    for f in load_known().get("fixed", []) or []:
        if isinstance(f, dict) and f.get("id"):
            out.add(f["id"])
        elif isinstance(f, str):
            out.update(re.findall(r"K-C\d+-\d+", f))
    return out


def classify(case: dict, r: dict, f: dict, row: list[int] | None) -> tuple[str | None, dict | None]:
    fid, ren = classify0(case, r, f, row)
    if fid is not None and fid in fixed_ids():
        return None, None
    return fid, ren


def classify0(case: dict, r: dict, f: dict, row: list[int] | None) -> tuple[str | None, dict | None]:
    """-> (known finding id | None, rename map needed to confirm causality | None)"""
    idents = set(r.get("identifiers") or [])
    what = f["what"]
    where = f["where"]
    tensors = [n for n, _ in case["formats"]]
    target = tensors[0] if tensors else ""
    # K-C08-1: NotImplementedError at AppendOutput.next_output and the model agrees that the first
    # graph is bad (characterisation lemma C08_internal_iff_first_graph_bad)
    if what == K1_SITE:
        if row is not None and row.bad:
            return "K-C08-1", None
        return None, None
    # K-C08-6: the same kernel type requested twice (not a *set* of kernel kinds, but the CLI accepts it)
    kinds = None
    if ":" in where and "|" in where:
        kinds = where.split(":", 1)[1].split("|")[0].split("+")
    elif where == "cli":
        kinds = (r.get("cli") or {}).get("key", "|").split("|")[0].split("+")
    if kinds and len(set(kinds)) != len(kinds):
        dup = [k for k in KINDS if kinds.count(k) > 1][0]
        if what == "Internal:DuplicatedNameError@codegen/_ir_to_llvm.py:ir_to_llvm_function_definition":
            return "K-C08-6", None
        if where.startswith("toolchain:") and where.endswith("|c") and "redefinition" in f.get("first_error", "") \
                and ("‘" + dup + "’") in f.get("first_error", ""):
            return "K-C08-6", None
    # K-C08-3: bucket variable name collides with pos/crd array name of a tensor called "bucket"
    k3_names = BUCKET_TENSOR in tensors[1:] and target in BUCKET_OUTPUTS
    if k3_names:
        var = f"bucket_0_{target}"
        if where.startswith("toolchain:") and where.endswith("|c") and word_in(var, f.get("first_error", "")):
            return "K-C08-3", {BUCKET_TENSOR: None}
        if LLVM_FILE in what and ("|llvm" in where or where in ("tensor_method", "cli")):
            return "K-C08-3", {BUCKET_TENSOR: None}
    # K-C08-4: tensor / index named like a runtime function of the LLVM back end
    hit = [w for w in LLVM_RUNTIME_NAMES if w in idents]
    if hit and LLVM_FILE in what and ("|llvm" in where or where in ("tensor_method", "cli")):
        return "K-C08-4", {w: None for w in hit}
    # K-C08-5: an input tensor named like a Python keyword: inspect.Parameter raises ValueError
    hit = [w for w in PY_KEYWORDS if w in tensors[1:]]
    if hit and what == TM_INIT_SITE and where.startswith("tensor_method"):
        return "K-C08-5", {w: None for w in hit}
    # K-C08-2: C reserved word / header name used as identifier, gcc rejects
    hit = [w for w in RESERVED if w in idents]
    if hit and where.startswith("toolchain:") and where.endswith("|c"):
        msg, line = f.get("first_error", ""), f.get("error_line", "")
        named = [w for w in hit if ("‘" + w + "’") in msg or word_in(w, line)]
        if named:
            return "K-C08-2", {w: None for w in named}
    if hit and where == "tensor_method[cffi]" and "@compile/_compile_cffi.py" in what:
        return "K-C08-2", {w: None for w in hit}
    return None, None


def renamed_case(case: dict, r: dict, ren: dict, new_id: int) -> dict:
    idents = set(r.get("identifiers") or [])
    mapping = {}
    n = 0
    for w in ren:
        while True:
            cand = f"zq{n}"
            n += 1
            if cand not in idents and cand not in mapping.values():
                break
        mapping[w] = cand

    def sub(text):
        for w, v in mapping.items():
            text = re.sub(r"(?<![A-Za-z0-9_])" + re.escape(w) + r"(?![A-Za-z0-9_])", v, text)
        return text

    c = dict(case)
    c["id"] = new_id
    c["assignment"] = sub(case["assignment"])
    c["formats"] = [[mapping.get(nm, nm), f] for nm, f in case["formats"]]
    c["graph"] = "none"
    c["origin"] = "rename-control"
    return c


def py_code(outcome: str) -> int | None:
    return OCODE.get(outcome)


# ------------------------------------------------------------------------------------- main
def run(chk):
    chk.rule = (
        "assignment templates (copy, permutation, element-wise, contraction, contraction+addition, scalar, "
        "literal, repeated tensor, diagonal, broadcast target, order-3) x formats (all 2^n*n! modes x orderings "
        "per tensor, exhaustive when the product is below the tier cap, else a seeded sample that contains "
        "all-dense and all-compressed) x kernel-kind lists x {c, llvm}, plus identifier spellings (C reserved "
        "words, header names, fragments of generated names, random legal names). A case is one "
        "(assignment, formats, kind list, language) request; distinct = different canonical request."
    )
    chk.trusted += [
        "hand models coq/model/Graphs.v, OutputOrder.v tied to /repo by correspondence; Names.v and the callees of to_iteration_graphs (legal_iteration_orders, merge_add, merge_multiply, tensor chains, the two target filters) additionally by regeneration + equivalence proof (TIE names, graphs; see design.d/TIE_graphs.md for what is still pinned or unproved)",
        "OutputOrder.v keeps only the control flow of _generate_ir.py that decides failure; exhausted "
        "sub-graphs are argued (not proved) to fail only where the un-exhausted graph fails",
        "gcc -fsyntax-only -std=c99 and llvmlite verify as the tool chains; several kernels share one gcc run "
        "(kernel function names renamed with #define), single runs on any failure and for unusual identifiers",
        "harness/c08_worker.py dumpers (Python objects -> Coq terms) and the two copies of the canonical graph "
        "printer + 61-bit polynomial hash (Graphs.v show_graph/hash_string, worker show_graph/hash_string); "
        "SumNode names erased",
    ]
    t0 = time.time()
    ok = chk.coq_props()
    findings_ok = check_findings_files(chk)
    t_coq = time.time() - t0

    cases = build_cases(chk)
    t1 = time.time()
    results = run_workers(chk, cases)
    t_impl = time.time() - t1
    t2 = time.time()
    rows = run_model(chk, cases, results) if ok else {}
    t_model = time.time() - t2
    chk.note(f"timing: coq build {t_coq:.0f}s, implementation sweep {t_impl:.0f}s ({len(cases)} requests x "
             f"kind lists x languages), model evaluation {t_model:.0f}s")

    by_id = {c["id"]: c for c in cases}
    pending: list[tuple[dict, dict, dict, str, dict]] = []  # (case, result, failure, finding id, rename)
    unclassified: list[tuple[dict, dict, dict]] = []
    k1_fixed = 0
    corr_bad: list[dict] = []
    n_graph_first = n_graph_all = 0

    for c in cases:
        r = results.get(c["id"])
        if r is None:
            unclassified.append((c, {}, {"where": "worker", "what": "no result"}))
            continue
        row = rows.get(c["id"])
        fails = property_failures(c, r)
        name_related = False
        for f in fails:
            fid, ren = classify(c, r, f, row)
            if fid is None:
                unclassified.append((c, r, f))
            elif ren:
                name_related = True
                pending.append((c, r, f, fid, ren))
            else:
                chk.known_finding(fid, describe(fid))
                chk.count("known:" + fid)
        if "skipped" in r:
            chk.count("skipped-after-hangs")
            continue
        # evidence counters
        chk.count("requests")
        chk.count("origin:" + c.get("origin", "?"))
        prob = r.get("problem", "?")
        if prob != "ok":
            chk.count("refused:" + prob)
        for key, g in (r.get("gen") or {}).items():
            o = g["outcome"]
            chk.count("outcome:" + (o if not o.startswith("Internal:") else o.split("@")[0]))
            chk.case((c["assignment"], tuple(map(tuple, c["formats"])), key, o), nontrivial=True)
            if g.get("toolchain") is not None:
                chk.count("toolchain-checked:" + key.split("|")[1])
        if "tm" in r:
            chk.count("tensor_method:" + r["tm"]["outcome"].split("@")[0])
            chk.case((c["assignment"], tuple(map(tuple, c["formats"])), "tm", r["tm"]["outcome"]))
        if "cli" in r and "exit_code" in r["cli"]:
            chk.count(f"cli-exit:{r['cli']['exit_code']}" + (":traceback" if "traceback" in r["cli"] else ""))
            chk.case((c["assignment"], tuple(map(tuple, c["formats"])), "cli", r["cli"].get("key"), r["cli"]["exit_code"]))
        # ---- correspondence (bookkeeping only; the oracle above decides violations)
        if row is None or "gen" not in r:
            continue
        if row.wf != 1:
            corr_bad.append({"case": brief(c), "what": "model says the request is not well-formed"})
            continue
        suspicious = row.bad_struct   # the model's first graph is one a repair of K-C08-1 would skip

        def repaired(pc, i):
            # the implementation no longer uses the graph the output builder cannot lower
            return suspicious and pc is not None and (pc == row.filtered[i] or pc == row.filtered_struct[i])

        for i, ks in enumerate(c["kinds_sets"]):
            for lang in c["langs"]:
                key = "+".join(ks) + "|" + lang
                g = r["gen"].get(key)
                if g is None:
                    continue
                pc = py_code(g["outcome"])
                mc = row.outcomes[i]
                if pc == mc:
                    chk.count("corr:outcome-equal")
                elif name_related and pc is None:
                    chk.count("corr:skipped-name-finding")
                elif len(set(ks)) != len(ks) and g["outcome"].startswith("Internal:DuplicatedNameError@codegen/_ir_to_llvm.py"):
                    chk.count("corr:skipped-duplicate-kind")
                elif repaired(pc, i):
                    k1_fixed += 1
                else:
                    corr_bad.append({"case": brief(c), "key": key, "model": ONAME.get(mc, mc), "implementation": g["outcome"]})
        if "tm" in r:
            pc = py_code(r["tm"]["outcome"])
            if pc == row.tm:
                chk.count("corr:tensor_method-equal")
            elif name_related and pc is None:
                chk.count("corr:skipped-name-finding")
            elif suspicious and row.tm == 4 and pc in (0, 2):
                k1_fixed += 1
            else:
                corr_bad.append({"case": brief(c), "key": "tensor_method", "model": ONAME.get(row.tm), "implementation": r["tm"]["outcome"]})
        pf = r.get("graph_first")
        if pf is not None and not (isinstance(pf, str) and pf.startswith("ERR:")):
            n_graph_first += 1
            if pf == row.first():
                pass
            elif suspicious and (pf in (row.first_of(1), row.first_of(2)) or pf in row.hashes()):
                k1_fixed += 1
            else:
                corr_bad.append({"case": brief(c), "key": "first graph", "model": row.first(),
                                 "implementation": pf, "implementation_text": r.get("graph_first_text")})
        elif isinstance(pf, str):
            corr_bad.append({"case": brief(c), "key": "first graph", "implementation": pf})
        pa = r.get("graphs_all")
        if pa is not None and not (isinstance(pa, str) and pa.startswith("ERR:")) and row.n <= GRAPH_CAP:
            n_graph_all += 1
            if pa == row.hashes():
                pass
            elif pa in (row.hashes(1), row.hashes(2)):
                k1_fixed += 1      # the list is the model's list without the graphs a repair skips
            else:
                corr_bad.append({"case": brief(c), "key": "list of graphs", "model": f"{row.n} graphs",
                                 "implementation": f"{r.get('graphs_n')} graphs"})
            chk.count("graphs-compared", max(r.get("graphs_n") or 0, 0))
        elif isinstance(pa, str):
            corr_bad.append({"case": brief(c), "key": "list of graphs", "implementation": pa})
        elif r.get("graphs_n") == -1 or row.n > GRAPH_CAP:
            chk.count("graph-lists-over-cap-skipped")

    chk.count("corr:first-graph-compared", n_graph_first)
    chk.count("corr:graph-lists-compared", n_graph_all)

    # ---- name-related findings: confirm causality by renaming only the suspicious identifier
    if pending:
        controls = []
        for n, (c, r, f, fid, ren) in enumerate(pending):
            controls.append(renamed_case(c, r, ren, 10_000_000 + n))
        cres = run_workers(chk, controls)
        for (c, r, f, fid, ren), ctl in zip(pending, controls):
            cr = cres.get(ctl["id"], {})
            cf = [x for x in property_failures(ctl, cr) if x["where"] == f["where"]]
            if not cf and cr.get("problem") == "ok":
                chk.known_finding(fid, describe(fid))
                chk.count("known:" + fid)
            else:
                f = dict(f)
                f["note"] = f"looked like {fid} but renaming {sorted(ren)} does not remove the failure"
                unclassified.append((c, r, f))

    if k1_fixed:
        chk.note(f"FINDING-NO-LONGER-REPRODUCES K-C08-1 on {k1_fixed} comparisons: the implementation skips "
                 "graphs the output builder cannot lower (equals the model's generate_filtered)")

    # ---- violations (deduplicated by (where-kind, what))
    seen = set()
    for c, r, f in unclassified:
        sig = (f["where"].split(":")[0], f["what"])
        if sig in seen and len(seen) > 0:
            chk.count("violations-suppressed-duplicates")
            continue
        seen.add(sig)
        if len(seen) > 12:
            break
        chk.violation(
            f"{f['where']}: {f['what']}",
            {"input": replay_spec(c), "expected": "generated code accepted by its tool chain, or DiagonalAccessError / "
             "NoKernelFoundError / BroadcastTargetIndexError(tensor_method) / a Result-typed request error; CLI exit 0 or 1 "
             "with a message", "actual": f, "model": rows[c["id"]].brief() if c["id"] in rows else None},
        )
    for cb in corr_bad[:5]:
        chk.broken.append({"kind": "correspondence", **cb})
    if len(corr_bad) > 5:
        chk.broken.append({"kind": "correspondence", "more": len(corr_bad) - 5})
    if corr_bad and not chk.violations:
        # the searcher is the sweep above; nothing failed the property itself
        chk.note(f"{len(corr_bad)} model/implementation disagreements, none of them a failure of the property")

    # samples
    for c in cases[:400]:
        r = results.get(c["id"], {})
        if "gen" in r and len(chk.samples) < 8 and (c["id"] % 37 == 0 or c.get("origin", "").startswith("corpus")):
            chk.sample({"request": brief(c), "outcomes": {k: v["outcome"] for k, v in r["gen"].items()},
                        "tensor_method": r.get("tm", {}).get("outcome"), "cli_exit": r.get("cli", {}).get("exit_code"),
                        "model": rows[c["id"]].brief() if c["id"] in rows else None})

    # tie to the source by regeneration: the listed definitions are re-translated from /repo by py2coq on
    # every run and PROVED equal to the hand models (coq/props/TIE.v), plus a translator self-check
    from props._tie import run_tie
    run_tie(chk, ['names', 'graphs', 'glue'])


def check_findings_files(chk) -> bool:
    """coq/findings/K_C08_*.v document today's defects against the model; if one stops compiling
    that is reported, not alarmed."""
    good = True
    for f in sorted((VERIF / "coq" / "findings").glob("K_C08_*.v")):
        ok, log = chk.coq_make([f"findings/{f.name}o"], timeout=600)
        if ok:
            chk.count("findings-files-built")
        else:
            good = False
            chk.note(f"FINDING-NO-LONGER-REPRODUCES (model): findings/{f.name} does not build: " + log.strip()[-300:])
    return good


def describe(fid: str) -> str:
    return {
        "K-C08-1": "NotImplementedError from outputs/_append.py::AppendOutput.next_output - first yielded graph "
                   "visits a compressed output layer after a later output layer / contraction (model: first_graph_bad)",
        "K-C08-2": "identifier is a C reserved word or a name of the prepended header - emitted C does not compile",
        "K-C08-3": "BucketOutput.name() collides with pos/crd array name of a tensor called `bucket` when the output "
                   "is called pos/crd - C redeclaration / TypeError in the LLVM back end",
        "K-C08-5": "input tensor named like a Python keyword - inspect.Parameter raises ValueError in "
                   "TensorMethod.__init__ (tensor_method only)",
        "K-C08-6": "the same kernel type requested twice (e.g. -t compute -t compute): DuplicatedNameError traceback "
                   "from codegen/_ir_to_llvm.py, C with a redefined function",
        "K-C08-4": "identifier malloc/realloc overwrites the runtime function in the LLVM back end's locals - "
                   "AttributeError/TypeError in codegen/_ir_to_llvm.py",
    }[fid]


def brief(c: dict) -> str:
    return c["assignment"] + "  {" + ", ".join(f"{n}:{f}" for n, f in c["formats"]) + "}"


def replay_spec(c: dict) -> dict:
    return {k: c[k] for k in ("assignment", "formats", "kinds_sets", "langs", "cli_kinds", "cli_lang", "own_gcc") if k in c}


def replay(chk, payload):
    spec = payload.get("input") or payload
    if "assignment" not in spec:
        print("replay file has no concrete input (broken proof / correspondence): re-run ./check C08")
        return 1
    c = {"id": 0, "assignment": spec["assignment"], "formats": spec["formats"],
         "kinds_sets": spec.get("kinds_sets") or [["assemble", "compute", "evaluate"]],
         "langs": spec.get("langs") or ["c", "llvm"], "tm": True, "cli": True, "graph": "first",
         "cli_kinds": spec.get("cli_kinds"), "cli_lang": spec.get("cli_lang"), "own_gcc": True}
    res = run_workers(chk, [c])
    r = res.get(0, {})
    rows = run_model(chk, [c], res)
    fails = property_failures(c, r)
    rc = 0
    for f in fails:
        fid, ren = classify(c, r, f, rows.get(0))
        print(("KNOWN " + fid if fid else "FAIL") + ": " + json.dumps(f)[:600])
        if fid is None:
            rc = 1
    print("model:", rows[0].brief() if 0 in rows else None)
    print("outcomes:", {k: v["outcome"] for k, v in (r.get("gen") or {}).items()}, "tm:", r.get("tm"), "cli:", r.get("cli"))
    return rc
