"""C12 -- assignment and format text round-trips and means what arithmetic says.

Proof:          coq/props/C12.v   (token-level parser = textbook grammar, parse(deparse a) = a, validation
                                   spec, format round trip, ordering check = permutation, ...)
Correspondence: the hand models coq/model/Parser.v and coq/model/FormatParser.v are run on the same
                inputs as the real parse_assignment / deparse / parse_format / parse_named_format /
                Format.deparse, and must agree (tree or error class, printed tokens / text).
Direct checks:  every clause of the property is also evaluated on the implementation alone
                (never raises; parse(deparse t) == t; the tree of a text is the tree Python's own
                grammar gives that text, and evaluates to the same number; accepted assignments
                satisfy the three validity clauses; accepted formats have a permutation ordering).
"""
from __future__ import annotations

import ast as pyast
import itertools
import os
import json
import math
import re
from concurrent.futures import ThreadPoolExecutor
from pathlib import Path

from vlib.core import VERIF

PROP = "C12"

# ----------------------------------------------------------------------------------------------
# Coq term writers

HEADER = """From TV Require Import model.Parser model.FormatParser.
From Coq Require Import String Ascii List NArith ZArith Bool.
Import ListNotations.
Definition S (l : list N) : string := string_of_list_ascii (map ascii_of_N l).
Definition vres_eqb (a b : vres) : bool :=
  match a, b with
  | VOk, VOk | VMutating, VMutating | VInconsistent, VInconsistent | VNameConflict, VNameConflict => true
  | _, _ => false
  end.
Definition is_none {A} (o : option A) : bool := match o with None => true | Some _ => false end.
"""

PLAIN = re.compile(r"^[A-Za-z0-9 ()+\-*=,.:_]*$")


def cstr(s: str) -> str:
    if PLAIN.match(s):
        return '"' + s + '"%string'
    b = s.encode("utf-8", errors="surrogatepass")
    return "(S [" + ";".join(str(x) for x in b) + "]%N)"


def clist(items) -> str:
    return "[" + "; ".join(items) + "]"


def cexpr(t) -> str:
    k = t[0]
    if k == "i":
        return f"(EInt {t[1]}%N)"
    if k == "f":
        return f"(EFloat (Dec {t[2]}%N ({t[3]})%Z))"
    if k == "t":
        return f"(ETensor {cstr(t[1])} {clist([cstr(i) for i in t[2]])})"
    c = {"+": "EAdd", "-": "ESub", "*": "EMul"}[k]
    return f"({c} {cexpr(t[1])} {cexpr(t[2])})"


def cassign(tree) -> str:
    tgt, e = tree
    return f"(Assign {cstr(tgt[1])} {clist([cstr(i) for i in tgt[2]])} {cexpr(e)})"


def cformat(fmt) -> str:
    modes, order = fmt
    ms = clist(["MDense" if c == "d" else "MCompressed" for c in modes])
    os_ = clist([f"{o}%N" for o in order])
    return f"(Format {ms} {os_})"


PRES = {"ParseError": "PSyntax", "Mutating": "PMutating", "Inconsistent": "PInconsistent", "NameConflict": "PNameConflict"}
VRES = {"Mutating": "VMutating", "Inconsistent": "VInconsistent", "NameConflict": "VNameConflict"}
FRES = {"ParseError": "FSyntax", "Invalid": "FInvalid"}


def tree_has(t, pred) -> bool:
    stack = [t]
    while stack:
        x = stack.pop()
        if pred(x):
            return True
        if x[0] in "+-*":
            stack.append(x[1])
            stack.append(x[2])
    return False


def has_nonfinite(tree) -> bool:
    return tree_has(tree[1], lambda x: x[0] == "f" and x[2] is None)


# ----------------------------------------------------------------------------------------------
# input features used by the known-finding classifiers

def max_digit_run(s: str) -> int:
    return max((len(m) for m in re.findall(r"[0-9]+", s)), default=0)


def nesting(s: str) -> int:
    d = m = 0
    for c in s:
        if c == "(":
            d += 1
            m = max(m, d)
        elif c == ")":
            d = max(0, d - 1)
    return m


def op_count(s: str) -> int:
    return sum(s.count(c) for c in "+-*")


FLOAT_RE = re.compile(r"\d+(?:(?:\.\d+(?:[Ee][+-]?\d+)?)|(?:(?:\.\d+)?[Ee][+-]?\d+))")


def has_overflowing_float(s: str) -> bool:
    for m in FLOAT_RE.findall(s):
        try:
            if math.isinf(float(m)):
                return True
        except ValueError:
            pass
    return False


RECURSION_DEMAND = 900  # 14 frames per parenthesis level, 1 per operator; the interpreter limit is 1000


def classify_raise(s: str, info: dict) -> str | None:
    """Known findings among 'the implementation raised'. Exact predicates; anything else is new."""
    if (
        info.get("cls") == "ValueError"
        and info.get("mod") == "builtins"
        and info.get("msg", "").startswith("Exceeds the limit (4300 digits) for integer string conversion")
        and max_digit_run(s) > 4300
    ):
        return "K-C12-1"
    if (
        info.get("cls") == "RecursionError"
        and info.get("mod") == "builtins"
        and 14 * nesting(s) + op_count(s) >= RECURSION_DEMAND
    ):
        return "K-C12-2"
    return None


# ----------------------------------------------------------------------------------------------
# the conventional reading of a text: Python's own expression grammar

TOK = re.compile(
    r"[ ]*(?:(?P<name>[A-Za-z][A-Za-z0-9]*)[ ]*\((?P<args>[A-Za-z0-9, ]*)\)"
    r"|(?P<float>[0-9]+(?:(?:\.[0-9]+(?:[Ee][+-]?[0-9]+)?)|(?:(?:\.[0-9]+)?[Ee][+-]?[0-9]+)))"
    r"|(?P<int>[0-9]+)|(?P<p>[()+\-*]))"
)


def conventional_tree(rhs: str):
    """Tree that Python's grammar (the conventional precedence grammar) gives to the text, with
    tensor references and literals as opaque leaves.  None when the text is not tokenisable here."""
    leaves = []
    out = []
    pos = 0
    rhs = rhs.rstrip(" ")
    while pos < len(rhs):
        m = TOK.match(rhs, pos)
        if not m:
            return None
        if m.group("name") is not None:
            args = [a.strip() for a in m.group("args").split(",")] if m.group("args").strip() else []
            leaves.append(["t", m.group("name"), args])
            out.append(f"L{len(leaves) - 1}")
        elif m.group("float") is not None:
            leaves.append(["f", float(m.group("float")).hex() if not math.isinf(float(m.group("float"))) else "inf"])
            out.append(f"L{len(leaves) - 1}")
        elif m.group("int") is not None:
            leaves.append(["i", str(int(m.group("int")))])
            out.append(f"L{len(leaves) - 1}")
        else:
            out.append(m.group("p"))
        pos = m.end()
    try:
        node = pyast.parse(" ".join(out), mode="eval").body
    except (SyntaxError, RecursionError, MemoryError):
        return None

    def conv(n):
        if isinstance(n, pyast.Name):
            return leaves[int(n.id[1:])]
        if isinstance(n, pyast.BinOp):
            op = {pyast.Add: "+", pyast.Sub: "-", pyast.Mult: "*"}[type(n.op)]
            return [op, conv(n.left), conv(n.right)]
        raise ValueError("unexpected node " + type(n).__name__)  # e.g. unary minus, call

    try:
        return conv(node)
    except (ValueError, KeyError):
        return "NOT-CONVENTIONAL"


def strip_float(t):
    """impl tree -> same shape as conventional_tree leaves"""
    k = t[0]
    if k == "f":
        return ["f", t[1]]
    if k in "+-*":
        return [k, strip_float(t[1]), strip_float(t[2])]
    return t


def validity_clauses(tree) -> str | None:
    """The three rejection clauses, evaluated on a tree the implementation accepted."""
    tgt, e = tree
    refs = []
    stack = [e]
    while stack:
        x = stack.pop()
        if x[0] == "t":
            refs.append((x[1], tuple(x[2])))
        elif x[0] in "+-*":
            stack.append(x[1])
            stack.append(x[2])
    if any(n == tgt[1] for n, _ in refs):
        return "accepted an assignment whose target appears on the right"
    orders = {}
    for n, idx in refs:
        if orders.setdefault(n, len(idx)) != len(idx):
            return f"accepted tensor {n} with two different orders"
    names = {tgt[1]} | {n for n, _ in refs}
    idxs = set(tgt[2]) | {i for _, idx in refs for i in idx}
    if names & idxs:
        return "accepted a name used both as tensor and as index: " + sorted(names & idxs)[0]
    return None


# ----------------------------------------------------------------------------------------------
# generators

LITS = ["0", "7", "007", "1.5", "1e3", "2.5E-2", "1e22"]
LIT_OVERFLOW = "1e999"
SAFE_TENSORS = ["b(i)", "c(j)", "b(i)", "c(j)"]


def grammar_strings(maxlen: int):
    """all strings over the expression token alphabet (X = an atom) up to maxlen"""
    alpha = ["X", "+", "-", "*", "(", ")"]
    for n in range(1, maxlen + 1):
        yield from itertools.product(alpha, repeat=n)


def is_sentence(toks) -> bool:
    """recogniser for E -> E (+|-) T | T ; T -> T * F | F ; F -> X | ( E )   (iterative descent)"""
    pos = 0
    n = len(toks)

    def factor():
        nonlocal pos
        if pos < n and toks[pos] == "X":
            pos += 1
            return True
        if pos < n and toks[pos] == "(":
            pos += 1
            if not expr():
                return False
            if pos < n and toks[pos] == ")":
                pos += 1
                return True
        return False

    def term():
        nonlocal pos
        if not factor():
            return False
        while pos < n and toks[pos] == "*":
            pos += 1
            if not factor():
                return False
        return True

    def expr():
        nonlocal pos
        if not term():
            return False
        while pos < n and toks[pos] in "+-":
            pos += 1
            if not term():
                return False
        return True

    return expr() and pos == n


def fill(toks, atoms_for_slot, rng, spacer) -> str:
    out = []
    k = 0
    for t in toks:
        if t == "X":
            out.append(atoms_for_slot(k))
            k += 1
        else:
            out.append(t)
    s = out[0]
    for t in out[1:]:
        s += spacer() + t
    return s


def gen_sentences(chk):
    """stream (a): sentences and near-sentences of the token grammar"""
    rng = chk.rng
    thorough = chk.tier == "thorough"
    nmax = 7 if thorough else 5
    atoms_all = ["b(i)", "c(j)"] + LITS
    jobs = []
    spacers = [lambda: " ", lambda: "", lambda: rng.choice(["", " ", "  "])]
    n_sent = n_non = 0
    for toks in grammar_strings(nmax):
        sent = is_sentence(toks)
        nx = toks.count("X")
        if not sent:
            # every non-sentence up to 4 tokens, a sample of the longer ones
            if len(toks) > 4 and rng.random() > (0.02 if thorough else 0.05):
                continue
        if sent:
            n_sent += 1
        else:
            n_non += 1
        # exhaustive small fillings for short sentences, random fillings otherwise
        fillings = []
        if sent and nx <= 2:
            small = ["b(i)", "7", "1.5"]
            fillings = [list(p) for p in itertools.product(small, repeat=nx)]
        reps = 6 if sent else 1
        for _ in range(reps):
            fillings.append([rng.choice(atoms_all) for _ in range(nx)])
        for f in fillings:
            sp = rng.choice(spacers)
            rhs = fill(toks, lambda k: f[k], rng, sp)
            jobs.append({"op": "parse", "s": "a(i,j) = " + rhs, "tag": "sentence" if sent else "near-sentence"})
    # every literal spelling in every position of the characteristic sentences
    shapes = ["{0}", "({0})", "{0} - b(i) - c(j)", "b(i) - {0} * c(j)", "b(i) * ({0} + c(j))", "b(i) - ({0} - {0})"]
    more_lits = LITS + [LIT_OVERFLOW, "1.5e+3", "0.0", "00.50", "1E0", "1e-7", "123.456e-2", "12345678901234567890", "1.", ".5",
                        "1e", "1e+", "1.5.2", "1e5x", "1x", "1_0", "0x10", "1.e3", "1 e3", "1e 3", "1e+-3", "1e999x", "-1", "+1"]
    for lit in more_lits:
        for sh in shapes:
            jobs.append({"op": "parse", "s": "a(i) = " + sh.format(lit), "tag": "literal"})
    chk.count("grammar_sentences_shapes", n_sent)
    chk.count("grammar_non_sentence_shapes", n_non)
    return jobs


def gen_raw(chk):
    """raw token strings (tensor sub-grammar, target, '='): all strings over a small alphabet"""
    rng = chk.rng
    thorough = chk.tier == "thorough"
    alpha = ["b", "i", "(", ")", ",", "+", "1", "*"] + (["="] if thorough else [])
    jobs = []
    maxlen = 5 if thorough else 4
    for n in range(0, maxlen + 1):
        for toks in itertools.product(alpha, repeat=n):
            if n == 5 and rng.random() > 0.15:
                continue
            jobs.append({"op": "parse", "s": "a(i) = " + " ".join(toks), "tag": "raw-rhs"})
    # whole-assignment raw strings (target side)
    alpha2 = ["a", "(", ")", ",", "=", "1", "i"]
    for n in range(0, (6 if thorough else 5) + 1):
        for toks in itertools.product(alpha2, repeat=n):
            if n >= 5 and rng.random() > ((0.1 if n == 5 else 0.03) if thorough else 0.04):
                continue
            jobs.append({"op": "parse", "s": " ".join(toks), "tag": "raw-assignment"})
    return jobs


def gen_validation(chk):
    thorough = chk.tier == "thorough"
    targets = ["a()", "a(i)", "a(i,j)", "i(a)", "b(i)"]
    refs = ["a(i)", "b()", "b(i)", "b(i,j)", "i()", "c(a)", "c(j)"]
    jobs = []
    ops = ["+", "-", "*"]
    k = 0
    for t in targets:
        for r1 in refs + ["7"]:
            jobs.append({"op": "parse", "s": f"{t} = {r1}", "tag": "validation"})
            for r2 in refs:
                k += 1
                jobs.append({"op": "parse", "s": f"{t} = {r1} {ops[k % 3]} {r2}", "tag": "validation"})
                # rejected-before-end-of-input: validation runs on the longest prefix
                jobs.append({"op": "parse", "s": f"{t} = {r1} {ops[k % 3]} {r2} )", "tag": "validation-prefix"})
                if thorough:
                    for r3 in refs:
                        k += 1
                        jobs.append({"op": "parse", "s": f"{t} = {r1} {ops[k % 3]} ({r2} {ops[(k // 3) % 3]} {r3})", "tag": "validation"})
    # three references of few tensors: the order check must look at every reference, the
    # target check at every name
    small = ["b()", "b(i)", "b(i,j)", "a(i)", "c(i)"]
    for t in ["a(i)", "c()"]:
        for r1 in small:
            for r2 in small:
                for r3 in small:
                    k += 1
                    jobs.append({"op": "parse", "s": f"{t} = {r1} {ops[k % 3]} {r2} {ops[(k // 3) % 3]} {r3}", "tag": "validation"})
    return jobs


def gen_asts(chk):
    """all syntax trees to depth 2 over three atoms (+ depth-3 shapes with random atoms, thorough)"""
    rng = chk.rng
    thorough = chk.tier == "thorough"
    atoms = [["t", "b", ["i"]], ["i", "7"], ["f", "1.5"]]
    extra = [["t", "c", ["j"]], ["t", "b", ["i"]], ["i", "0"], ["f", "1e22"], ["f", "1e3"], ["f", "2.5E-2"], ["i", "12"],
             ["f", "123456.789"], ["f", "0.1"], ["f", "1e-7"], ["t", "d", []], ["i", "12345678901234567890"]]

    def level(prev):
        out = list(prev)
        for op in "+-*":
            for l in prev:
                for r in prev:
                    out.append([op, l, r])
        return out

    d0 = atoms
    d1 = level(d0)
    d2 = level(d1)  # 3 + 27 -> 30 ; 30 + 3*900 = 2730
    trees = list(d2)
    if thorough:
        s0 = [["X"]]
        s1 = level(s0)
        s2 = level(s1)
        s3 = [[op, l, r] for op in "+-*" for l in s2 for r in s2 if (l not in s1 or r not in s1)]

        def fillx(t):
            if t[0] == "X":
                return rng.choice(atoms + extra)
            return [t[0], fillx(t[1]), fillx(t[2])]

        for sh in s3:
            trees.append(fillx(sh))
            trees.append(fillx(sh))
    else:
        for _ in range(300):
            # a few random depth-3/4 trees in the quick tier too
            def rnd(d):
                if d == 0 or rng.random() < 0.2:
                    return rng.choice(atoms + extra)
                return [rng.choice("+-*"), rnd(d - 1), rnd(d - 1)]
            trees.append(rnd(4))
    jobs = [{"op": "ast", "t": [["t", "a", ["i", "j"]], t], "tag": "ast"} for t in trees]
    # directly constructed invalid assignments (constructor must refuse them)
    bad = [
        [["t", "a", ["i"]], ["+", ["t", "a", ["i"]], ["i", "1"]]],
        [["t", "a", ["i"]], ["*", ["t", "b", ["i"]], ["t", "b", []]]],
        [["t", "a", ["b"]], ["t", "b", ["i"]]],
        [["t", "a", ["a"]], ["i", "1"]],
        [["t", "a", []], ["-", ["t", "b", ["i"]], ["-", ["t", "c", ["i"]], ["t", "i", []]]]],
    ]
    jobs += [{"op": "ast", "t": t, "tag": "ast-invalid"} for t in bad]
    return jobs


def gen_formats(chk):
    rng = chk.rng
    thorough = chk.tier == "thorough"
    jobs = []
    alpha = ["d", "s", "0", "1", "2"]
    maxlen = 6 if thorough else 5
    for n in range(0, maxlen + 1):
        for cs in itertools.product(alpha, repeat=n):
            jobs.append({"op": "format", "s": "".join(cs), "tag": "format"})
    extras = ["d s", " ds", "ds ", "d1 s0", "d\t", "d01s0", "d10s9d8d7d6d5d4d3d2d1d0", "D", "d3s1d0s2", "d0s1d2s3", "x", "d-1",
              "d1s0 ", "d+1", "d1.0", "d1e0", "ds0", "d0s", "s", "d00", "d000s001"]
    jobs += [{"op": "format", "s": s, "tag": "format"} for s in extras]
    pre = ["A:", "_x1:", ":", "A :", "1A:", "A", "a_b:", "A::", "Ab9_:", " A:", "A: "]
    bodies = ["", "d", "ds", "d1s0", "d1d", "d0s0", "d5", "d s", "s0d1", "d2s0d1", "x", "d0d"]
    for p in pre:
        for b in bodies:
            jobs.append({"op": "named", "s": p + b, "tag": "named"})
    for _ in range(400 if thorough else 100):
        n = rng.randrange(0, 5)
        perm = list(range(n))
        rng.shuffle(perm)
        if rng.random() < 0.3 and n:
            perm[rng.randrange(n)] = rng.randrange(0, n + 2)
        body = "".join(rng.choice("ds") + (rng.choice(["", "0", "00"]) if rng.random() < 0.2 else "") + str(o) for o in perm)
        jobs.append({"op": "named", "s": rng.choice(["A", "t_1", "_"]) + ":" + body, "tag": "named"})
    # directly constructed Format objects
    for nm in range(0, 4):
        for modes in itertools.product("ds", repeat=nm):
            if nm == 3 and modes not in (("d", "s", "d"), ("s", "s", "s")):
                continue
            for no in range(0, 5):
                for order in itertools.product(range(0, 4), repeat=no):
                    if no == 4 and rng.random() > 0.1:
                        continue
                    jobs.append({"op": "fobj", "modes": "".join(modes), "ord": list(order), "tag": "fobj"})
    return jobs


def gen_malformed(chk):
    """stream (b): must return a Result and never raise"""
    rng = chk.rng
    n = 50000 if chk.tier == "thorough" else 2000
    jobs = []
    printable = [chr(c) for c in range(32, 127)]
    pieces = ["a", "b", "i", "j", "(", ")", ",", "=", "+", "-", "*", " ", "1", "0", "7", "1.5", "1e3", "e", ".", "  ",
              "a(i)", "b(i,j)", "c()", "\t", "\n", "_", "1e", "E", "+-", ")(", "=="]
    for k in range(n):
        r = rng.random()
        if r < 0.35:
            s = "".join(rng.choice(printable) for _ in range(rng.randrange(0, 30)))
        elif r < 0.75:
            s = "".join(rng.choice(pieces) for _ in range(rng.randrange(0, 14)))
        elif r < 0.9:
            s = "a(i) = " + "".join(rng.choice(pieces) for _ in range(rng.randrange(0, 12)))
        else:
            s = "a(i) = " + "".join(rng.choice(["b(i)", "c(j)", "1", "2.5", " + ", " - ", " * ", "(", ")", " "]) for _ in range(rng.randrange(1, 16)))
        jobs.append({"op": "parse", "s": s, "tag": "malformed"})
        if k % 4 == 0:
            f = "".join(rng.choice(["d", "s", "0", "1", "2", "3", " ", ":", "A", "_", "x", "-", "\n"]) for _ in range(rng.randrange(0, 10)))
            jobs.append({"op": rng.choice(["format", "named"]), "s": f, "tag": "malformed-format"})
    # shaped stress inputs
    stress = []
    for d in [1, 5, 10, 30, 50, 60, 100, 1000, 3000, 5000]:
        stress.append("a() = " + "(" * d + "1" + ")" * d)
        stress.append("a() = " + "(" * d + "1")
        stress.append("a() = 1" + ")" * d)
        stress.append("a() = " + "(1+" * d + "1" + ")" * d)
    for t in [2, 10, 100, 500, 900, 2000, 5000]:
        stress.append("a() = " + " + ".join(["1"] * t))
        stress.append("a(i) = " + " * ".join(["b(i)"] * t))
        stress.append("a() = " + " - ".join(["1.5"] * t))
    for n_ in [1, 10, 100, 1000, 4300, 4301, 5000]:
        stress.append("a() = " + "1" * n_)
        stress.append("a() = " + "1" * n_ + ".5")
        stress.append("a() = 1." + "5" * n_)
        stress.append("a() = 1e" + "9" * n_)
        stress.append("a() = 1e-" + "9" * n_)
        stress.append("a" * n_ + "() = 1")
        stress.append("a(" + ",".join(["i"] * n_) + ") = 1")
    stress += ["a()\t=\t1", "a() =\n1", "a() = 1\n", "\ta() = 1", "a() = 1\r", "a() = 1\x0b", "a() = 1\x00", "\x00",
               "a() = ١", "a() = ١.٥", "a() = 1١.5", "a() = ²", "a() = 1e١", "a() = １",
               "a() = １.５", "é() = 1", "a(é) = 1", "a() = 1 + 1", "a() = 1  ", "a() = \ud800",
               "a() = 1e999", "a() = 1.0e400 * b(i)", "a() = 1e308", "a() = 1.7976931348623157e308", "a() = 1.7976931348623159e308",
               "a() = 1e-999", "a() = 5e-324", "a() = 0." + "0" * 400 + "1", "", " ", "=", "a", "a()", "a() =", "a() = ", "= 1"]
    jobs += [{"op": "parse", "s": s, "tag": "stress"} for s in stress]
    fstress = ["d" + "9" * n_ for n_ in [1, 100, 4300, 4301, 5000]] + ["d0" * 2000, "ds" * 5000, "d" * 20000,
               "".join(f"d{i}" for i in reversed(range(300))), "d١", "d０", "é:d", "A:" + "d" * 3000, "d0\n", "\nd", "d\x00"]
    jobs += [{"op": "format", "s": s, "tag": "stress-format"} for s in fstress]
    jobs += [{"op": "named", "s": "A:" + s, "tag": "stress-format"} for s in fstress]
    return jobs


# ----------------------------------------------------------------------------------------------
# running the implementation

def run_impl(chk, jobs, chunk=4000):
    results = []
    for i in range(0, len(jobs), chunk):
        part = jobs[i:i + chunk]
        payload = json.dumps({"seed": chk.seed * 1000 + i, "jobs": [{k: v for k, v in j.items() if k != "tag"} for j in part]})
        rc, out, err = chk.impl("c12_impl.py", [], input=payload, timeout=1200)
        if rc != 0:
            raise RuntimeError(f"harness c12_impl.py failed rc={rc}: {err[-1500:]}")
        results += json.loads(out)["results"]
    assert len(results) == len(jobs)
    return results


# ----------------------------------------------------------------------------------------------
# running the model

def parse_failing(out: str):
    m = re.search(r"=\s*\[([0-9;\s]*)\]", out)
    if not m:
        return None
    body = m.group(1).strip()
    return [int(x) for x in body.split(";")] if body else []


RUN_TAG = f"c12_{os.getpid()}"


def coq_shards(chk, name, decl_type, terms, check_fun, per=500):
    """Evaluate `check_fun : decl_type -> bool` on every term; return the failing indexes."""
    shards = [terms[i:i + per] for i in range(0, len(terms), per)]

    def one(k):
        text = (HEADER + f"Definition cases : list ({decl_type}) :=\n  [ " + ";\n    ".join(shards[k]) + " ].\n"
                + f"Eval vm_compute in (failing (map ({check_fun}) cases)).\n")
        ok, out = chk.coq_eval(f"{RUN_TAG}_{name}_{k}", text, timeout=900)
        bad = parse_failing(out) if ok else None
        if bad is not None and not bad:
            cleanup_case(f"{RUN_TAG}_{name}_{k}")
        return k, ok, out, bad

    failing = []
    errors = []
    with ThreadPoolExecutor(max_workers=6) as ex:
        for k, ok, out, bad in ex.map(one, range(len(shards))):
            if bad is None:
                errors.append({"shard": f"c12_{name}_{k}", "output": out[-1500:]})
            else:
                failing += [k * per + b for b in bad]
    return failing, errors


def cleanup_case(stem: str):
    for ext in (".v", ".vo", ".vok", ".vos", ".glob"):
        try:
            (VERIF / "build" / "cases" / (stem + ext)).unlink()
        except OSError:
            pass
    try:
        (VERIF / "build" / "cases" / ("." + stem + ".aux")).unlink()
    except OSError:
        pass


def model_answer(chk, expr_text: str) -> str:
    ok, out = chk.coq_eval(f"{RUN_TAG}_answer", HEADER + f"Eval vm_compute in ({expr_text}).\n", timeout=300)
    cleanup_case(f"{RUN_TAG}_answer")
    return out.strip()[-1500:]


# ----------------------------------------------------------------------------------------------
# judging one implementation result on its own (the property's clauses)

def judge_parse(chk, job, res, out):
    """Direct checks for a parse_assignment / Assignment job.  Appends to out['violations'] /
    out['known'] and returns True when the case can be sent to the model."""
    s = job.get("s")
    k = res["k"]
    if k == "harness-error":
        chk.broken.append({"kind": "harness", "job": job, "res": res})
        return False
    if k == "raise":
        kf = classify_raise(s if s is not None else "", res)
        if kf:
            out["known"].append((kf, job, res))
        else:
            out["violations"].append(("the parser raised instead of returning a Result", job, res))
        return False
    if k in ("bad-success", "not-a-result"):
        out["violations"].append(("the parser returned something that is neither a tree nor a typed failure", job, res))
        return False
    if k == "err":
        if res["cls"].startswith("OTHER"):
            # forward compatibility with the candidate fixes for K-C12-1/2 (catch -> Failure(exc)):
            # such a Failure is a typed failure exactly on the inputs of the known families
            probe = s if s is not None else ""
            if res["cls"] == "OTHER:ValueError" and max_digit_run(probe) > 4300:
                chk.count("fixed-form:K-C12-1")
                return False
            if res["cls"] == "OTHER:RecursionError" and 14 * nesting(probe) + op_count(probe) >= RECURSION_DEMAND:
                chk.count("fixed-form:K-C12-2")
                return False
            out["violations"].append(("the failure is not one of the typed failures", job, res))
            return False
        if res["cls"] == "ParseError" and s is not None and s.isascii() and has_overflowing_float(s):
            # candidate fix for K-C12-3 (reject non-finite literals): binary64 range is outside the
            # model, either answer is a typed failure; not compared with the model
            chk.count("overflowing-literal-rejected")
            return False
        return True
    # accepted
    text_in = s
    for stage in ("deparse", "reparse"):
        if stage in res:
            info = res[stage]
            probe = res.get("text") or text_in or ""
            kf = classify_raise(text_in if text_in is not None else probe, info) or classify_raise(probe, info)
            if kf:
                out["known"].append((kf, job, res))
            else:
                out["violations"].append((f"{stage} of an accepted assignment raised", job, res))
            return False
    tree = res.get("tree")
    if tree is not None and has_nonfinite(tree):
        if res.get("rt") is False and (s is None or has_overflowing_float(s)):
            out["known"].append(("K-C12-3", job, res))
        else:
            out["violations"].append(("non-finite literal in an accepted tree outside the known family", job, res))
        return False
    if res.get("rt") is not True:
        out["violations"].append(("parse(deparse(tree)) is not the tree", job, res))
        return False
    for key in ("meaning_printed", "meaning_source"):
        m = res.get(key)
        if m and m.get("m") == "fail":
            out["violations"].append((f"the tree does not evaluate to what the text says ({key})", job, res))
            return False
    if tree is not None:
        why = validity_clauses(tree)
        if why:
            out["violations"].append((why, job, res))
            return False
        # structural reading: the tree of the text is the tree of Python's own grammar
        for text in ([res.get("text")] + ([s] if s is not None else [])):
            if text and "=" in text and len(text) < 3000 and text.isascii():
                conv = conventional_tree(text.split("=", 1)[1])
                if conv is None:
                    continue
                if conv != strip_float(tree[1]):
                    out["violations"].append(("the tree is not the conventional reading of the text (precedence / associativity / parentheses)",
                                              job, dict(res, conventional=conv)))
                    return False
    return tree is not None


def judge_format(chk, job, res, out):
    s = job.get("s", "")
    k = res["k"]
    if k == "harness-error":
        chk.broken.append({"kind": "harness", "job": job, "res": res})
        return False
    if k == "raise":
        kf = classify_raise(s, res)
        if kf:
            out["known"].append((kf, job, res))
        else:
            out["violations"].append(("the format parser raised instead of returning a Result", job, res))
        return False
    if k in ("bad-success", "not-a-result"):
        out["violations"].append(("the format parser returned something that is neither a Format nor a typed failure", job, res))
        return False
    if k == "err":
        if res["cls"].startswith("OTHER"):
            if res["cls"] == "OTHER:ValueError" and job["op"] != "fobj" and max_digit_run(s) > 4300:
                chk.count("fixed-form:K-C12-1")   # candidate fix: catch -> Failure(ValueError)
                return False
            out["violations"].append(("the failure is not one of the typed failures", job, res))
            return False
        return True
    if job["op"] == "fobj":
        return True  # constructor behaviour is compared with the model only
    for stage in ("deparse", "reparse"):
        if stage in res:
            out["violations"].append((f"{stage} of an accepted format raised", job, res))
            return False
    modes, order = res["fmt"]
    if sorted(int(o) for o in order) != list(range(len(modes))):
        out["violations"].append(("accepted a format whose ordering is not a permutation of 0..n-1", job, res))
        return False
    if res.get("rt") is not True:
        out["violations"].append(("parse(deparse(format)) is not the format", job, res))
        return False
    return True


# ----------------------------------------------------------------------------------------------

def is_model_domain(s: str) -> bool:
    return s.isascii() and len(s) <= 400


SCAN_RE = re.compile(r"[A-Za-z][A-Za-z0-9]*|(?P<f>[0-9]+(?:(?:\.[0-9]+(?:[Ee][+-]?[0-9]+)?)|(?:(?:\.[0-9]+)?[Ee][+-]?[0-9]+)))|[0-9]+")
FLOAT_PARTS = re.compile(r"([0-9]+)(?:\.([0-9]+))?(?:[Ee]([+-]?[0-9]+))?")


def exact_dec(spelling: str):
    """exact decimal value m * 10^e of a float spelling, normalised like the model's [mkdec]"""
    m_ = FLOAT_PARTS.fullmatch(spelling)
    ip, fp, ex = m_.group(1), m_.group(2) or "", m_.group(3) or "0"
    m = int(ip + fp)
    e = int(ex) - len(fp)
    if m == 0:
        return "0", "0"
    while m % 10 == 0:
        m //= 10
        e += 1
    return str(m), str(e)


def respell_floats(s: str, tree):
    """The literal codec (Python's float()) is not modelled: the model carries the exact decimal of
    a spelling.  Float leaves occur in the tree in the order of the float spellings in the text; when
    float(spelling_k) is the k-th float leaf, that leaf is written as the exact decimal of the
    spelling.  Otherwise the tree is left alone (and a real disagreement shows up as such)."""
    if not s.isascii():
        return tree
    spellings = []
    if "=" in s:
        for m_ in SCAN_RE.finditer(s.split("=", 1)[1]):
            if m_.group("f") is not None:
                spellings.append(m_.group("f"))
    leaves = []

    def collect(t):
        if t[0] == "f":
            leaves.append(t)
        elif t[0] in "+-*":
            collect(t[1])
            collect(t[2])

    collect(tree[1])
    if len(spellings) != len(leaves):
        return tree
    repl = {}
    for sp, leaf in zip(spellings, leaves):
        try:
            if float(sp).hex() != leaf[1]:
                return tree
        except ValueError:
            return tree
        repl[id(leaf)] = exact_dec(sp)

    def rebuild(t):
        if t[0] == "f":
            m, e = repl[id(t)]
            return ["f", t[1], m, e]
        if t[0] in "+-*":
            return [t[0], rebuild(t[1]), rebuild(t[2])]
        return t

    return [tree[0], rebuild(tree[1])]


def expected_pres(res, s=None) -> str:
    if res["k"] == "ok":
        tree = respell_floats(s, res["tree"]) if s is not None else res["tree"]
        return f"POk {cassign(tree)}"
    return PRES[res["cls"]]


def compare_with_model(chk, jobs, results, sendable, out):
    """Correspondence: the proved model and the implementation give the same answers."""
    # ---- parse_assignment
    idx = [i for i in sendable if jobs[i]["op"] == "parse" and is_model_domain(jobs[i]["s"])]
    if chk.tier == "thorough":
        # the random stream is 50 000 strings, almost all rejected: every accepted one and a
        # 40 % sample of the rejected ones go to the model (all of them are judged directly)
        idx = [i for i in idx if jobs[i].get("tag") != "malformed" or results[i]["k"] == "ok" or (i % 5) < 2]
    terms = [f"({cstr(jobs[i]['s'])}, {expected_pres(results[i], jobs[i]['s'])})" for i in idx]
    bad, errs = coq_shards(chk, "parse", "string * pres", terms,
                           "fun c => pres_eqb (parse_assignment (fst c)) (snd c)")
    for e in errs:
        chk.broken.append({"kind": "coq-eval", **e})
    for b in bad[:20]:
        i = idx[b]
        ans = model_answer(chk, f"parse_assignment {cstr(jobs[i]['s'])}")
        out["violations"].append(("implementation and proved model disagree on parse_assignment", jobs[i], dict(results[i], model=ans)))
    chk.count("model_compared_parse", len(idx))
    # ---- printed text of accepted strings: lexes to the model's deparse tokens
    idx2 = [i for i in idx if results[i]["k"] == "ok" and "text" in results[i] and is_model_domain(results[i]["text"])]
    terms = [f"({cassign(results[i]['tree'])}, {cstr(results[i]['text'])})" for i in idx2]
    chk_fun = ("fun c => otokens_eqb (lex (snd c)) (deparse (fst c)) && pres_eqb (parse_tokens (deparse (fst c))) (POk (fst c)) && "
               "(if float_free (rhs (fst c)) then String.eqb (string_of_list_ascii (print_assignment show_dec_canonical (fst c))) (snd c) else true)")
    bad, errs = coq_shards(chk, "deparse", "assignment * string", terms, chk_fun)
    for e in errs:
        chk.broken.append({"kind": "coq-eval", **e})
    for b in bad[:20]:
        i = idx2[b]
        ans = model_answer(chk, f"deparse {cassign(results[i]['tree'])}")
        out["violations"].append(("implementation and proved model disagree on Assignment.deparse", jobs[i], dict(results[i], model=ans)))
    chk.count("model_compared_deparse", len(idx2))
    # ---- directly constructed trees
    idx3 = [i for i in sendable if jobs[i]["op"] == "ast"]
    terms = []
    keep = []
    for i in idx3:
        r = results[i]
        if r["k"] == "ok":
            if not is_model_domain(r.get("text", "")):
                continue
            terms.append(f"({cassign(r['tree'])}, VOk, {cstr(r['text'])})")
        else:
            t = job_tree_as_impl_tree(jobs[i]["t"])
            if t is None:
                continue
            terms.append(f"({cassign(t)}, {VRES[r['cls']]}, {cstr('')})")
        keep.append(i)
    chk_fun = ("fun c => let '(a, v, s) := c in vres_eqb (validate a) v && "
               "match v with VOk => otokens_eqb (lex s) (deparse a) && pres_eqb (parse_tokens (deparse a)) (POk a) && "
               "(if float_free (rhs a) then String.eqb (string_of_list_ascii (print_assignment show_dec_canonical a)) s else true) "
               "| _ => true end")
    bad, errs = coq_shards(chk, "ast", "assignment * vres * string", terms, chk_fun)
    for e in errs:
        chk.broken.append({"kind": "coq-eval", **e})
    for b in bad[:20]:
        i = keep[b]
        out["violations"].append(("implementation and proved model disagree on Assignment(...) / deparse of a constructed tree", jobs[i], results[i]))
    chk.count("model_compared_ast", len(keep))
    # ---- formats
    idxf = [i for i in sendable if jobs[i]["op"] == "format" and is_model_domain(jobs[i]["s"])]
    terms = []
    for i in idxf:
        r = results[i]
        if r["k"] == "ok":
            terms.append(f"({cstr(jobs[i]['s'])}, FOk {cformat(r['fmt'])}, {cstr(r['text'])})")
        else:
            terms.append(f"({cstr(jobs[i]['s'])}, {FRES[r['cls']]}, {cstr('')})")
    chk_fun = ("fun c => let '(s, e, t) := c in fres_format_eqb (parse_format s) e && "
               "match e with FOk f => ostring_eqb (deparse_format f) t | _ => true end")
    bad, errs = coq_shards(chk, "format", "string * fres format * string", terms, chk_fun)
    for e in errs:
        chk.broken.append({"kind": "coq-eval", **e})
    for b in bad[:20]:
        i = idxf[b]
        ans = model_answer(chk, f"parse_format {cstr(jobs[i]['s'])}")
        out["violations"].append(("implementation and proved model disagree on parse_format / Format.deparse", jobs[i], dict(results[i], model=ans)))
    chk.count("model_compared_format", len(idxf))
    idxn = [i for i in sendable if jobs[i]["op"] == "named" and is_model_domain(jobs[i]["s"])]
    terms = []
    for i in idxn:
        r = results[i]
        if r["k"] == "ok":
            terms.append(f"({cstr(jobs[i]['s'])}, FOk ({cstr(r['name'])}, {cformat(r['fmt'])}))")
        else:
            terms.append(f"({cstr(jobs[i]['s'])}, {FRES[r['cls']]})")
    bad, errs = coq_shards(chk, "named", "string * fres (string * format)", terms,
                           "fun c => fres_named_eqb (parse_named_format (fst c)) (snd c)")
    for e in errs:
        chk.broken.append({"kind": "coq-eval", **e})
    for b in bad[:20]:
        i = idxn[b]
        ans = model_answer(chk, f"parse_named_format {cstr(jobs[i]['s'])}")
        out["violations"].append(("implementation and proved model disagree on parse_named_format", jobs[i], dict(results[i], model=ans)))
    chk.count("model_compared_named", len(idxn))
    idxo = [i for i in sendable if jobs[i]["op"] == "fobj"]
    terms = []
    for i in idxo:
        r = results[i]
        f = cformat([jobs[i]["modes"], [str(o) for o in jobs[i]["ord"]]])
        if r["k"] == "err":
            terms.append(f"({f}, false, None)")
        elif "deparse" in r:
            terms.append(f"({f}, true, None)")
        else:
            terms.append(f"({f}, true, Some {cstr(r['text'])})")
    chk_fun = ("fun c => let '(f, ok, t) := c in Bool.eqb (format_constructible f) ok && "
               "(if ok then match t with Some s => ostring_eqb (deparse_format f) s | None => is_none (deparse_format f) end else true)")
    bad, errs = coq_shards(chk, "fobj", "format * bool * option string", terms, chk_fun)
    for e in errs:
        chk.broken.append({"kind": "coq-eval", **e})
    for b in bad[:20]:
        i = idxo[b]
        out["violations"].append(("implementation and proved model disagree on Format(...) / Format.deparse", jobs[i], results[i]))
    chk.count("model_compared_fobj", len(idxo))


def job_tree_as_impl_tree(t):
    """generator tree (floats as spellings) -> tree with decimal floats; None if it has floats we
    cannot convert without the implementation (only used for rejected constructed trees)"""
    from decimal import Decimal

    def conv(x):
        if x[0] == "f":
            v = float(x[1])
            d = Decimal(repr(v))
            sign, digits, exp = d.as_tuple()
            m = int("".join(map(str, digits)))
            if m == 0:
                return ["f", v.hex(), "0", "0"]
            while m % 10 == 0:
                m //= 10
                exp += 1
            return ["f", v.hex(), str(m), str(exp)]
        if x[0] in "+-*":
            return [x[0], conv(x[1]), conv(x[2])]
        return x

    return [t[0], conv(t[1])]


def load_corpus():
    d = VERIF / "corpus" / PROP
    jobs = []
    if d.is_dir():
        for p in sorted(d.glob("*.json")):
            try:
                j = json.loads(p.read_text())
                for item in (j if isinstance(j, list) else [j]):
                    if "op" in item:
                        item.setdefault("tag", "corpus")
                        jobs.append(item)
            except (ValueError, OSError):
                pass
    return jobs


KNOWN_TEXT = {
    "K-C12-1": "int() of a digit run longer than 4300 raises ValueError inside the parser (expression/_parser.py integer, format/_parser.py integer)",
    "K-C12-2": "RecursionError escapes for deep parentheses / very long operator chains (parsita recursion, Assignment.__post_init__ variables())",
    "K-C12-3": "a float literal that overflows parses to Float(inf), whose deparse 'inf' does not re-parse",
}


def process(chk, jobs):
    import time
    t0 = time.time()
    results = run_impl(chk, jobs)
    chk.extra.setdefault("timing_s", {})["implementation"] = round(time.time() - t0, 1)
    out = {"violations": [], "known": []}
    sendable = []
    for i, (job, res) in enumerate(zip(jobs, results)):
        chk.count("tag:" + job.get("tag", "?"))
        chk.count("impl:" + (res["k"] if res["k"] != "err" else "err:" + res["cls"]))
        if job["op"] in ("parse", "ast"):
            ok = judge_parse(chk, job, res, out)
        else:
            ok = judge_format(chk, job, res, out)
        nontrivial = res["k"] in ("ok", "err")
        chk.case((job["op"], job.get("s"), json.dumps(job.get("t")), job.get("modes"), str(job.get("ord"))), nontrivial=nontrivial)
        if ok:
            sendable.append(i)
    chk.extra["timing_s"]["judging"] = round(time.time() - t0 - chk.extra["timing_s"]["implementation"], 1)
    t1 = time.time()
    compare_with_model(chk, jobs, results, sendable, out)
    chk.extra["timing_s"]["model"] = round(time.time() - t1, 1)
    return results, out


def report(chk, out):
    best = {}
    for fid, job, res in out["known"]:
        chk.count("known:" + fid)
        w = job.get("s", "")
        if fid not in best or len(w) < len(best[fid]):
            best[fid] = w
    for fid in sorted(best):
        w = best[fid]
        w = w if len(w) < 60 else f"{w[:24]}...({len(w)} chars)"
        chk.known_finding(fid, f"{KNOWN_TEXT[fid]}; shortest witness in this run {w!r}")
    for what, job, res in out["violations"][:12]:
        j = {k: v for k, v in job.items()}
        if isinstance(j.get("s"), str) and len(j["s"]) > 20000:
            j["s_len"] = len(j["s"])
        chk.violation(what, {"job": j, "observed": res})


def run(chk):
    chk.rule = (
        "stream (a): every string over the expression token alphabet {atom,+,-,*,(,)} up to 5 (quick) / 7 (thorough) tokens "
        "(all sentences, all non-sentences up to 4 tokens and a sample of longer ones), atoms drawn from two tensor names, two "
        "index names and the literal spellings 0 7 007 1.5 1e3 2.5E-2 1e22 (+1e999 and malformed spellings), random spacing; all raw "
        "token strings over {b,i,(,),',',+,1,*,=} up to 4/5 tokens; every target x two/three tensor references for validation; all "
        "syntax trees to depth 2 over three atoms (+ all depth-3 shapes, thorough); all format strings over {d,s,0,1,2} up to 5/6 "
        "characters, named formats, directly constructed Format objects. stream (b): random ASCII, token soup, deep/unbalanced "
        "parentheses, long sums/products, long digit runs, tabs/newlines/NUL, non-ASCII digits. A case is distinct by its input; "
        "non-trivial = the implementation returned a tree or a typed failure (not a crash)."
    )
    chk.trusted += [
        "hand model coq/model/Parser.v: lexer, recursive-descent parser, validation tied to expression/_parser.py (parsita combinators: not translatable) by correspondence only; deparse by regeneration + equivalence proof (TIE deparse)",
        "hand model coq/model/FormatParser.v tied to format/_parser.py + _format.py by correspondence only",
        "parsita's combinator semantics (longest alternative, repetition backtracking, conversion before end-of-input) as modelled",
        "literal codec: Python int()/float()/str() on literal spellings; floats compared as the exact decimal of repr(float)",
        "theorems are about ASCII input; non-ASCII text is only tested for 'returns a Result'",
    ]
    chk.coq_props()
    # known-finding lemmas (refuted statements about the model, outside the obligations)
    finding_files = sorted((VERIF / "coq" / "findings").glob("K_C12_*.v"))
    if finding_files:
        ok, log = chk.coq_make([f"findings/{p.stem}.vo" for p in finding_files], timeout=600)
        if not ok:
            chk.note("FINDING-NO-LONGER-REPRODUCES or findings file broken: " + log.strip().splitlines()[-1][:200])

    jobs = load_corpus()
    n_corpus = len(jobs)
    jobs += gen_sentences(chk)
    jobs += gen_raw(chk)
    jobs += gen_validation(chk)
    jobs += gen_asts(chk)
    jobs += gen_formats(chk)
    jobs += gen_malformed(chk)
    chk.count("corpus_cases", n_corpus)
    results, out = process(chk, jobs)
    # samples for the evidence file
    shown = 0
    for job, res in zip(jobs, results):
        if job.get("tag") in ("sentence", "ast", "validation", "format", "literal") and shown < 8 and res["k"] in ("ok", "err"):
            if (shown % 2 == 0) == (res["k"] == "ok"):
                chk.sample({"input": job.get("s") or job.get("t"), "impl": {k: res[k] for k in ("k", "cls", "text", "rt") if k in res}})
                shown += 1
    # the three known findings must still be what they were: replay their canonical witnesses
    report(chk, out)

    # tie to the source by regeneration: the listed definitions are re-translated from /repo by py2coq on
    # every run and PROVED equal to the hand models (coq/props/TIE.v), plus a translator self-check
    from props._tie import run_tie
    run_tie(chk, ['deparse', 'grammar', 'compose'])


def replay(chk, payload):
    job = payload.get("job")
    if not job:
        print("replay file has no concrete input (broken obligation):", json.dumps(payload.get("broken"), indent=1)[:3000])
        return 1
    job = dict(job)
    job.setdefault("tag", "replay")
    results, out = process(chk, [job])
    print("input   :", repr(job.get("s", job.get("t", job)))[:500])
    print("observed:", json.dumps(results[0])[:1500])
    for fid, _, _ in out["known"]:
        print("KNOWN-FINDING:", fid, KNOWN_TEXT[fid])
    if out["violations"] or chk.broken:
        for what, _, res in out["violations"]:
            print("VIOLATION:", what)
            if "model" in res:
                print("model   :", res["model"])
        return 1
    print("no violation on this input")
    return 0
