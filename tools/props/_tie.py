"""TIE -- the hand models are PROVED equal to definitions regenerated from /repo's source.

    from props._tie import run_tie
    run_tie(chk, ["exhaust", "context"])        # in C01 / C16
    run_tie(chk, ["names"])                      # in C08
    run_tie(chk, ["deparse"])                    # in C12
    run_tie(chk, ["variables", "index_participants"])   # in C10 / C15
    run_tie(chk, ["desugar"])                    # in C01 / C15

For every name: (1) regenerate the gen/*.v files it needs from /repo's working tree (py2coq,
fail-closed); (2) rebuild the equivalence proof proofs/Gen*_equiv.vo (generated function = hand
model, unbounded, by induction); (3) translator self-check: the REAL Python function and the
regenerated Gallina function on generated arguments (evaluated inside coqc by vm_compute).

A failed regeneration, a failed proof or a self-check disagreement is appended to chk.broken (with
the tail of Coq's output); the caller's searcher then looks for a concrete failing input as for
any other broken obligation.  Returns {name: {"regen": bool, "proof": bool, "selfcheck": bool}}.
"""

from __future__ import annotations

import json
import os
import re

TIE = {
    "exhaust": {
        "gen": ["ExhaustAst.v", "Exhaust.v"],
        "vo": "proofs/GenExhaust_equiv.vo",
        "theorems": ["gen_exhaust_equiv", "gen_exhaust_flag_sound", "gen_exhaust_flag_complete", "gen_exhaust_sound"],
        "source": "iteration_graph/identifiable_expression/{ast,_exhaust_tensor}.py",
        "model": "coq/model/Exhaust.v (exhaust_aux)",
    },
    "context": {
        "gen": ["ExhaustAst.v", "Exhaust.v"],
        "vo": "proofs/GenExhaust_equiv.vo",
        "theorems": ["gen_context_equiv", "gen_is_sparse_equiv", "gen_context_total",
                     "gen_sparse_context_sound", "gen_condition_implies_sparse"],
        "source": "iteration_graph/identifiable_expression/_extract_context.py (+ Mode, TensorLayer)",
        "model": "coq/model/Exhaust.v (extract_context), coq/model/Context.v (is_sparse)",
    },
    "names": {
        "gen": ["IRAst.v", "Names.v"],
        "vo": "proofs/GenNames_equiv.vo",
        "theorems": ["gen_names_equiv", "gen_previous_layer_pointer", "gen_names_injective"],
        "source": "iteration_graph/_names.py",
        "model": "coq/model/Names.v (render)",
    },
    "deparse": {
        "gen": ["Deparse.v"],
        "vo": "proofs/GenDeparse_equiv.vo",
        "theorems": ["gen_deparse_equiv", "gen_assignment_deparse_equiv", "gen_deparse_roundtrip_int"],
        "source": "expression/ast.py (deparse methods)",
        "model": "coq/model/Parser.v (print_expr, print_assignment)",
    },
    "index_participants": {
        "gen": ["Deparse.v", "Desugar.v"],
        "vo": "proofs/GenIndexParticipants_equiv.vo",
        "theorems": ["gen_index_participants_equiv", "gen_index_names_summary", "gen_index_participants_keys_NoDup",
                     "gen_assignment_index_participants_equiv", "gen_assignment_index_names_summary"],
        "source": "expression/ast.py (index_participants methods, merge_index_participants)",
        "model": "coq/model/ExprAst.v (index_participants)",
    },
    "variables": {
        "gen": ["Deparse.v"],
        "vo": "proofs/GenVariables_equiv.vo",
        "theorems": ["gen_variables_equiv", "gen_variable_orders"],
        "source": "expression/ast.py (variables methods)",
        "model": "coq/model/ExprAst.v (variables, variable_orders)",
    },
}

try:
    from props._tie_desugar import TIE_DESUGAR

    TIE.update(TIE_DESUGAR)
except ImportError:
    pass
# further entries: tools/props/_tie_<name>.py, each exposing TIE_EXTRA = {name: {...}}
import importlib as _il
from pathlib import Path as _P

for _p in sorted(_P(__file__).resolve().parent.glob("_tie_*.py")):
    if _p.stem == "_tie_desugar":
        continue
    TIE.update(getattr(_il.import_module("props." + _p.stem), "TIE_EXTRA", {}))


def _parse_nats(out: str):
    m = re.search(r"=\s*(\[.*?\]|nil)\s*:\s*list nat", out, flags=re.S)
    if not m:
        return None
    return [int(x) for x in re.findall(r"\d+", m.group(1))]


def run_tie(chk, names, n_cases: int | None = None) -> dict:
    unknown = [n for n in names if n not in TIE]
    if unknown:  # fail closed on a misspelt target
        chk.broken.append({"kind": "harness", "what": f"run_tie: unknown target(s) {unknown}; known: {sorted(TIE)}"})
    names = [n for n in names if n in TIE]
    res = {n: {"regen": False, "proof": False, "selfcheck": False} for n in names}
    if not names:
        return res
    n_cases = n_cases or (300 if chk.tier == "quick" else 500)
    chk.trusted += [
        "translator tools/py2coq (core.py + extra.py) for " + ", ".join(sorted({TIE[n]["source"] for n in names}))
        + "; guarded by the self-check (Python function vs regenerated Gallina function on generated arguments); "
          "assumptions about `is`, set order and exceptions in design.d/TIE.md",
    ]
    # 1. regenerate
    files = []
    for n in names:
        for f in TIE[n]["gen"]:
            if f not in files:
                files.append(f)
    before = len(chk.broken)
    chk.regen(files)
    bad_files = {b.get("file") for b in chk.broken[before:] if b.get("kind") == "translation"}
    for b in chk.broken[before:]:
        if b.get("kind") == "translation":
            b["tie"] = [n for n in names if b.get("file") in TIE[n]["gen"]]
    # 2. equivalence proofs
    built: dict[str, tuple[bool, str]] = {}
    for n in names:
        res[n]["regen"] = not (set(TIE[n]["gen"]) & bad_files)
        vo = TIE[n]["vo"]
        if not res[n]["regen"]:
            for t in TIE[n]["theorems"]:
                chk.obligations.append({"theorem": f"TIE {n}: {t} (not built: translation failed)", "discharged": False, "axioms": None})
            continue
        if vo not in built:
            built[vo] = chk.coq_make([vo], timeout=900)
        ok, log = built[vo]
        res[n]["proof"] = ok
        if not ok:
            tail = "\n".join(log.strip().splitlines()[-30:])
            chk.broken.append({"kind": "tie-proof", "tie": n, "file": vo[:-1],
                               "what": f"the definitions regenerated from {TIE[n]['source']} are no longer proved equal to {TIE[n]['model']}",
                               "coq_output_tail": tail[-3000:]})
    # 3. self-check + Print Assumptions of the equivalence theorems
    todo = [n for n in names if res[n]["regen"]]
    cases = {}
    if todo:
        # one process per target: a generator may change process-wide state of the library under test (the capacity hook,
        # caches) and must not influence the next target's expectations
        from concurrent.futures import ThreadPoolExecutor as _TPE

        def gen_one(n):
            return n, chk.impl("tie_gen.py", input=json.dumps({"seed": chk.seed * 31 + 7, "n": n_cases, "names": [n]}), timeout=600)

        with _TPE(max_workers=4) as ex:
            for n, (rc, out, err) in ex.map(gen_one, todo):
                if rc != 0:
                    chk.broken.append({"kind": "harness", "what": "tie_gen failed (the real functions could not be run on generated arguments)",
                                       "tie": [n], "stderr": err[-2000:]})
                else:
                    try:
                        cases.update(json.loads(out))
                    except ValueError:
                        chk.broken.append({"kind": "harness", "what": "tie_gen printed no JSON", "tie": [n], "stdout_tail": out[-500:]})
    from concurrent.futures import ThreadPoolExecutor

    def evaluate(n):
        text = cases[n]["coq"]
        if res[n]["proof"]:
            mod = TIE[n]["vo"][:-3].replace("/", ".")
            text += f"From TV Require {mod}.\n" + "".join(
                f"Print Assumptions TV.{mod}.{t}.\n" for t in TIE[n]["theorems"])
        return n, chk.coq_eval(f"tie_{n}_{chk.tier}_{os.getpid()}", text, timeout=600)

    with ThreadPoolExecutor(max_workers=4) as ex:
        outs = dict(ex.map(evaluate, [n for n in todo if n in cases]))
    from vlib.core import parse_assumptions

    for n in todo:
        if n not in outs:
            continue
        ok, out = outs[n]
        fails = _parse_nats(out) if ok else None
        if fails is None:
            chk.broken.append({"kind": "correspondence", "tie": n,
                               "what": "translator self-check did not evaluate (the regenerated file does not compile, or its interface changed)",
                               "output": out[-2000:]})
        elif fails:
            chk.broken.append({"kind": "correspondence", "tie": n,
                               "what": "regenerated Gallina function differs from the Python function (translator self-check)",
                               "examples": [cases[n]["descr"][i] for i in fails[:5]], "count": len(fails)})
        else:
            res[n]["selfcheck"] = True
            chk.count(f"tie.{n}.self_check_cases", cases[n]["n"])
        blocks = parse_assumptions(out) if ok else []
        for i, t in enumerate(TIE[n]["theorems"]):
            ax = blocks[i] if res[n]["proof"] and i < len(blocks) else None
            chk.obligations.append({"theorem": f"TIE {n}: {t}", "discharged": bool(res[n]["proof"]), "axioms": ax})
            for a in ax or []:
                if a not in chk.assumptions:
                    chk.assumptions.append(a)
    # thorough tier: independent re-check (coqchk) of every equivalence library and all it depends on
    if chk.tier == "thorough":
        import re as _re
        from vlib.core import COQ, sh

        libs = sorted({TIE[n]["vo"][:-3].replace("/", ".") for n in names if res[n]["proof"]})

        def chk_one(lib):
            rc, out, err = sh(["timeout", "1500", "coqchk", "-silent", "-o", "-Q", ".", "TV", "TV." + lib], cwd=COQ, timeout=1530)
            return lib, rc, out + err

        with ThreadPoolExecutor(max_workers=3) as ex:
            for lib, rc, txt in ex.map(chk_one, libs):
                chk.extra.setdefault("tie_coqchk", {})[lib] = {
                    "exit": rc,
                    "axioms": _re.findall(r"^\s+([A-Za-z_][\w.']*)\s*$", txt.split("* Axioms:")[-1], flags=_re.M)[:60] if "* Axioms:" in txt else [],
                    "tail": txt.strip().splitlines()[-4:]}
                if rc != 0 and rc != 124:
                    chk.broken.append({"kind": "proof", "tie": [n for n in names if TIE[n]["vo"][:-3].replace("/", ".") == lib],
                                       "what": "coqchk rejects the equivalence library", "coqchk_output_tail": txt[-2000:]})
    chk.extra.setdefault("tie", {}).update(res)
    return res
