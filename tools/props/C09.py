"""C09 -- tensor construction and read-back are lossless for every format.

Proof side : coq/props/C09.v (unbounded theorems about the hand model coq/model/TensorBuild.v).
Tie        : exhaustive / sampled correspondence between that model and /repo's tensor.py
             (raw taco arrays, items, to_dok, to_format, pickle) -- see `rule` below.
Searcher   : the same sweep judged by the property itself, computed independently here in Python
             from the input (`expected_dok`) and from the raw arrays (`py_entries`, `py_wf`).
Known findings are recognised by classifiers (`classify_read`, `classify_oor`), never by case id.
"""
from __future__ import annotations

import itertools
import json
import os
import random
from concurrent.futures import ThreadPoolExecutor
from pathlib import Path

from vlib.core import VERIF, load_known

PROP = "C09"
RUN_ID = f"p{os.getpid()}"      # concurrent runs (e.g. against scratch worktrees) do not share scratch files
CORPUS = VERIF / "corpus" / PROP

K1 = "K-C09-1"
K2 = "K-C09-2"
K1_TEXT = ("Tensor.items applies mode_ordering instead of its inverse: ordering is not an involution and the "
           "read-back coordinates are the stored coordinates permuted by the ordering instead of its inverse "
           "(items/to_dok/==/to_format; raw arrays and pickling are right)")
K2_TEXT = ("a coordinate outside the dimensions whose first out-of-range level (in storage order) is a dense level "
           "is silently dropped by from_aos/from_dok/from_soa/from_lol instead of being rejected "
           "(rejected when that level is compressed)")

BITS = {1: "build!=model", 2: "impl arrays not wf_tensorb", 4: "items!=items_spec", 8: "items!=items_impl",
        16: "to_dok!=spec", 32: "to_dok!=impl-variant", 64: "to_format!=spec", 128: "to_format!=impl-variant",
        256: "pickle!=model", 512: "build!=range-checked model"}


# ------------------------------------------------------------------------------------------------
# formats, inputs
# ------------------------------------------------------------------------------------------------
def all_formats(n):
    return [(list(m), list(o)) for m in itertools.product((0, 1), repeat=n) for o in itertools.permutations(range(n))]


def noninv(o):
    return any(o[o[i]] != i for i in range(len(o)))


def cells_of(dims):
    return list(itertools.product(*[range(d) for d in dims]))


def fmt_name(modes, o):
    return "".join("ds"[m] + str(k) for m, k in zip(modes, o))


def case_entries(c):
    """The (coordinate, value) stream the entry point receives, or None when it is ill-formed."""
    ep = c["ep"]
    if ep in ("aos", "dok"):
        if len(c["coords"]) != len(c["vals"]):
            return None
        return [(tuple(k), v) for k, v in zip(c["coords"], c["vals"])]
    if ep == "soa":
        cols = c["cols"]
        if not cols:
            return None if c["vals"] else []
        if any(len(col) != len(cols[0]) for col in cols) or len(cols[0]) != len(c["vals"]):
            return None
        return [(tuple(col[i] for col in cols), c["vals"][i]) for i in range(len(c["vals"]))]
    if ep == "lol":
        out = []

        def rec(x, pre):
            if isinstance(x, list):
                for i, y in enumerate(x):
                    rec(y, pre + (i,))
            elif x != 0:
                out.append((pre, x))
        rec(c["lol"], ())
        return out
    return None


def sum_nonzero(entries):
    d = {}
    for k, v in entries:
        d[k] = d.get(k, 0) + v
    return {k: v for k, v in d.items() if v != 0}


def in_range(k, dims):
    return len(k) == len(dims) and all(0 <= x < d for x, d in zip(k, dims))


def lol_of(dims, d):
    def rec(pre, rest):
        if not rest:
            return d.get(pre, 0)
        return [rec(pre + (i,), rest[1:]) for i in range(rest[0])]
    return rec((), list(dims))


# ------------------------------------------------------------------------------------------------
# independent reading of the raw arrays (the oracle side; not the model, not tensor.py)
# ------------------------------------------------------------------------------------------------
def py_entries(raw):
    dims, o, modes, ix, vals = raw["dims"], raw["ord"], raw["modes"], raw["indices"], raw["vals"]
    n = len(o)
    out = []

    def rec(lvl, pos, pre):
        if lvl == n:
            co = [None] * n
            for level, x in enumerate(pre):
                co[o[level]] = x
            out.append((tuple(co), vals[pos]))
        elif modes[lvl] == 0:
            d = dims[o[lvl]]
            for i in range(d):
                rec(lvl + 1, pos * d + i, pre + (i,))
        else:
            p, crd = ix[lvl]
            for q in range(p[pos], p[pos + 1]):
                rec(lvl + 1, q, pre + (crd[q],))
    rec(0, 0, ())
    return out


def py_wf(raw):
    """canonical and self-consistent (the C02/C09 wording), checked directly"""
    dims, o, modes, ix, vals = raw["dims"], raw["ord"], raw["modes"], raw["indices"], raw["vals"]
    n = len(dims)
    if not (len(o) == len(modes) == len(ix) == n and sorted(o) == list(range(n)) and raw["order"] == n):
        return "shape"
    nnz = 1
    for lvl in range(n):
        d = dims[o[lvl]]
        if modes[lvl] == 0:
            if ix[lvl] != []:
                return f"dense level {lvl} has arrays"
            nnz *= d
        else:
            if len(ix[lvl]) != 2:
                return f"level {lvl} arrays"
            p, crd = ix[lvl]
            if len(p) != nnz + 1 or p[0] != 0 or p[-1] != len(crd) or any(a > b for a, b in zip(p, p[1:])):
                return f"pos of level {lvl}"
            for s in range(nnz):
                seg = crd[p[s]:p[s + 1]]
                if any(a >= b for a, b in zip(seg, seg[1:])):
                    return f"crd of level {lvl} not strictly increasing in segment {s}"
            if any(not (0 <= x < d) for x in crd):
                return f"crd of level {lvl} out of range"
            nnz = len(crd)
    if len(vals) != nnz:
        return "vals length"
    return None


def perm2(k, o):
    return tuple(k[o[o[i]]] for i in range(len(o)))


def as_dict(lst):
    return {tuple(k): v for k, v in lst}


def classify_read(raw, dok_list, expect_zero_dropped=True):
    """'ok' | 'f1' | 'bad': how a to_dok()/items() read-back relates to the stored arrays."""
    stored = py_entries(raw)
    sd = {k: v for k, v in stored if (v != 0 or not expect_zero_dropped)}
    dd = as_dict(dok_list)
    if len(dd) != len(dok_list):
        return "bad"
    if dd == sd:
        return "ok"
    o = raw["ord"]
    if noninv(o) and dd == {perm2(k, o): v for k, v in sd.items()}:
        return "f1"
    return "bad"


def first_bad_level_is_dense(k, dims, modes, o):
    for lvl in range(len(o)):
        x = k[o[lvl]]
        if not (0 <= x < dims[o[lvl]]):
            return modes[lvl] == 0
    return False


# ------------------------------------------------------------------------------------------------
# judgement of one case: the property itself, on the implementation's answer
# ------------------------------------------------------------------------------------------------
def same_format(raw, modes, o, dims):
    return raw["modes"] == list(modes) and raw["ord"] == list(o) and raw["dims"] == list(dims) and raw["order"] == len(dims)


def judge(c, r, bits=None):
    """Returns a list of (severity, id_or_kind, text); severity in violation|known|broken.
    `bits` is the Coq mask (None when the model was not consulted, e.g. while minimising)."""
    out = []
    modes, o, dims = c["modes"], c["ord"], c["dims"]
    kind = c.get("kind", "valid")
    res = r["res"]
    if "crash" in res:
        return [("violation", "crash", f"the interpreter died (exit status {res['crash']}) while constructing / reading back / pickling")]
    ents = case_entries(c)
    b = bits or 0
    has = lambda w: bool(b & w)  # noqa: E731

    if kind == "valid":
        exp = sum_nonzero(ents)
        if "err" in res:
            return [("violation", "rejected", f"valid input rejected with {res['err']}: {res.get('msg', '')}")]
        if not same_format(res, modes, o, dims):
            out.append(("violation", "shape", f"order/dimensions/format not preserved: {res['dims']} {res['modes']} {res['ord']}"))
            return out
        w = py_wf(res)
        if w:
            out.append(("violation", "canonical", f"stored structure not canonical: {w}"))
            return out
        if any(isinstance(v, str) for v in res["vals"]):
            return [("violation", "values", f"stored value is not finite: {res['vals'][:6]}")]
        stored = {k: v for k, v in py_entries(res) if v != 0}
        if stored != exp:
            out.append(("violation", "content", f"stored entries {sorted(stored.items())} != supplied {sorted(exp.items())}"))
            return out
        if "dok" in r:
            out += judge_read(c, r, exp, has, bits is not None)
        if bits is not None:
            if has(1) and has(512):
                out.append(("broken", "correspondence", "raw arrays differ from the model although the content is right"))
            if has(2):
                out.append(("broken", "correspondence", "wf_tensorb rejects arrays the Python checker accepts"))
        return out

    # ---- malformed stream
    if kind in ("oor", "neg"):
        bad = [k for k, _ in ents if not in_range(k, dims)]
        if "err" in res:
            pass  # rejected: what the property asks for
        else:
            good = sum_nonzero([(k, v) for k, v in ents if in_range(k, dims)])
            stored = {k: v for k, v in py_entries(res) if v != 0} if not py_wf(res) else None
            if all(first_bad_level_is_dense(k, dims, modes, o) for k in bad) and stored == good:
                out.append(("known", K2, f"format {fmt_name(modes, o)} dims {dims}: coordinate(s) {bad[:2]} silently dropped"))
            else:
                out.append(("violation", "oor-accepted", f"out-of-range coordinate(s) {bad[:3]} accepted; stored {stored}"))
        if bits is not None and "err" not in res and has(1) and has(512):
            out.append(("broken", "correspondence", "malformed input accepted: neither model variant predicts the stored arrays"))
        return out
    # short / long / lenmismatch / ragged / baddims: a rejection (any exception) is always acceptable; what is
    # ACCEPTED is pinned by correspondence (e.g. a too long coordinate is truncated today)
    if bits is not None and "err" not in res and has(1) and has(512):
        out.append(("broken", "correspondence", f"malformed input ({kind}): model predicts another outcome than {res.get('err', 'accepted')}"))
    return out


def judge_read(c, r, exp, has, with_bits):
    out = []
    modes, o, dims = c["modes"], c["ord"], c["dims"]
    res = r["res"]
    name = fmt_name(modes, o)
    # items / to_dok / explicit zeros
    src = classify_read(res, r["dok"])
    srcz = classify_read(res, r["dokz"], expect_zero_dropped=False)
    stored_list = py_entries(res)
    items = [(tuple(k), v) for k, v in r["items"]]
    if items == stored_list:
        it = "ok"
    elif noninv(o) and items == [(perm2(k, o), v) for k, v in stored_list]:
        it = "f1"
    else:
        it = "bad"
    for what, cl in (("to_dok", src), ("to_dok(explicit_zeros)", srcz), ("items", it)):
        if cl == "f1":
            out.append(("known", K1, f"{what}: format {name} dims {dims}: {sorted(exp.items())[:2]} read back as {r['dok'][:2]}"))
        elif cl == "bad":
            out.append(("violation", "readback", f"{what} of format {name} does not return the supplied entries: {r['dok'][:4]} vs {sorted(exp.items())[:4]}"))
    if not r.get("eq_self", True):
        out.append(("violation", "eq", "tensor != itself"))
    # pickle: raw arrays, format, dimensions identical; same read-back
    p = r.get("pickle")
    if p is not None:
        if "err" in p:
            out.append(("violation", "pickle", f"unpickling rejected: {p['err']}"))
        elif p != res:
            out.append(("violation", "pickle", f"pickle changed the stored tensor: {p} vs {res}"))
        elif as_dict(r["pickle_dok"]) != as_dict(r["dok"]) or not r.get("pickle_eq", True):
            out.append(("violation", "pickle", "pickle changed what to_dok/== report"))
    # to_format
    for (tm, to), tr in zip(c.get("tofmt", []), r.get("tofmt", [])):
        tres = tr["res"]
        tname = fmt_name(tm, to)
        excus = src == "f1" and (not with_bits or not has(128))
        if "err" in tres:
            sev = ("known", K1) if excus else ("violation", "to_format")
            out.append((sev[0], sev[1], f"to_format {name}->{tname} dims {dims} raises {tres['err']}"))
            continue
        if not same_format(tres, tm, to, dims) or py_wf(tres):
            out.append(("violation", "to_format", f"to_format {name}->{tname}: wrong format/dimensions or not canonical"))
            continue
        tstored = {k: v for k, v in py_entries(tres) if v != 0}
        if tstored != exp:
            sev = ("known", K1) if excus else ("violation", "to_format")
            out.append((sev[0], sev[1], f"to_format {name}->{tname} dims {dims} changes the content: {sorted(tstored.items())[:3]} vs {sorted(exp.items())[:3]}"))
        cl = classify_read(tres, tr["dok"])
        if cl == "f1":
            out.append(("known", K1, f"to_dok after to_format {tname}"))
        elif cl == "bad":
            out.append(("violation", "readback", f"to_dok after to_format {name}->{tname} is not the stored content"))
        # == across formats
        want = True
        if tr.get("eq") != want:
            if src == "f1" or cl == "f1" or (excus and tstored != exp):
                out.append(("known", K1, f"== across formats {name} / {tname}"))
            else:
                out.append(("violation", "eq", f"t == t.to_format({tname}) is {tr.get('eq')}"))
        if with_bits and has(64) and has(128):
            out.append(("broken", "correspondence", f"to_format result differs from both model variants ({name})"))
    # == against a second tensor
    if "alt" in c and "alt" in r:
        a = c["alt"]
        ra = r["alt"]
        if "err" in ra:
            out.append(("violation", "alt", f"valid second tensor rejected: {ra['err']}"))
        else:
            want = sum_nonzero([(tuple(k), v) for k, v in zip(a["coords"], a["vals"])]) == exp
            if ra["eq"] != want or ra["ne"] != (not want):
                if src == "f1" or noninv(a["ord"]):
                    out.append(("known", K1, f"== between formats {name} and {fmt_name(a['modes'], a['ord'])}"))
                else:
                    out.append(("violation", "eq", f"== is {ra['eq']} but equal content is {want} ({name} vs {fmt_name(a['modes'], a['ord'])})"))
    if with_bits:
        if src == "ok" and it == "ok" and (has(4) or has(16)):
            out.append(("broken", "correspondence", "read-back is right but differs from items_spec/to_dok_spec of the model"))
        if src == "f1" and it == "f1" and (has(8) or has(32)):
            out.append(("broken", "correspondence", "read-back is the known permutation but differs from items_impl of the model"))
        if has(256):
            out.append(("broken", "correspondence", "pickle round trip differs from the model"))
    return out


# ------------------------------------------------------------------------------------------------
# case generation
# ------------------------------------------------------------------------------------------------
VALS = [1, 2, 3, 4, 5, 7, -1, -2, -3]


def make_variant(rng: random.Random, modes, o, dims, subset, ep, all_cells):
    """One valid case whose non-zero content is exactly `subset` (with random values)."""
    content = {k: rng.choice(VALS) for k in subset}
    stream = []
    dup_ok = ep in ("aos", "soa")
    for k, v in content.items():
        if dup_ok and rng.random() < 0.35:
            a = rng.choice(VALS + [0])
            if rng.random() < 0.3:
                b = rng.choice(VALS)
                stream += [(k, a), (k, b), (k, v - a - b)]
            else:
                stream += [(k, a), (k, v - a)]
        else:
            stream.append((k, v))
    others = [k for k in all_cells if k not in content]
    if others and ep != "lol":
        for k in rng.sample(others, min(len(others), rng.choice([0, 0, 1, 2]))):
            if dup_ok and rng.random() < 0.5:
                a = rng.choice(VALS)
                stream += [(k, a), (k, -a)]      # cancels to an explicit zero
            else:
                stream.append((k, 0))            # explicit zero
    rng.shuffle(stream)
    c = {"modes": list(modes), "ord": list(o), "dims": list(dims), "ep": ep, "kind": "valid", "read": True,
         "fmtstr": rng.random() < 0.5}
    if ep in ("aos", "dok"):
        c["coords"] = [list(k) for k, _ in stream]
        c["vals"] = [v for _, v in stream]
    elif ep == "soa":
        c["cols"] = [[k[i] for k, _ in stream] for i in range(len(dims))]
        c["vals"] = [v for _, v in stream]
        if not dims:
            c["vals"] = []          # from_soa cannot carry an order-0 entry (no column to count rows)
    else:
        c["lol"] = lol_of(dims, content)
    return c


FVALS = [0.5, 0.25, 0.1, -2.75, 1e-300, 1e300, 3.141592653589793, 5e-324, -0.0, 1.0000000000000002, 123456789.125]


def make_float_case(rng: random.Random, modes, o, dims, ep):
    """Non-integer values (exact binary64 must come back bit for bit); duplicates only of dyadic values whose sums
    are exact in any order.  Compared with the property oracle only (the Coq model is over Z)."""
    cells = cells_of(dims)
    chosen = [k for k in cells if rng.random() < 0.5]
    stream = []
    for k in chosen:
        if ep in ("aos", "soa") and rng.random() < 0.3:
            stream += [(k, 0.5), (k, 0.25), (k, rng.choice([1.0, -0.75, 2.0]))]
        else:
            stream.append((k, rng.choice(FVALS)))
    rng.shuffle(stream)
    c = {"modes": list(modes), "ord": list(o), "dims": list(dims), "ep": ep, "kind": "valid", "read": True,
         "fmtstr": rng.random() < 0.5, "floats": True}
    if ep in ("aos", "dok"):
        c["coords"] = [list(k) for k, _ in stream]
        c["vals"] = [v for _, v in stream]
    elif ep == "soa":
        c["cols"] = [[k[i] for k, _ in stream] for i in range(len(dims))]
        c["vals"] = [v for _, v in stream]
    else:
        c["lol"] = lol_of(dims, sum_nonzero(stream))
    return c


def pick_subsets(rng, cells, cap):
    n = len(cells)
    if 2 ** n <= cap:
        return [[cells[i] for i in range(n) if (m >> i) & 1] for m in range(2 ** n)]
    out = [[], list(cells)]
    while len(out) < cap:
        p = rng.choice([0.15, 0.3, 0.5, 0.8])
        out.append([k for k in cells if rng.random() < p])
    return out


def add_extras(rng, c, fmts, p_all, p_alt):
    n = len(c["dims"])
    others = [f for f in fmts if (f[0], f[1]) != (c["modes"], c["ord"])]
    if others:
        if rng.random() < p_all:
            c["tofmt"] = [[f[0], f[1]] for f in others]
        else:
            c["tofmt"] = [list(map(list, rng.choice(others)))]
    if rng.random() < p_alt:
        ents = case_entries(c) or []
        exp = sum_nonzero(ents)
        am, ao = rng.choice(fmts)
        content = dict(exp)
        cs = cells_of(c["dims"])
        if cs and rng.random() < 0.6:
            k = rng.choice(cs)
            if k in content and rng.random() < 0.5:
                del content[k]
            else:
                content[k] = content.get(k, 0) + rng.choice([1, 2, -4])
        items = list(content.items())
        rng.shuffle(items)
        c["alt"] = {"modes": list(am), "ord": list(ao), "coords": [list(k) for k, _ in items], "vals": [v for _, v in items]}
    return c


def gen_valid(chk):
    rng = chk.rng
    thorough = chk.tier == "thorough"
    cases = []
    eps = ["aos", "dok", "soa", "lol"]
    # orders 0..2 exhaustively (dims 0..3), every entry point
    for n in (0, 1, 2):
        fmts = all_formats(n)
        for dims in itertools.product(range(4 if (thorough or n < 2) else 3), repeat=n):
            cells = cells_of(dims)
            subsets = pick_subsets(rng, cells, (256 if len(cells) <= 8 else 256) if thorough else (16 if len(cells) <= 4 else 20))
            for modes, o in fmts:
                for j, s in enumerate(subsets):
                    # thorough: every entry point for every subset; quick: two of the four, rotating
                    for ep in (eps if thorough else [eps[j % 4], eps[(j + 1 + (j // 4) % 3) % 4]]):
                        c = make_variant(rng, modes, o, dims, s, ep, cells)
                        cases.append(add_extras(rng, c, fmts, 0.25, 0.25))
    # order 3: dims 0..2
    fmts3 = all_formats(3)
    k = 0
    if thorough:
        for dims in itertools.product(range(3), repeat=3):
            cells = cells_of(dims)
            for modes, o in fmts3:
                for s in pick_subsets(rng, cells, 256):
                    c = make_variant(rng, modes, o, dims, s, eps[k % 4], cells)
                    k += 1
                    cases.append(add_extras(rng, c, fmts3, 0.02, 0.15))
    else:
        for modes, o in fmts3:
            for _ in range(12):
                dims = tuple(rng.choice([0, 1, 2, 2, 2, 3]) for _ in range(3))
                cells = cells_of(dims)
                s = [x for x in cells if rng.random() < rng.choice([0.2, 0.5, 0.9])]
                c = make_variant(rng, modes, o, dims, s, eps[k % 4], cells)
                k += 1
                cases.append(add_extras(rng, c, fmts3, 0.03, 0.2))
    # wide dimensions (two-digit coordinates, sparse content), orders 1..3
    for _ in range(4000 if thorough else 250):
        n = rng.choice([1, 2, 2, 3])
        modes, o = rng.choice(all_formats(n))
        dims = tuple(rng.choice([1, 5, 11, 12, 13]) for _ in range(n))
        m = rng.choice([1, 2, 4, 8, 14])
        s = list({tuple(rng.randrange(d) for d in dims) for _ in range(m)})
        ep = eps[k % 4]
        if ep == "lol" and len(cells_of(dims)) > 200:
            ep = "aos"
        k += 1
        others = [tuple(rng.randrange(d) for d in dims) for _ in range(2)]
        c = make_variant(rng, modes, o, dims, s, ep, s + others)
        cases.append(add_extras(rng, c, all_formats(n), 0.0, 0.2))
    # non-integer values, orders 1..3
    for _ in range(2500 if thorough else 300):
        n = rng.choice([1, 2, 2, 3])
        modes, o = rng.choice(all_formats(n))
        dims = tuple(rng.choice([1, 2, 3]) for _ in range(n))
        c = make_float_case(rng, modes, o, dims, eps[k % 4])
        k += 1
        cases.append(add_extras(rng, c, all_formats(n), 0.0, 0.0))
    # order 4, dims <= 2
    fmts4 = all_formats(4)
    per = 30 if thorough else 1
    for modes, o in fmts4:
        for _ in range(per):
            dims = tuple(rng.choice([0, 1, 2, 2, 2]) for _ in range(4))
            cells = cells_of(dims)
            s = [x for x in cells if rng.random() < rng.choice([0.15, 0.4, 0.8])]
            c = make_variant(rng, modes, o, dims, s, eps[k % 4], cells)
            k += 1
            cases.append(add_extras(rng, c, fmts4, 0.0, 0.1))
    return cases


def gen_malformed(chk):
    rng = chk.rng
    n_cases = 6000 if chk.tier == "thorough" else 700
    kinds = ["oor", "oor", "oor", "neg", "neg", "short", "long", "lenmismatch", "baddims", "ragged"]
    out = []
    fm = {n: all_formats(n) for n in range(0, 5)}
    while len(out) < n_cases:
        kind = rng.choice(kinds)
        n = rng.choice([1, 1, 2, 2, 2, 3, 3, 4] if chk.tier == "thorough" else [1, 1, 2, 2, 2, 3])
        modes, o = rng.choice(fm[n])
        dims = [rng.choice([0, 1, 2, 2, 3]) for _ in range(n)]
        cells = cells_of(dims)
        base = [(k, rng.choice(VALS)) for k in cells if rng.random() < 0.4]
        ep = rng.choice(["aos", "dok", "soa"]) if kind != "ragged" else "soa"
        stream = list(base)
        c = {"modes": list(modes), "ord": list(o), "dims": list(dims), "kind": kind, "read": False,
             "fmtstr": rng.random() < 0.5}
        if kind in ("oor", "neg"):
            for _ in range(rng.choice([1, 1, 1, 2])):
                k = [rng.randrange(max(d, 1)) for d in dims]
                for j in rng.sample(range(n), rng.choice([1, 1, 2]) if n > 1 else 1):
                    k[j] = dims[j] + rng.choice([0, 0, 1, 5]) if kind == "oor" else -rng.choice([1, 1, 2])
                stream.append((tuple(k), rng.choice(VALS)))
        elif kind == "short":
            k = [rng.randrange(max(d, 1)) for d in dims][: n - 1]
            stream.append((tuple(k), 1))
        elif kind == "long":
            k = [rng.randrange(max(d, 1)) for d in dims] + [rng.choice([0, 1, 7])]
            stream.append((tuple(k), rng.choice(VALS)))
            if ep == "soa":
                ep = "aos"
        elif kind == "baddims":
            j = rng.randrange(n)
            c["dims"] = list(dims)
            ch = rng.choice(["neg", "longer", "shorter"])
            if ch == "neg":
                c["dims"][j] = -rng.choice([1, 2])
                stream = [e for e in stream if rng.random() < 0.3]
            elif ch == "longer":
                c["dims"] = list(dims) + [2]
            else:
                c["dims"] = list(dims)[:-1]
        rng.shuffle(stream)
        # the property is only claimed for the in-range part being well-formed: drop duplicates for dok
        if ep == "dok":
            seen = {}
            for k, v in stream:
                seen[k] = v
            stream = list(seen.items())
        c["ep"] = ep
        if ep in ("aos", "dok"):
            c["coords"] = [list(k) for k, _ in stream]
            c["vals"] = [v for _, v in stream]
            if kind == "lenmismatch":
                if rng.random() < 0.5 or not c["vals"]:
                    c["vals"] = c["vals"] + [1]
                else:
                    c["vals"] = c["vals"][:-1]
                c["ep"] = "aos"
        else:
            if kind == "short":
                c["ep"] = "aos"
                c["coords"] = [list(k) for k, _ in stream]
                c["vals"] = [v for _, v in stream]
            else:
                c["cols"] = [[k[i] for k, _ in stream] for i in range(n)]
                c["vals"] = [v for _, v in stream]
                if kind == "lenmismatch":
                    c["vals"] = c["vals"] + [1]
                if kind == "ragged":
                    j = rng.randrange(n)
                    c["cols"][j] = c["cols"][j] + [0]
                    if n == 1:
                        c["kind"] = "lenmismatch"
        out.append(c)
    return out


# ------------------------------------------------------------------------------------------------
# Coq terms
# ------------------------------------------------------------------------------------------------
def z(v):
    return str(v) if v >= 0 else f"({v})"


def zl(l):
    return "[" + ";".join(z(v) for v in l) + "]"


def zll(ll):
    return "[" + ";".join(zl(l) for l in ll) + "]"


def ents(l):
    return "[" + ";".join(f"({zl(k)},{z(v)})" for k, v in l) + "]"


def fmt_term(modes, o):
    return f"(F {zl(modes)} {zl(o)})"


def lol_term(x):
    if isinstance(x, list):
        return "(LList [" + ";".join(lol_term(y) for y in x) + "])"
    return f"(LNum {z(x)})"


def ires(res):
    if "err" in res:
        cls = {"IndexError": 1, "ValueError": 2}.get(res["err"], 9)
        return f"(IErr {cls})"
    lv = []
    for m, ix in zip(res["modes"], res["indices"]):
        lv.append("LDense" if m == 0 else f"(Lv {zl(ix[0])} {zl(ix[1])})")
    return f"(IOk (T {zl(res['dims'])} {zl(res['ord'])} [{';'.join(lv)}] {zl(res['vals'])}))"


def coq_representable(r):
    if "crash" in r["res"]:
        return False

    def ok_res(res):
        return "err" in res or all(isinstance(v, int) for v in res["vals"])
    if not ok_res(r["res"]):
        return False
    for key in ("items", "dok", "dokz"):
        if key in r and any(not isinstance(v, int) for _, v in r[key]):
            return False
    if "pickle" in r and not ok_res(r["pickle"]):
        return False
    return all(ok_res(t["res"]) for t in r.get("tofmt", []))


def case_term(c, r):
    ep = c["ep"]
    if ep == "aos":
        inp = f"(IAos {zll(c['coords'])} {zl(c['vals'])})"
    elif ep == "dok":
        inp = f"(IDok {ents(zip(c['coords'], c['vals']))})"
    elif ep == "soa":
        inp = f"(ISoa {zll(c['cols'])} {zl(c['vals'])})"
    else:
        inp = f"(ILol {lol_term(c['lol'])})"
    if "dok" in r and "err" not in r["res"]:
        tf = ";".join(f"({fmt_term(tm, to)},{ires(tr['res'])})" for (tm, to), tr in zip(c.get("tofmt", []), r.get("tofmt", [])))
        rd = f"(Some (mkRead {ents(r['items'])} {ents(r['dok'])} {ents(r['dokz'])} {ires(r['pickle'])} [{tf}]))"
    else:
        rd = "None"
    return f"mkCase {fmt_term(c['modes'], c['ord'])} {zl(c['dims'])} {inp} {ires(r['res'])} {rd}"


HEADER = ("From Coq Require Import ZArith List. Import ListNotations.\n"
          "From TV Require Import spec.Storage model.TensorBuild proofs.TensorBuildCheck.\n"
          "Open Scope Z_scope.\nSet Printing Depth 10000000.\nSet Printing Width 160.\n")


def coq_file(pairs):
    body = ";\n".join(case_term(c, r) for c, r in pairs)
    return HEADER + "Definition cases : list ccase := [\n" + body + "\n].\nEval vm_compute in (failing cases).\nEval vm_compute in (77777, zlen (failing cases), zlen cases).\n"


def parse_failing(out):
    import re
    m = re.search(r"\(\s*77777\s*,\s*(\d+)\s*,\s*(\d+)\s*\)", out)
    if not m or "..." in out:
        return None
    head = out[:m.start()]
    f = {int(a): int(b) for a, b in re.findall(r"\(\s*(\d+)\s*,\s*(\d+)\s*\)", head)}
    if len(f) != int(m.group(1)):
        return None
    return f


# ------------------------------------------------------------------------------------------------
# running
# ------------------------------------------------------------------------------------------------
_HEX = None


def dehex(x):
    """values come back as int (integral) or float.hex() strings: turn the latter into exact floats"""
    global _HEX
    if _HEX is None:
        import re
        _HEX = re.compile(r"^-?0x[0-9a-f.]+p[+-]?\d+$")
    if isinstance(x, list):
        return [dehex(y) for y in x]
    if isinstance(x, dict):
        return {k: (v if k == "msg" else dehex(v)) for k, v in x.items()}
    if isinstance(x, str) and _HEX.match(x):
        return float.fromhex(x)
    return x


def run_impl(chk, cases, shards=8):
    if not cases:
        return []
    size = (len(cases) + shards - 1) // shards
    chunks = [cases[i:i + size] for i in range(0, len(cases), size)]

    def one(chunk):
        """Results are streamed one per line; when the interpreter dies (e.g. SIGSEGV inside a cffi read) the
        case after the last complete line is the culprit: record it and go on with the rest."""
        results, rest, crashes = [], list(chunk), 0
        while rest:
            rc, out, errtxt = chk.impl("c09_impl.py", [], input=json.dumps({"cases": rest}), timeout=1500)
            got = []
            for line in out.splitlines():
                try:
                    got.append(json.loads(line))
                except Exception:  # noqa: BLE001
                    break
            got = got[:len(rest)]
            results += got
            rest = rest[len(got):]
            if not rest:
                break
            crashes += 1
            results.append({"res": {"crash": rc, "msg": errtxt[-300:]}})
            rest = rest[1:]
            if crashes >= 25:
                results += [{"res": {"crash": "not run: 25 earlier cases of this shard killed the interpreter"}} for _ in rest]
                rest = []
        return results
    with ThreadPoolExecutor(max_workers=shards) as ex:
        parts = list(ex.map(one, chunks))
    return [dehex(r) for p in parts for r in p]


def run_model(chk, pairs, tag, per_file=400, workers=6):
    """Returns {index: mask} over `pairs`, or raises when a Coq file does not evaluate."""
    idx = [i for i, (c, r) in enumerate(pairs) if coq_representable(r) and not c.get("floats")]
    files = [idx[i:i + per_file] for i in range(0, len(idx), per_file)]
    masks = {}

    def one(j):
        sub = files[j]
        ok, out = chk.coq_eval(f"c09_{RUN_ID}_{tag}_{j}", coq_file([pairs[i] for i in sub]), timeout=1200)
        f = parse_failing(out) if ok else None
        if f is None:
            return j, None, out[-1500:]
        return j, f, ""
    with ThreadPoolExecutor(max_workers=workers) as ex:
        for j, f, msg in ex.map(one, range(len(files))):
            if f is None:
                chk.broken.append({"kind": "coq-eval", "file": f"build/cases/c09_{RUN_ID}_{tag}_{j}.v", "output": msg})
                continue
            for k, m in f.items():
                masks[files[j][k]] = m
    return masks, set(idx)


def allowed_known(chk):
    """Ids of the C09 findings listed in known_findings.json.  Bootstrap: while that file does not mention C09 at
    all (neither under findings nor under fixed) the two ids documented in DESIGN.md section 5 apply."""
    known = load_known()
    listed, mentioned = set(), False
    for f in known.get("findings", []):
        txt = json.dumps(f) if not isinstance(f, str) else f
        if (isinstance(f, dict) and f.get("property") == PROP) or "property=C09" in txt or '"C09"' in txt:
            mentioned = True
            for ident in (K1, K2):
                if ident in txt:
                    listed.add(ident)
    for f in known.get("fixed", []):
        txt = json.dumps(f) if not isinstance(f, str) else f
        if "C09" in txt:
            mentioned = True
    if not mentioned:
        chk.note("known_findings.json does not mention C09 yet: using the ids K-C09-1, K-C09-2 of DESIGN.md section 5")
        return {K1, K2}
    return listed


def strip(c):
    return {k: v for k, v in c.items() if k not in ("read",)}


def minimise(chk, c, pred_kind):
    """Greedy shrinking of a failing valid/oor case, judged by the property alone."""
    def fails(cands):
        rs = run_impl(chk, cands, shards=1)
        return [any(s == "violation" for s, _, _ in judge(cc, rr)) for cc, rr in zip(cands, rs)]
    cur = dict(c)
    if cur["ep"] in ("soa", "lol") or "coords" not in cur:
        ents_ = case_entries(cur)
        if ents_ is None:
            return cur
        trial = dict(cur)
        trial.pop("cols", None)
        trial.pop("lol", None)
        trial.update(ep="aos", coords=[list(k) for k, _ in ents_], vals=[v for _, v in ents_])
        if fails([trial])[0]:
            cur = trial
        else:
            return cur
    for _ in range(12):
        cands = []
        n = len(cur["coords"])
        for i in range(n):
            t = dict(cur)
            t["coords"] = cur["coords"][:i] + cur["coords"][i + 1:]
            t["vals"] = cur["vals"][:i] + cur["vals"][i + 1:]
            cands.append(t)
        for key in ("alt",):
            if key in cur:
                t = dict(cur)
                t.pop(key)
                cands.append(t)
        if len(cur.get("tofmt", [])) > 1:
            for tf in cur["tofmt"]:
                t = dict(cur)
                t["tofmt"] = [tf]
                cands.append(t)
        elif cur.get("tofmt"):
            t = dict(cur)
            t["tofmt"] = []
            cands.append(t)
        for i, v in enumerate(cur["vals"]):
            if v != 1:
                t = dict(cur)
                t["vals"] = cur["vals"][:i] + [1] + cur["vals"][i + 1:]
                cands.append(t)
        for j, d in enumerate(cur["dims"]):
            if d > 0 and all(k[j] < d - 1 for k in cur["coords"] if len(k) > j) and cur.get("kind") == "valid":
                t = dict(cur)
                t["dims"] = cur["dims"][:j] + [d - 1] + cur["dims"][j + 1:]
                if "alt" in t and any(k[j] >= d - 1 for k in t["alt"]["coords"]):
                    continue
                cands.append(t)
        if not cands:
            break
        fl = fails(cands)
        nxt = [cc for cc, f in zip(cands, fl) if f]
        if not nxt:
            break
        cur = nxt[0]
    return cur


def process(chk, cases, tag, allowed, stats):
    results = run_impl(chk, cases)
    pairs = list(zip(cases, results))
    masks, modelled = run_model(chk, pairs, tag)
    chk.count("cases_compared_with_model", len(modelled))
    viol = []
    for i, (c, r) in enumerate(pairs):
        m = masks.get(i, 0)
        try:
            js = judge(c, r, m)
        except Exception as e:  # noqa: BLE001  (an answer the oracle cannot even read)
            js = [("broken", "oracle", f"{type(e).__name__}: {e} while judging the implementation's answer")]
        o = c["ord"]
        canon = (c["kind"], c["ep"], tuple(c["modes"]), tuple(o), tuple(c["dims"]),
                 json.dumps(case_entries(c), default=str), json.dumps(c.get("tofmt", []))[:200])
        ents_ = case_entries(c) or []
        chk.case(canon, nontrivial=bool(ents_) or c["kind"] != "valid")
        chk.count(f"order{len(o)}")
        chk.count(f"ep_{c['ep']}")
        chk.count(f"kind_{c['kind']}")
        if c.get("floats"):
            chk.count("non_integer_values")
        if c["kind"] == "valid":
            stats["tofmt"] += len(c.get("tofmt", []))
            if noninv(o) and "items" in r and i in modelled:
                stored = py_entries(r["res"]) if ("indices" in r["res"] and not py_wf(r["res"])) else []
                if any(perm2(k, o) != k for k, _ in stored):
                    if not (m & 4):
                        stats["noninv_spec"] += 1
                    if not (m & 8):
                        stats["noninv_impl"] += 1
            if len(ents_) != len({k for k, _ in ents_}):
                chk.count("with_duplicates")
            if any(v == 0 for _, v in ents_):
                chk.count("with_explicit_zero")
        else:
            chk.count("malformed_rejected" if ("err" in r["res"] or "crash" in r["res"]) else "malformed_accepted")
            if "err" in r["res"]:
                chk.count("reject_" + r["res"]["err"])
        if i % 997 == 0:
            chk.sample({"case": strip(c), "impl": {k: r[k] for k in ("res", "dok") if k in r}, "mask": m})
        for sev, ident, text in js:
            if sev == "known":
                if ident in allowed:
                    stats["known"].setdefault(ident, []).append(text)
                else:
                    viol.append((c, r, m, ident, f"{ident} (not listed in known_findings.json): {text}"))
            elif sev == "violation":
                viol.append((c, r, m, ident, text))
            else:
                stats["broken"].append({"kind": "correspondence", "what": text, "mask": m,
                                        "mask_bits": [BITS[b] for b in BITS if m & b], "case": strip(c),
                                        "impl": r.get("res")})
    return viol


def case_size(c):
    e = case_entries(c) or []
    return (len(c["ord"]), len(e), sum(c["dims"]) if c["dims"] else 0, len(c.get("tofmt", [])))


def report_violations(chk, viol):
    """One violation per kind of failure (at most 4), each on the smallest failing case, minimised."""
    by_kind = {}
    for c, r, m, ident, text in viol:
        by_kind.setdefault(ident, []).append((c, r, m, text))
    seen_inputs = set()
    for ident in list(by_kind)[:4]:
        c, r, m, text = min(by_kind[ident], key=lambda x: case_size(x[0]))
        small = c
        try:
            small = minimise(chk, c, text)
        except Exception as e:  # noqa: BLE001
            chk.note(f"minimiser failed: {e}")
        key = json.dumps(strip(small), sort_keys=True)
        if key in seen_inputs:
            continue
        seen_inputs.add(key)
        rs = run_impl(chk, [small], shards=1)[0]
        js = [t for s_, _, t in judge(small, rs) if s_ == "violation"]
        chk.violation(js[0] if js else text, {"input": strip(small), "actual": rs, "expected": expected_text(small),
                                              "failing_cases_of_this_kind": len(by_kind[ident]),
                                              "original_case": strip(c), "model_mask": [BITS[b] for b in BITS if m & b]})


def expected_text(c):
    e = case_entries(c)
    if c.get("kind", "valid") == "valid":
        return {"to_dok": sorted((list(k), v) for k, v in sum_nonzero(e).items()), "dimensions": c["dims"],
                "format": fmt_name(c["modes"], c["ord"])}
    if c["kind"] in ("oor", "neg"):
        return "rejected (an exception), not silently dropped"
    return "as the model predicts"


def load_corpus():
    out = []
    if CORPUS.exists():
        for p in sorted(CORPUS.glob("*.json")):
            try:
                d = json.loads(p.read_text())
            except Exception:  # noqa: BLE001
                continue
            for c in d.get("cases", []):
                c = dict(c)
                c["_corpus"] = p.name
                out.append(c)
    return out


def run(chk):
    chk.rule = ("every format of order 0-2 x dims in {0..3}^n x every subset of cells (<= 2^8, sampled above) x the four "
                "entry points, order 3 (dims 0..2; exhaustive in the thorough tier) and order 4 (dims <= 2) sampled per "
                "format; values small integers, input order shuffled, duplicates split into 2-3 summands, explicit and "
                "cancelling zeros; per case: raw taco arrays/items/to_dok/explicit zeros/pickle/to_format/== compared with "
                "the Coq model and judged against the property computed from the input; plus a malformed stream "
                "(out-of-range, negative, short/long coordinates, length mismatches, bad dimensions). A case is distinct by "
                "(kind, entry point, format, dims, entry stream, targets); non-trivial when it has at least one entry")
    chk.trusted += [
        "hand model coq/model/TensorBuild.v (values in Z; level-wise emission) tied to tensor.py / _cffi_ownership.py by correspondence, and for coordinates_to_tree / tree_to_indices_and_values / from_aos / from_dok by regeneration + equivalence proof (TIE tensorbuild; the parts that are self-check only are listed in design.d/TIE_tensorbuild.md)",
        "integer-valued floats: binary64 rounding of duplicate sums is not modelled",
        "cffi int32/double conversion and memory ownership are outside the model",
        "Python-side oracle (expected_dok, py_entries, py_wf in tools/props/C09.py) and the term printer",
    ]
    chk.coq_props()
    ok, log = chk.coq_make(["proofs/TensorBuildCheck.vo"])
    if not ok:
        chk.broken.append({"kind": "build", "what": "proofs/TensorBuildCheck.v does not build", "log": log[-1500:]})
        return
    for f in ("findings/K_C09_1.vo", "findings/K_C09_2.vo"):
        okf, logf = chk.coq_make([f])
        if not okf:
            chk.note(f"{f[:-1]} (refutation witness of a known finding, about the hand model) no longer builds")
    chk.extra["partial"] = ["C09_out_of_range_rejected_partial", "C09_roundtrip_impl_partial"]
    chk.extra["refuted"] = ["findings/K_C09_1.v: C09_roundtrip_impl_refuted, items_roundtrip_refuted, to_format_refuted",
                            "findings/K_C09_2.v: C09_out_of_range_rejected_refuted, out_of_range_rejected_refuted*"]
    allowed = allowed_known(chk)
    stats = {"known": {}, "broken": [], "tofmt": 0, "noninv_spec": 0, "noninv_impl": 0}
    viol = []
    corpus = load_corpus()
    if corpus:
        viol += process(chk, corpus, "corpus", allowed, stats)
        chk.count("corpus_cases", len(corpus))
    valid = gen_valid(chk)
    viol += process(chk, valid, "v", allowed, stats)
    mal = gen_malformed(chk)
    viol += process(chk, mal, "m", allowed, stats)
    chk.count("to_format_conversions", stats["tofmt"])

    # which reading does /repo implement?
    ns, ni = stats["noninv_spec"], stats["noninv_impl"]
    chk.extra["items_variant"] = {"cases_distinguishing": None, "match_items_spec": ns, "match_items_impl": ni}
    if ns and not ni:
        chk.note(f"Tensor.items implements the inverse-permutation reading (items_spec) on all {ns} distinguishing cases")
        if K1 in allowed:
            chk.note(f"FINDING-NO-LONGER-REPRODUCES {K1}")
    elif ni and not ns:
        chk.note(f"Tensor.items implements items_impl (ordering applied instead of its inverse) on all {ni} distinguishing cases")
    for ident, texts in stats["known"].items():
        chk.known_finding(ident, (K1_TEXT if ident == K1 else K2_TEXT) + f" [{len(texts)} cases, e.g. {texts[0]}]")
    if K2 in allowed and K2 not in stats["known"] and chk.counters.get("kind_oor", 0):
        chk.note(f"FINDING-NO-LONGER-REPRODUCES {K2}")
    for b in stats["broken"][:5]:
        chk.broken.append(b)
    if len(stats["broken"]) > 5:
        chk.note(f"{len(stats['broken'])} correspondence disagreements in total")
    report_violations(chk, viol)
    # tie to the source by regeneration: coordinates_to_tree / tree_to_indices_and_values / from_aos / from_dok of
    # tensor.py are re-translated from /repo on every run and PROVED to produce the arrays of model/TensorBuild.v
    # (coq/props/TIE_tensorbuild.v) + translator self-check (which also covers items/to_dok/from_lol/from_soa)
    from props._tie import run_tie
    run_tie(chk, ["tensorbuild"])
    if not chk.broken and not chk.violations:
        for f in list((VERIF / "build" / "cases").glob(f"c09_{RUN_ID}_*")) + list((VERIF / "build" / "cases").glob(f".c09_{RUN_ID}_*")):
            try:
                f.unlink()
            except OSError:
                pass


def replay(chk, payload):
    c = payload.get("input") or payload.get("case")
    if c is None:
        print("replay file has no input (broken obligation without a failing input)")
        print(json.dumps(payload.get("broken", payload), indent=1)[:3000])
        return 1
    c = dict(c)
    c.setdefault("read", True)
    r = run_impl(chk, [c], shards=1)[0]
    allowed = allowed_known(chk)
    js = judge(c, r)
    print("input   :", json.dumps(strip(c)))
    print("expected:", json.dumps(expected_text(c)))
    print("actual  :", json.dumps({k: r[k] for k in ("res", "dok", "tofmt", "alt", "pickle") if k in r})[:2000])
    bad = [t for s, i, t in js if s == "violation" or (s == "known" and i not in allowed)]
    for s, i, t in js:
        print(f"{s}: {i}: {t}")
    print("REPRODUCED" if bad else "not reproduced")
    return 1 if bad else 0
