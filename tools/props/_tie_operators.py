"""TIE entry for the regenerated operator layer (auto-discovered by props/_tie.py).

    run_tie(chk, ["operators"])      # in C11
"""
TIE_EXTRA = {
    "operators": {
        "gen": ["TensorOps.v"],
        "vo": "proofs/GenOperators_equiv.vo",
        "theorems": ["gen_binary_equiv", "gen_matmul_equiv", "gen_methods_equiv", "gen_python_operator_equiv",
                     "gen_binary_refines", "gen_matmul_refines", "emb_onto", "gen_binary_unknown_operator",
                     "gen_request_denotes_pointwise", "gen_matmul_request_denotes", "gen_operator_format_rule",
                     "gen_matmul_format_rule"],
        "source": "tensor.py (Tensor.__add__ ... __rmatmul__, evaluate_binary_operator, "
                  "evaluate_matrix_multiplication_operator, Tensor.format), format/_format.py (Mode, Format)",
        "model": "coq/model/Operators.v (binary_operator_request, matmul_request, method_request, python_operator)",
    },
}
