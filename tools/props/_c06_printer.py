"""C06, printer part (called from tools/props/C06.py): token correspondence between the real C
printer (codegen/_ir_to_c.py) and the Coq model coq/model/CPrint.v, the end-to-end parse check of
the REAL tokens with the verified-sound parser (spec/CGrammar.v::cparse), and the value searcher
(gcc).  All generation happens in tools/harness/c06_print.py; this module runs the shards, maps
failing indexes back to trees and classifies value differences.

    from props._c06_printer import run_printer_correspondence
    run_printer_correspondence(chk)
"""
from __future__ import annotations

import json
import re
import shutil
from pathlib import Path

from vlib.core import BUILD, VERIF

TRUSTED = [
    "hand model coq/model/CPrint.v (cprint, cprint_stmt) tied to codegen/_ir_to_c.py by token correspondence only",
    "Python-side C lexer (tools/harness/c06_print.py::lex, maximal munch) and number classification",
    "gcc -std=c99 -O0 -ffp-contract=off as the reference meaning of the printed text in the value searcher",
    "tools/harness/crot.py::rot, mirrored by coq/model/CPrint.v::rotate_arith, classifies K-C06-1",
]

RULE_TEXT = (
    "printer: every (parent, left child class, right child class) triple of the 17 binary IR constructors "
    "to depth 2 (int leaves, plus float leaves where C accepts them), every child class under the unary "
    "constructors, literals of every printed shape, seeded typed random trees to depth 4, seeded untyped "
    "random trees, statements for every sugar form (t = t op r, t = r op t, a different left operand, ++/-- "
    "only for IntegerLiteral 1), declarations of every type; distinct = distinct tree repr"
)

_PAIR = re.compile(r"\((\d+),\s*(\d+)\)")


def _parse_blocks(out: str) -> list[list[tuple[int, int]]]:
    """the `= [...] : list (nat * nat)` results of a shard file, in order"""
    blocks = []
    for m in re.finditer(r"=\s*(\[.*?\])\s*:\s*list \(nat \* nat\)", out, flags=re.S):
        blocks.append([(int(a), int(b)) for a, b in _PAIR.findall(m.group(1))])
    return blocks


def load_corpus() -> list[str]:
    out = []
    d = VERIF / "corpus" / "C06"
    if d.is_dir():
        for p in sorted(d.glob("*.json")):
            try:
                j = json.loads(p.read_text())
            except Exception:
                continue
            for t in j.get("printer_trees", []):
                out.append(t)
    return out


def run_printer_correspondence(chk, only: list[str] | None = None) -> dict:
    """Runs the printer correspondence; records cases, broken correspondences, violations and known
    findings on `chk`.  Returns the harness summary (empty dict when the harness itself failed)."""
    thorough = chk.tier == "thorough"
    outdir = BUILD / "c06p" / f"run_{chk.tier}_{chk.seed}"
    shutil.rmtree(outdir, ignore_errors=True)
    outdir.mkdir(parents=True, exist_ok=True)
    for t in TRUSTED:
        if t not in chk.trusted:
            chk.trusted.append(t)
    cfg = {
        "seed": chk.rng.randrange(1 << 30),
        "outdir": str(outdir),
        "n_random": 6000 if thorough else 700,
        "n_untyped": 3000 if thorough else 400,
        "block": 500,
        "blocks_per_file": 4,
        "corpus": load_corpus(),
        "only": only,
    }
    rc, out, err = chk.impl("c06_print.py", input=json.dumps(cfg), timeout=1500)
    try:
        summary = json.loads(out.strip().splitlines()[-1])
    except Exception:
        chk.broken.append({"kind": "harness", "script": "c06_print.py", "rc": rc, "stderr_tail": err[-2000:], "stdout_tail": out[-500:]})
        return {}
    index = json.loads((outdir / "index.json").read_text())
    cases = index["cases"]
    chk.count("printer_cases", len(cases))
    for k, n in summary.get("kinds", {}).items():
        chk.count("printer_kind_" + k, n)
    chk.count("printer_values_compared", summary.get("values_compared", 0))
    chk.count("printer_value_functions", summary.get("value_functions", 0))
    for c in cases:
        chk.case(("printer", c["repr"]), nontrivial=True)
    for c in cases[:: max(1, len(cases) // 4)][:4]:
        chk.sample({"printer_case": c["repr"][:300], "text": c.get("text")})

    if not index.get("macro_ok", True):
        chk.broken.append({"kind": "correspondence", "what": "TACO_MIN / TACO_MAX in compile/_compile_cffi.py::taco_define_header "
                           "are no longer the macros modelled by spec/CGrammar.v::csem"})

    # ---- cases the printer or the lexer could not handle
    for c in cases:
        if c.get("tokens") is None:
            chk.broken.append({"kind": "correspondence", "what": "printer/lexer failure", "tree": c["repr"], "text": c.get("text"),
                               "error": c.get("error")})

    # ---- Coq shards
    files = index["files"]
    results = chk.coq_run_files([f["path"] for f in files], workers=6, timeout=900)
    failing: list[tuple[int, int]] = []   # (case index, code)
    for f in files:
        ok, out = results[f["path"]]
        blocks = _parse_blocks(out) if ok else []
        if not ok or len(blocks) != len(f["blocks"]):
            chk.broken.append({"kind": "correspondence", "what": "shard did not evaluate", "file": f["path"], "output_tail": out[-1500:]})
            continue
        for ids, res in zip(f["blocks"], blocks):
            for pos, code in res:
                failing.append((ids[pos], code))
    chk.count("printer_token_mismatches", sum(1 for _, k in failing if k == 1))
    chk.count("printer_parse_mismatches", sum(1 for _, k in failing if k == 2))
    # the printer differs from the model, but the verified-sound parser reads the tree itself (3) or a
    # pure re-association of it (4) from the REAL tokens: the property holds for these trees by
    # cparse_sound, the hand model is merely out of date (e.g. K-C06-1 repaired, extra parentheses)
    drift_exact = [i for i, k in failing if k == 3]
    drift_assoc = [i for i, k in failing if k == 4]
    chk.count("printer_model_drift_validated_exact", len(drift_exact))
    chk.count("printer_model_drift_validated_reassociation", len(drift_assoc))
    if drift_exact:
        c = cases[drift_exact[0]]
        chk.note(f"printer output differs from the model coq/model/CPrint.v on {len(drift_exact)} trees but parses (verified parser) "
                 f"to exactly the IR tree, e.g. `{c['text']}`: FINDING-NO-LONGER-REPRODUCES K-C06-1 on those shapes; update the model")
    if drift_assoc:
        c = cases[drift_assoc[0]]
        chk.note(f"printer output differs from the model on {len(drift_assoc)} trees and parses to a pure re-association of the IR tree "
                 f"(K-C06-1 family), e.g. `{c['text']}`; update the model")
    failing = [(i, k) for i, k in failing if k in (1, 2)]

    diffs_by_case: dict[int, list[dict]] = {}
    for d in index["value_diffs"]:
        diffs_by_case.setdefault(d["case"], []).append(d)

    # model's own answer for the first few failing cases (goes into the replay)
    model_tokens: dict[int, str] = {}
    show = [i for i, _ in failing[:6]]
    if show:
        text = ("From Coq Require Import ZArith Bool List String.\nFrom Flocq Require Import Core BinarySingleNaN.\n"
                "From TV Require Import spec.Num gen.IRAst spec.CGrammar model.CPrint.\nImport ListNotations.\n")
        for i in show:
            fn = "cprint" if cases[i]["what"] == "expr" else "cprint_stmt"
            text += f"Eval vm_compute in ({fn} {cases[i]['coq']}).\n"
        ok, out = chk.coq_eval(f"c06p_show_{chk.seed}", text)
        if ok:
            parts = re.split(r"\n\s*=\s", "\n" + out)[1:]
            for i, ptxt in zip(show, parts):
                model_tokens[i] = " ".join(ptxt.split())[:1500]

    for i, code in failing[:60]:
        c = cases[i]
        chk.broken.append({
            "kind": "correspondence",
            "what": ("printed tokens differ from the model coq/model/CPrint.v" if code == 1 else
                     "cparse on the real tokens does not yield embed (rotate e) inside the guard prec_ok"),
            "tree": c["repr"], "coq": c["coq"][:1500], "text": c["text"], "real_tokens": " ".join(c["tokens"])[:1500],
            "model": model_tokens.get(i),
        })

    # ---- value differences: the searcher's verdicts
    n_known = 0
    n_viol = 0
    for d in index["value_diffs"]:
        if d["explained_by_rotate"] or d.get("explained_by_partial_rotate"):
            n_known += 1
            continue
        n_viol += 1
        if n_viol <= 8:
            chk.violation(
                f"the printed C text `{d['text']}` evaluates to {d['c_value_dec']} under gcc but the IR tree means {d['tree_value_dec']} "
                "(not explained by the K-C06-1 re-association)",
                {"kind": "printer-value", "tree": d["tree"], "text": d["text"], "inputs": d["inputs"],
                 "expected": d["tree_value"], "actual": d["c_value"], "rotated_tree_value": d["rotated_tree_value"],
                 "token_mismatch": any(i == d["case"] for i, _ in failing)},
            )
    chk.count("printer_value_diffs_known_K_C06_1", n_known)
    chk.count("printer_value_diffs_unexplained", n_viol)
    if n_known:
        ex = next(d for d in index["value_diffs"] if d["explained_by_rotate"] or d.get("explained_by_partial_rotate"))
        chk.known_finding("K-C06-1", f"printer drops parentheses on right-nested + / *: e.g. `{ex['text']}` = {ex['c_value_dec']} in C, "
                          f"{ex['tree_value_dec']} as the IR tree ({n_known} value differences, all equal to the value of rotate(tree))")
    if index.get("compile_dropped"):
        # text of a guarded, conservative-compilable tree that gcc refuses: the printer emits invalid C
        for cd in index["compile_dropped"][:5]:
            if "case" in cd:
                chk.violation(f"gcc rejects the printed text `{cd['text']}` of a well-typed tree",
                              {"kind": "printer-compile", "tree": cd["repr"], "text": cd["text"]})
            else:
                chk.broken.append({"kind": "harness", "what": "value unit did not compile", "error": cd.get("error")})
    summary["token_mismatches"] = len(failing)
    summary["files"] = len(files)
    return summary


def replay_printer(chk, payload: dict) -> int:
    """Re-run one stored printer case (payload['tree'] is the repr of the IR tree)."""
    before = len(chk.violations)
    run_printer_correspondence(chk, only=[payload["tree"]])
    return 1 if (len(chk.violations) > before or chk.broken) else 0
