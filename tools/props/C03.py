"""C03 -- sparse outputs store no phantom coordinates.

Deciding oracle: coq/spec/Support.v::no_phantomb (proved to decide "every prefix stored by a compressed
output level has structural support", coq/props/C03.v), evaluated by vm_compute on real outputs.  The
large sweep is pre-filtered by a Python mirror (tools/harness/c03_mirror.py); everything the mirror
flags, a sample of what it passes, and a self-test stream of outputs with an injected phantom are
evaluated in Coq and the two verdicts are compared.
"""

from __future__ import annotations

import hashlib
import json
import os
import random
import re
import sys
from concurrent.futures import ThreadPoolExecutor
from pathlib import Path

from vlib.core import GUARD, VERIF, Check

sys.path.insert(0, str(VERIF / "tools" / "harness"))
import c03_mirror as M  # noqa: E402


# --------------------------------------------------------------------------------------------
# Coq terms
# --------------------------------------------------------------------------------------------


def z(v) -> str:
    v = int(v)
    return f"({v})" if v < 0 else str(v)


def zl(xs) -> str:
    return "[" + "; ".join(z(x) for x in xs) + "]"


def cstr(s: str) -> str:
    return '"' + s.replace('"', '""') + '"%string'


def strl(xs) -> str:
    return "[" + "; ".join(cstr(x) for x in xs) + "]"


def sexpr_term(e) -> str:
    if "lit" in e:
        return f"(SLit {z(e['lit'])})"
    if "t" in e:
        return f"(STensor {cstr(e['t'])} {strl(e['ix'])})"
    for k, c in (("add", "SAdd"), ("sub", "SSub"), ("mul", "SMul")):
        if k in e:
            return f"({c} {sexpr_term(e[k][0])} {sexpr_term(e[k][1])})"
    raise ValueError(e)


def tensor_term(r) -> str:
    lv = []
    for m, ix in zip(r["modes"], r["indices"]):
        lv.append("LDense" if m == "d" else f"(LCompressed {zl(ix[0])} {zl(ix[1])})")
    ords = "[" + "; ".join(f"{int(o)}%nat" for o in r["ordering"]) + "]"
    return f"(mkTensor {zl(r['dims'])} {ords} [{'; '.join(lv)}] (repeat 0 {len(r['vals'])}%nat))"


def case_term(ast, inputs, sizes, out) -> str:
    a = f"(mkAssignment {cstr(ast['target'])} {strl(ast['tidx'])} {sexpr_term(ast['rhs'])})"
    ins = "[" + "; ".join(f"({cstr(n)}, {tensor_term(r)})" for n, r in sorted(inputs.items())) + "]"
    sz = "[" + "; ".join(f"({cstr(k)}, {z(v)})" for k, v in sorted(sizes.items())) + "]"
    return f"({a}, {ins}, {sz}, {tensor_term(out)})"


def coq_file(items) -> str:
    rows = ";\n ".join(f"({i}, {t})" for i, t in items)
    return (
        "From Coq Require Import ZArith List Bool String. Import ListNotations.\n"
        "From TV Require Import spec.Storage spec.Support.\nOpen Scope Z_scope.\n"
        "Definition okb (c : assignment * list (string * tensor Z) * env * tensor Z) : bool :=\n"
        "  let '(a, ins, sizes, out) := c in\n"
        "  no_phantomb a (ins_of (map (fun p => (fst p, stored_of 0 (snd p))) ins)) sizes out.\n"
        f"Definition cs : list (Z * (assignment * list (string * tensor Z) * env * tensor Z)) := [\n {rows}].\n"
        "Eval vm_compute in (map fst (filter (fun p => negb (okb (snd p))) cs)).\n"
    )


def coq_phantoms_file(term) -> str:
    return (
        "From Coq Require Import ZArith List Bool String. Import ListNotations.\n"
        "From TV Require Import spec.Storage spec.Support.\nOpen Scope Z_scope.\n"
        f"Definition c := {term}.\n"
        "Eval vm_compute in (let '(a, ins, sizes, out) := c in\n"
        "  phantoms a (ins_of (map (fun p => (fst p, stored_of 0 (snd p))) ins)) sizes out).\n"
    )


def parse_zlist(out: str):
    m = re.search(r"=\s*\[(.*?)\]\s*:", out, flags=re.S)
    if not m:
        return None
    body = m.group(1).strip()
    if not body:
        return []
    return [int(x.strip().strip("()")) for x in body.replace("\n", " ").split(";")]


def run_coq_shards(chk: Check, tag: str, items, per_file=350, workers=6):
    shards = [items[i : i + per_file] for i in range(0, len(items), per_file)]
    failing, errors = set(), []

    def one(j):
        ok, out = chk.coq_eval(f"c03_{tag}_{os.getpid()}_{j}", coq_file(shards[j]), timeout=900)
        return j, ok, out

    with ThreadPoolExecutor(max_workers=workers) as ex:
        for j, ok, out in ex.map(one, range(len(shards))):
            lst = parse_zlist(out) if ok else None
            if lst is None:
                errors.append({"shard": f"c03_{tag}_{j}", "output": out[-1500:]})
            else:
                failing.update(lst)
    return failing, errors


def launch_workers(chk: Check, reqs):
    def one(req):
        rc, out, err = chk.impl("c03_worker.py", [], input=json.dumps(req), timeout=req.get("timeout", 1500), env={GUARD: ""})
        recs, begun, done = [], None, False
        for line in out.splitlines():
            try:
                o = json.loads(line)
            except Exception:
                continue
            if "begin" in o:
                begun = o
            elif o.get("done"):
                done = True
            else:
                recs.append(o)
                if "id" in o:
                    begun = None
        return req, recs, (None if done else (begun or {"begin": "?"})), (err or "")[-800:], rc

    with ThreadPoolExecutor(max_workers=8) as ex:
        return list(ex.map(one, reqs))


# --------------------------------------------------------------------------------------------


def mirror_phantoms(ast, inputs, sizes, out):
    ins = {n: M.stored_set(r) for n, r in inputs.items()}
    return M.phantoms(ast["tidx"], ast["rhs"], ins, sizes, out)


def inject_phantom(rng: random.Random, out):
    """Add one coordinate with an empty subtree to a compressed level of a well-formed raw output
    (keeping it well-formed).  Returns the new raw structure and (level, prefix) or None."""
    o = json.loads(json.dumps(out))
    levels = [l for l, m in enumerate(o["modes"]) if m == "s"]
    rng.shuffle(levels)
    ldims = [o["dims"][d] for d in o["ordering"]]
    for l in levels:
        pos, crd = o["indices"][l]
        nparents = len(pos) - 1
        cands = []
        for p in range(nparents):
            have = set(crd[pos[p] : pos[p + 1]])
            for c in range(ldims[l]):
                if c not in have:
                    cands.append((p, c))
        if not cands:
            continue
        p, c = rng.choice(cands)
        seg = crd[pos[p] : pos[p + 1]]
        k = pos[p] + sum(1 for x in seg if x < c)  # insertion position q = k
        crd.insert(k, c)
        for i in range(p + 1, len(pos)):
            pos[i] += 1
        # the new position k at level l gets an empty / zero subtree below
        q, width = k, 1
        for l2 in range(l + 1, len(o["modes"])):
            if o["modes"][l2] == "d":
                q, width = q * ldims[l2], width * ldims[l2]
            else:
                pos2 = o["indices"][l2][0]
                # insert [width] parents with empty segments at parent index q
                v = pos2[q] if q < len(pos2) else pos2[-1]
                for _ in range(width):
                    pos2.insert(q + 1, v)
                width = 0
                break
        if width:
            for _ in range(width):
                o["vals"].insert(q, 0.0)
        # prefix of the injected coordinate
        prefs = M.stored_prefixes(o, l + 1)
        return o, l
    return None, None


def py_wf(r) -> bool:
    try:
        dims, ordering, modes, indices = r["dims"], r["ordering"], r["modes"], r["indices"]
        ldims = [dims[o] for o in ordering]
        cnt = 1
        for m, ix, d in zip(modes, indices, ldims):
            if m == "d":
                cnt *= d
            else:
                pos, crd = ix
                if len(pos) != cnt + 1 or pos[0] != 0 or pos[cnt] != len(crd):
                    return False
                if any(a > b for a, b in zip(pos, pos[1:])):
                    return False
                for p in range(cnt):
                    seg = crd[pos[p] : pos[p + 1]]
                    if any(a >= b for a, b in zip(seg, seg[1:])):
                        return False
                if any(not (0 <= c < d) for c in crd):
                    return False
                cnt = len(crd)
        return cnt <= len(r["vals"])
    except Exception:
        return False


def cleanup_scratch():
    """remove this run's scratch .v/.vo/.glob files from /verif/build/cases"""
    d = VERIF / "build" / "cases"
    for f in list(d.glob(f"c03_*_{os.getpid()}_*")) + list(d.glob(f".c03_*_{os.getpid()}_*")) + list(d.glob(f"c03_*_{os.getpid()}.*")) + list(d.glob(f".c03_*_{os.getpid()}.*")):
        try:
            f.unlink()
        except OSError:
            pass


# --------------------------------------------------------------------------------------------
# exhaust_tensor / terminal guard against coq/model/ExhaustGuard.v
# --------------------------------------------------------------------------------------------


def gen_iexpr(rng: random.Random, depth: int, ids):
    if depth == 0 or rng.random() < 0.25:
        r = rng.random()
        if r < 0.6:
            return {"t": rng.choice(ids)}
        if r < 0.8:
            return {"int": rng.choice([0, 0, 1, 2, -1])}
        return {"float": rng.choice([0.0, 2.0, 1.0])}
    k = rng.choice(["add", "mul", "mul"])
    return {k: [gen_iexpr(rng, depth - 1, ids), gen_iexpr(rng, depth - 1, ids)]}


def iexpr_term(j) -> str:
    if "int" in j:
        return f"(ILit true {z(j['int'])})"
    if "float" in j:
        return f"(ILit false {z(int(j['float']))})"
    if "t" in j:
        return f"(ITen {cstr(j['t'])})"
    if "add" in j:
        return f"(IAdd {iexpr_term(j['add'][0])} {iexpr_term(j['add'][1])})"
    return f"(IMul {iexpr_term(j['mul'][0])} {iexpr_term(j['mul'][1])})"


def exhaust_file(items) -> str:
    rows = ";\n ".join(
        f"({i}, ({iexpr_term(c['expr'])}, {strl(c['refs'])}, {iexpr_term(r['result'])}, {'true' if r['raises'] else 'false'}))"
        for i, c, r in items
    )
    return (
        "From Coq Require Import ZArith List Bool String. Import ListNotations.\n"
        "From TV Require Import model.ExhaustGuard.\nOpen Scope Z_scope.\n"
        "Fixpoint norm (e : iexpr) : iexpr := match e with IZero => ILit true 0 | IAdd l r => IAdd (norm l) (norm r) | IMul l r => IMul (norm l) (norm r) | _ => e end.\n"
        "Fixpoint ieqb (a b : iexpr) : bool := match a, b with\n"
        " | IZero, IZero => true | ILit i v, ILit j w => Bool.eqb i j && (v =? w) | ITen x, ITen y => String.eqb x y\n"
        " | IAdd a1 a2, IAdd b1 b2 => ieqb a1 b1 && ieqb a2 b2 | IMul a1 a2, IMul b1 b2 => ieqb a1 b1 && ieqb a2 b2 | _, _ => false end.\n"
        "Definition okb (c : iexpr * list string * iexpr * bool) : bool := let '(e, refs, res, raises) := c in\n"
        "  ieqb (norm (exhaust_all refs e)) res && Bool.eqb (raises_flags (exhaust_all refs e)) raises.\n"
        f"Definition cs : list (Z * (iexpr * list string * iexpr * bool)) := [\n {rows}].\n"
        "Eval vm_compute in (map fst (filter (fun p => negb (okb (snd p))) cs)).\n"
    )


def exhaust_stream(chk: Check, n: int):
    rng = random.Random(f"C03-exhaust:{chk.seed}")
    ids = ["b", "c", "d", "e"]
    cases = []
    for _ in range(n):
        e = gen_iexpr(rng, rng.choice([1, 2, 3, 4]), ids)
        refs = [rng.choice(ids) for _ in range(rng.choice([0, 1, 1, 2, 3]))]
        cases.append({"expr": e, "refs": refs})
    _, recs, crashed, err, rc = launch_workers(chk, [{"mode": "exhaust", "cases": cases}])[0]
    if crashed or len(recs) != len(cases):
        chk.broken.append({"kind": "harness", "what": "exhaust worker failed", "stderr": err})
        return
    items = [(i, c, r) for i, (c, r) in enumerate(zip(cases, recs))]
    ok, out = chk.coq_eval(f"c03_exhaust_{os.getpid()}", exhaust_file(items), timeout=600)
    bad = parse_zlist(out) if ok else None
    if bad is None:
        chk.broken.append({"kind": "harness", "what": "exhaust Coq evaluation failed", "output": out[-1500:]})
        return
    for i in bad:
        chk.broken.append({"kind": "correspondence", "what": "exhaust_tensor / terminal guard vs model/ExhaustGuard.v",
                           "case": cases[i], "implementation": recs[i]})
    chk.count("exhaust:cases", len(cases))
    chk.count("exhaust:flags-raised", sum(1 for r in recs if r["raises"]))
    chk.count("exhaust:flags-down", sum(1 for r in recs if not r["raises"]))
    for c in cases:
        chk.case(("exhaust", json.dumps(c, sort_keys=True)), nontrivial=bool(c["refs"]))


def corpus_cases():
    d = VERIF / "corpus" / "C03"
    out = []
    if d.is_dir():
        for p in sorted(d.glob("*.json")):
            try:
                out.append(json.loads(p.read_text()))
            except Exception:
                pass
    return out


def classify_nontrivial(inputs, out):
    """A case can show a phantom only if the output has a compressed level and some operand leaves
    something out; it is interesting when the output stores something as well."""
    has_c = "s" in out["modes"]
    some_missing = False
    for r in inputs.values():
        total = 1
        for d in r["dims"]:
            total *= d
        if len(M.stored_set(r)) < total:
            some_missing = True
    return has_c and some_missing


def run(chk: Check):
    chk.rule = (
        "sweep.TEMPLATES + 28 extra templates restricted to (assignment, formats) whose output format has a compressed "
        "level; index sizes all-2 plus seeded draws from {0,1,2,3}; input sparsity patterns: every combination of stored "
        "subsets of the operands when there are at most 64 (quick) / 512 (thorough) combinations, otherwise a seeded "
        "sample always containing all-empty, all-full, all-explicit-zeros and each operand empty against full others; "
        "values include explicit stored zeros; besides the evaluate output, the structure left by the stand-alone assemble kernel "
        "(its IR run on the Python IR interpreter) for up to 16/96 patterns per problem; a case is distinct by (problem, sizes, kernel kind, stored pattern) and non-trivial "
        "when some operand leaves a cell unstored"
    )
    chk.trusted += [
        "structural-support specification coq/spec/Support.v (hand-written reading of the property text; literal 0 counts as present)",
        "raw arrays read through cffi with malloc_usable_size bounds; stored sets of inputs computed in Coq from their raw arrays (Storage.entries)",
        "tools/harness/c03_mirror.py pre-filters the large sweep; cross-checked against the Coq oracle on the sample, on everything it flags and on injected phantoms",
        "hand model coq/model/ExhaustGuard.v (exhaust_tensor + the terminal's guard) tied by correspondence only",
        "that the kernels of _generate_ir.py never store unsupported coordinates is TESTED (sweep with the proved checker as oracle), not proved",
    ]
    os.environ.pop(GUARD, None)
    import time as _t

    t0 = _t.time()
    chk.coq_props()
    chk.note(f"timing: coq_props {_t.time() - t0:.0f}s")
    thorough = chk.tier == "thorough"
    rng = random.Random(f"C03-check:{chk.seed}")

    nshards = 8 if thorough else 6
    reqs = [{"mode": "sweep", "seed": chk.seed, "tier": chk.tier, "shard": k, "nshards": nshards,
             "timeout": 2400 if thorough else 900} for k in range(nshards)]
    corpus = corpus_cases()
    if corpus:
        reqs.insert(0, {"mode": "cases", "cases": corpus})
    t0 = _t.time()
    results = launch_workers(chk, reqs)
    chk.note(f"timing: workers {_t.time() - t0:.0f}s")

    t0 = _t.time()
    problems = {}
    cases = []  # (key, ast, assignment, formats, rec)
    for req, recs, crashed, err, rc in results:
        for o in recs:
            if "id" not in o:
                if o.get("status") == "ok":
                    problems[o["problem"]] = o
                elif o.get("status") == "skip":
                    chk.count("problems-skipped:" + o["error"].split("@")[0])
                else:
                    chk.violation("tensor_method raised an undocumented error: " + o.get("error", ""),
                                  {"assignment": o.get("assignment"), "formats": o.get("formats")})
                continue
            if "problem" in o:
                p = problems[o["problem"]]
                ast, a, f = p["ast"], p["assignment"], p["formats"]
            else:
                ast, a, f = o["ast"], o["assignment"], o["formats"]
            if o["status"] == "skip":
                chk.count("cases-skipped:" + o["error"].split("@")[0])
                continue
            if o["status"] != "ok":
                chk.violation("evaluate raised an undocumented error: " + o["error"],
                              {"assignment": a, "formats": f, "sizes": o["sizes"], "entries": o["entries"]})
                continue
            cases.append((ast, a, f, o))
            if o.get("assemble_out"):
                # the structure the stand-alone assemble kernel leaves, judged like an output
                cases.append((ast, a, f, dict(o, out=o["assemble_out"], kernel="assemble", alloc_problems=None)))
                chk.count("cases:assemble-kernel-structure")
            elif o.get("assemble_note"):
                chk.count("assemble-not-judged:" + o["assemble_note"].split(":")[0][:60])
        if crashed:
            chk.violation(f"kernel crashed or hung (worker exit {rc}); stderr: {err[-300:]}",
                          {k: crashed.get(k) for k in ("assignment", "formats", "sizes", "entries") if k in crashed})
    chk.count("problems", len(problems))

    flagged, passed = [], []
    for ast, a, f, o in cases:
        nontrivial = classify_nontrivial(o["inputs"], o["out"])
        chk.case((a, json.dumps(f, sort_keys=True), json.dumps(o["sizes"], sort_keys=True), o.get("kernel", "evaluate"),
                  json.dumps({n: sorted(map(list, M.stored_set(r))) for n, r in o["inputs"].items()}, sort_keys=True)),
                 nontrivial=nontrivial)
        chk.count("cases")
        if o.get("exhaustive"):
            chk.count("cases:from-exhaustive-pattern-enumeration")
        if nontrivial:
            chk.count("cases:some-operand-cell-unstored")
        if all(len(M.stored_set(r)) == 0 for r in o["inputs"].values()) and o["inputs"]:
            chk.count("cases:all-operands-empty")
        if any(v == 0.0 for e in o["entries"].values() for _, v in e):
            chk.count("cases:explicit-stored-zero-given")
        if any(len(ix) == 2 and ix[1] for ix in o["out"]["indices"]):
            chk.count("cases:compressed-output-level-stores-something")
        if o.get("alloc_problems") or not py_wf(o["out"]):
            chk.broken.append({"kind": "correspondence", "what": "output is not a well-formed structure (property C02); its stored set is decoded in Coq only",
                               "assignment": a, "formats": f, "sizes": o["sizes"], "entries": o["entries"], "out": o["out"]})
            flagged.append((ast, a, f, o, None))
            continue
        try:
            ph = mirror_phantoms(ast, o["inputs"], o["sizes"], o["out"])
        except Exception as e:
            chk.broken.append({"kind": "harness", "what": "mirror failed: " + repr(e), "assignment": a, "formats": f})
            flagged.append((ast, a, f, o, None))
            continue
        if ph:
            flagged.append((ast, a, f, o, ph))
        else:
            passed.append((ast, a, f, o))
    chk.count("mirror:flagged", len(flagged))
    chk.note(f"timing: mirror {_t.time() - t0:.0f}s")

    # ---- Coq: everything flagged + a sample of the rest (non-trivial first) + injected phantoms
    budget = 12000 if thorough else 2400
    nt = [c for c in passed if classify_nontrivial(c[3]["inputs"], c[3]["out"])]
    tr = [c for c in passed if not classify_nontrivial(c[3]["inputs"], c[3]["out"])]
    rng.shuffle(nt)
    rng.shuffle(tr)
    sample = nt[: int(budget * 0.85)] + tr[: int(budget * 0.15)]
    items, meta = [], {}
    seen_terms = {}

    def add(kind, ast, a, f, o, out, expect_bad, extra=None):
        term = case_term(ast, o["inputs"], o["sizes"], out)
        if term in seen_terms:
            return
        i = len(items)
        seen_terms[term] = i
        items.append((i, term))
        meta[i] = (kind, ast, a, f, o, out, expect_bad, extra)

    for ast, a, f, o, ph in flagged:
        add("flagged", ast, a, f, o, o["out"], True if ph else None, ph)
    for ast, a, f, o in sample:
        add("sample", ast, a, f, o, o["out"], False)
    n_inj = 0
    for ast, a, f, o in (nt + tr)[: (600 if thorough else 200)]:
        inj, lvl = inject_phantom(rng, o["out"])
        if inj is None or not py_wf(inj):
            continue
        try:
            ph = mirror_phantoms(ast, o["inputs"], o["sizes"], inj)
        except Exception:
            continue
        add("injected", ast, a, f, o, inj, bool(ph), ph)
        n_inj += 1
    t0 = _t.time()
    failing, errors = run_coq_shards(chk, "np", items)
    chk.note(f"timing: coq shards {_t.time() - t0:.0f}s ({len(items)} cases)")
    for e in errors:
        chk.broken.append({"kind": "harness", "what": "Coq shard failed", **e})
    chk.count("coq:cases-evaluated", len(items))
    inj_detected = 0
    viol = []
    for i, (kind, ast, a, f, o, out, expect_bad, extra) in meta.items():
        coq_bad = i in failing
        if kind == "injected":
            chk.count("selftest:injected")
            if coq_bad:
                inj_detected += 1
                chk.count("selftest:injected-and-rejected-by-Coq")
        if expect_bad is not None and coq_bad != expect_bad:
            chk.broken.append({"kind": "correspondence", "what": "Python mirror and Coq no_phantomb disagree", "stream": kind,
                               "assignment": a, "formats": f, "sizes": o["sizes"], "entries": o["entries"], "out": out,
                               "mirror_phantoms": extra, "coq_rejects": coq_bad})
        if kind != "injected" and coq_bad:
            viol.append((ast, a, f, o, extra, items[i][1]))
    if n_inj and inj_detected == 0:
        chk.broken.append({"kind": "harness", "what": "self-test: no injected phantom was rejected by the Coq oracle (vacuous oracle?)"})

    seen = set()
    for ast, a, f, o, ph, term in viol:
        h = a + json.dumps(f, sort_keys=True) + o.get("kernel", "")
        if h in seen:
            chk.count("violations:suppressed-duplicates")
            continue
        seen.add(h)
        if len(seen) > 12:
            chk.count("violations:suppressed-beyond-12")
            continue
        ok, outp = chk.coq_eval(f"c03_ph_{os.getpid()}_{len(seen)}", coq_phantoms_file(term), timeout=300)
        m = re.search(r"=\s*(.*?)\s*:\s*list", outp, flags=re.S)
        chk.violation(
            "a compressed output level stores a coordinate without structural support",
            {"assignment": a, "formats": f, "sizes": o["sizes"], "entries": o["entries"], "kernel": o.get("kernel", "evaluate"),
             "inputs_raw": o["inputs"], "output_raw": o["out"],
             "phantoms_level_and_level_order_prefix": ph,
             "coq_phantoms": " ".join(m.group(1).split()) if (ok and m) else outp[-300:]},
        )
    # samples
    k = 0
    for ast, a, f, o in nt:
        if k >= 3:
            break
        if any(len(ix) == 2 and ix[1] for ix in o["out"]["indices"]):
            chk.sample({"assignment": a, "formats": f, "sizes": o["sizes"], "entries": o["entries"], "output": o["out"],
                        "phantoms": []})
            k += 1
    exhaust_stream(chk, 3000 if thorough else 800)
    chk.extra["oracle"] = "Support.no_phantomb (Coq, vm_compute); proved <-> 'every prefix stored by a compressed level has level_support' in props/C03.v"
    cleanup_scratch()

    # abstract kernel model G (coq/model/Kernel.v; theorems props/C01G.v: G computes spec, its output is
    # well-formed and phantom-free): exact raw-array correspondence with the real evaluate kernels
    from props._c01_kernel import run_kernel_correspondence
    run_kernel_correspondence(chk)


def replay(chk: Check, payload):
    os.environ.pop(GUARD, None)
    if not payload.get("assignment") or "entries" not in payload:
        print("replay: no concrete input in this file:", payload.get("what"))
        return 1
    req = {"mode": "cases", "cases": [{"assignment": payload["assignment"], "formats": payload["formats"],
                                       "sizes": payload["sizes"], "entries": payload["entries"]}]}
    _, recs, crashed, err, rc = launch_workers(chk, [req])[0]
    if crashed or not recs:
        print("replay: worker crashed", err[-300:])
        return 1
    o = recs[0]
    if o["status"] != "ok":
        print("replay:", o["status"], o.get("error"))
        return 0 if o["status"] == "skip" else 1
    term = case_term(o["ast"], o["inputs"], o["sizes"], o["out"])
    failing, errors = run_coq_shards(chk, "replay", [(0, term)])
    ok, outp = chk.coq_eval(f"c03_replay_ph_{os.getpid()}", coq_phantoms_file(term), timeout=300)
    print("replay: output", json.dumps(o["out"]))
    print("replay: Coq phantoms", " ".join(outp.split())[:400])
    bad = bool(failing) or bool(errors)
    print("replay:", "STILL FAILING" if bad else "passes now")
    cleanup_scratch()
    return 1 if bad else 0
