"""C01 -- evaluate computes the mathematical meaning of the assignment, in every format.

Proof side (coq/props/C01.v, unbounded, any commutative ring):
  A  the specification `spec` and its invariances (assoc/comm/regrouping, renaming, storage, broadcast)
  B  desugaring preserves the meaning (repaired function: all assignments; today's function: under
     the boolean guard `assignment_hoist_ok`; refuted without it -- K-C01-F2)
  C  the algebra of the co-iteration lattice (exhaust_tensor, extract_context)
Ties to /repo on every run (correspondence, exact):
  desugar   Python's desugar_assignment tree == model tree (decides WHICH of today's / repaired
            function /repo implements), tensora's parse == the harness's own parser
  exhaust   exhaust_tensor / extract_context == model on generated trees (incl. `is` short-circuits)
TESTING, not proof (the step from the desugared assignment to the emitted loops is not verified):
  sweep     the real `evaluate` kernel (raw taco arrays, independent decoder) against `spec` on
            problems x formats x sizes x sparsity patterns; `spec` is evaluated by a Python mirror
            for every case and inside Coq (vm_compute of Spec.spec on the stored inputs) for a
            sample, and the two evaluations are cross-checked.
Known findings are recognised by classifiers (never by case id):
  K-C01-F2  hoist of a contraction over a term lacking the index   (classify_f2)
  K-C01-F3  integer literals lowered to int32 arithmetic            (classify_f3)
"""
from __future__ import annotations

import json
import os
import re
import shutil
import subprocess
import time
from concurrent.futures import ThreadPoolExecutor
from fractions import Fraction
from pathlib import Path

from harness import c01_spec as S
from harness import sweep
from vlib.core import BUILD, PY, VERIF, impl_env

PROP = "C01"
CORPUS = VERIF / "corpus" / PROP
WORK = BUILD / "c01" / f"run_p{os.getpid()}"
WORKER = str(VERIF / "tools" / "harness" / "c01_worker.py")

K_F2 = "K-C01-F2"
K_F3 = "K-C01-F3"
F2_TEXT = ("desugar_add/desugar_subtract/desugar_multiply hoist a contraction index shared by both operands "
           "although some additive term below lacks it; that term is summed size(index) times "
           "(result == today's desugared tree's denotation != spec)")
F3_TEXT = ("integer literals are lowered to int32 arithmetic (to_ir_integer emits IntegerLiteral): an "
           "all-integer-literal subexpression (possibly arising after exhausting tensors; on the C back end also "
           "after the printer drops the parentheses of a right-nested chain, K-C06-1) or a literal leaves "
           "int32; the same assignment with float literals is correct")

MAX_REPORTED = 20
MAX_CRASHES_PER_SHARD = 4
TYPED_REFUSALS = ("DiagonalAccessError@", "NoKernelFoundError@", "BroadcastTargetIndexError@")
K_C08_1 = "NotImplementedError@iteration_graph/outputs/_append.py:next_output"

F3_TEMPLATES = [
    "a() = 65536 * 65536",
    "a() = 3000000000 * 1",
    "a(i) = 65536 * 65536 * b(i)",
    "a(i) = 65536 * (65536 * b(i))",
    "a(i) = (b(i) + 65536) * 65536",
    "a(i) = b(i) * 46341 * 46341",
]
LATTICE_TEMPLATES = [   # vectors only: 2^n format assignments, the whole co-iteration lattice is reachable
    "a(i) = (b(i) + c(i)) * d(i) + e(i)",
    "a(i) = (b(i) + c(i)) * d(i)",
    "a(i) = b(i) * c(i) + d(i) * e(i)",
    "a(i) = (b(i) + c(i)) * (d(i) + e(i))",
    "a(i) = b(i) * (c(i) + d(i) * e(i))",
    "a(i) = b(i) + c(i) * d(i) - e(i)",
    "a() = (b(i) + c(i)) * d(i)",
]
F2_TEMPLATES = [
    "o() = X() + Y(k) + Z(k)",
    "o() = Y(k) + Z(k) + X()",
    "o() = (Y(k) + X()) * (Z(k) + E())",
    "o() = X() * (Y(k) + 1) + Z(k)",
    "o(i) = W(i) + V(i,k) + U(i,k)",
    "o(i) = V(i,k) - W(i) - U(i,k)",
    "o() = 2 + Y(k) + Z(k)",
    "o(i) = V(i,k) * Y(k) + W(i) + U(i,k)",
    # products of sums that must be distributed (signs of the expanded terms matter)
    "o() = (Y(k) - X()) * (Z(k) - E())",
    "o() = (X() - Y(k)) * (E() - Z(k))",
    "o() = (Y(k) - X()) * (Z(k) + E())",
    "o(i) = (V(i,k) - W(i)) * (U(i,k) - W(i))",
    "o() = (Y(k) + X()) * (Z(k) - E()) - Y(k)",
    "o() = (Y(k) - X() - 2) * (Z(k) - E())",
]


# ------------------------------------------------------------------------------------------------
# running the implementation
# ------------------------------------------------------------------------------------------------
def run_worker(cmd: str, job: dict, name: str, timeout: int = 900, extra: list[str] | None = None):
    WORK.mkdir(parents=True, exist_ok=True)
    inp, outp = WORK / f"{name}.in.json", WORK / f"{name}.out.json"
    inp.write_text(json.dumps(job))
    if outp.exists():
        outp.unlink()
    try:
        p = subprocess.run([PY, "-B", WORKER, cmd, str(inp), str(outp)] + (extra or []), env=impl_env(),
                           cwd=str(VERIF), capture_output=True, text=True, timeout=timeout)
        rc, err = p.returncode, p.stderr
    except subprocess.TimeoutExpired:
        rc, err = 124, "timeout"
    return rc, err, outp


def eval_shard(shard_id: int, cases: list[dict], per_case_timeout: int, tag: str):
    """Run explicit cases in worker subprocesses.  A crash / hang of the process is attributed to the
    case that was running, recorded, and the rest of the shard continues in a fresh process.
    Returns (results by id, crashes [(case, rc, stderr tail)])."""
    results, crashes = {}, []
    todo = list(cases)
    attempt = 0
    while todo:
        attempt += 1
        name = f"{tag}_shard{shard_id}_{attempt}"
        WORK.mkdir(parents=True, exist_ok=True)
        inp, outp, prog = WORK / f"{name}.in.json", WORK / f"{name}.out.jsonl", WORK / f"{name}.progress"
        for f in (outp, prog):
            if f.exists():
                f.unlink()
        inp.write_text(json.dumps({"cases": todo, "per_case_timeout": per_case_timeout}))
        budget = 120 + per_case_timeout * 2 + len(todo) * 3
        try:
            p = subprocess.run([PY, "-B", WORKER, "eval", str(inp), str(outp), str(prog)], env=impl_env(),
                               cwd=str(VERIF), capture_output=True, text=True, timeout=budget)
            rc, err = p.returncode, p.stderr
        except subprocess.TimeoutExpired as e:
            rc, err = 124, "shard timeout " + str((e.stderr or b"")[-400:])
        if outp.exists():
            for line in outp.read_text().splitlines():
                try:
                    r = json.loads(line)
                except ValueError:
                    continue
                results[r["id"]] = r
        if rc == 0:
            break
        # which case was running?
        started, done = None, set()
        if prog.exists():
            for line in prog.read_text().splitlines():
                k, _, v = line.partition(" ")
                if k == "S":
                    started = int(v)
                elif k == "D":
                    done.add(int(v))
        remaining = [c for c in todo if c["id"] not in results]
        if started is None or started in done:
            # died outside any case (import error, ...): give up on the shard, report as harness problem
            crashes.append((None, rc, err[-1500:]))
            break
        culprit = next(c for c in todo if c["id"] == started)
        crashes.append((culprit, rc, err[-1500:]))
        todo = [c for c in remaining if c["id"] != started]
        if attempt >= MAX_CRASHES_PER_SHARD:
            # the violation is established; do not spend the budget on more watchdog timeouts
            for c in todo:
                results[c["id"]] = {"id": c["id"], "status": "skipped", "out": "not executed: repeated crashes in this shard"}
            break
    return results, crashes


def run_cases(chk, cases: list[dict], workers: int, tag: str, per_case_timeout: int = 60):
    """Distribute cases over `workers` shards (cases of one kernel stay together)."""
    groups: dict[str, list[dict]] = {}
    for c in cases:
        key = c["assignment"] + "|" + json.dumps(c["formats"], sort_keys=True) + "|" + c.get("backend", "llvm")
        groups.setdefault(key, []).append(c)
    shards: list[list[dict]] = [[] for _ in range(workers)]
    for i, g in enumerate(sorted(groups.values(), key=len, reverse=True)):
        min(shards, key=len).extend(g)
    shards = [s for s in shards if s]
    results, crashes = {}, []
    with ThreadPoolExecutor(max_workers=workers) as ex:
        for res, cr in ex.map(lambda t: eval_shard(t[0], t[1], per_case_timeout, tag), enumerate(shards)):
            results.update(res)
            crashes.extend(cr)
    return results, crashes


# ------------------------------------------------------------------------------------------------
# judging one case
# ------------------------------------------------------------------------------------------------
def env_of_inputs(case, res):
    """name -> {coord: Fraction}: what the kernel was given, read from the RAW input arrays when they
    are available (duplicates add up), else from the intended entries."""
    env, differs = {}, False
    for n, v in case["inputs"].items():
        intended = {}
        for c, x in v["entries"]:
            intended[tuple(c)] = intended.get(tuple(c), Fraction(0)) + Fraction(x)
        raw = (res.get("raw_in") or {}).get(n)
        if raw is not None:
            got = {}
            for c, xs in sweep.decode(raw).items():
                got[c] = sum((Fraction(x) for x in xs), Fraction(0))
            if {k: x for k, x in got.items() if x != 0} != {k: x for k, x in intended.items() if x != 0}:
                differs = True
            env[n] = got
        else:
            env[n] = intended
    return env, differs


def abs_of_raw(raw):
    """coord -> sum of stored values (independent decoder sweep.decode; duplicates visible)"""
    dec = sweep.decode(raw)
    return {c: sum((Fraction(x) for x in xs), Fraction(0)) for c, xs in dec.items()}, \
        {c: len(xs) for c, xs in dec.items() if len(xs) > 1}


def compare(case, res, a=None):
    """The property on one executed case.  Returns (ok, detail dict, abs table or None)."""
    a = a or S.parse_assignment(case["assignment"])
    sizes = case["sizes"]
    env, _ = env_of_inputs(case, res)
    expected = S.spec_table(a, env, sizes)
    dims = S.out_dims(a, sizes)
    raw = res["out"]
    detail = {"expected_dims": dims, "actual_dims": raw.get("dims")}
    if list(raw.get("dims", [])) != dims:
        detail["why"] = "output dimensions are not the target dimensions"
        return False, detail, None
    try:
        got, dups = abs_of_raw(raw)
    except Exception as e:  # noqa: BLE001
        detail["why"] = f"raw output not decodable: {type(e).__name__}: {e}"
        return False, detail, None
    bad = []
    for c, v in expected.items():
        if got.get(c, Fraction(0)) != v:
            bad.append([list(c), str(v), str(got.get(c, Fraction(0)))])
    outside = [list(c) for c in got if c not in expected]
    if bad or outside:
        detail["why"] = "value differs from the specification" if bad else "entries stored outside the dimensions"
        detail["first_differences (coord, expected, actual)"] = bad[:6]
        detail["outside"] = outside[:6]
        detail["duplicates"] = {str(k): n for k, n in list(dups.items())[:4]}
        return False, detail, got
    return True, detail, got


def classify_f2(case, res, a, impl_is: str, graph_rec=None):
    """K-C01-F2: some additive term lacks a contracted index that a sibling carries AND is hoisted over
    (not assignment_hoist_ok), the implementation is today's desugaring, and the result equals the spec
    with that term multiplied by the index's size -- as today's desugared tree denotes it (today_table) or
    as the REAL iteration graph places it (f2_graph_pattern: the graph has the spec's monomials, some summed
    additionally over indexes they lack)."""
    if impl_is != "today" or S.assignment_hoist_ok(a):
        return False
    env, _ = env_of_inputs(case, res)
    try:
        got, _ = abs_of_raw(res["out"])
    except Exception:  # noqa: BLE001
        return False
    if list(res["out"].get("dims", [])) != S.out_dims(a, case["sizes"]):
        return False

    def same(table):
        return all(got.get(c, Fraction(0)) == v for c, v in table.items()) and all(c in table for c in got)

    if same(S.today_table(a, env, case["sizes"])):
        return True
    if graph_rec is not None:
        pattern = S.f2_graph_pattern(a, graph_rec["graph"], graph_rec["orderings"])
        if pattern is not None and any(extra for _, _, extra in pattern):
            return same(S.f2_graph_table(a, pattern, env, case["sizes"]))
    return False


# ------------------------------------------------------------------------------------------------
# Coq output parsing
# ------------------------------------------------------------------------------------------------
def parse_nat_lists(out: str) -> list[list[int]]:
    body = out.split("=", 1)[1] if "=" in out else out
    return [[int(x) for x in re.findall(r"\d+", m)] for m in re.findall(r"\[([^\[\]]*)\]", body)]


# ------------------------------------------------------------------------------------------------
# stage: desugar correspondence
# ------------------------------------------------------------------------------------------------
def normalise_contracts(d):
    """maximal chains of Contract re-nested in sorted order (innermost = smallest), like
    DesugarSem.dnormalise"""
    k = d[0]
    if k == "c":
        ks, body = [], d
        while body[0] == "c":
            ks.append(body[1])
            body = body[2]
        body = normalise_contracts(body)
        for x in sorted(ks):
            body = ["c", x, body]
        return body
    if k in ("+", "*"):
        return [k, normalise_contracts(d[1]), normalise_contracts(d[2])]
    return d


FLOAT_SCALE = 1000


def coq_dexpr(d) -> str:
    k = d[0]
    if k == "int":
        return f"(DInt {S.cz(d[1])})"
    if k == "float":
        return f"(DFloat {S.cz(S.float_as_Z(d[1], FLOAT_SCALE))})"
    if k == "t":
        return f"(DTensor {int(d[1])}%nat {S.cstr(d[2])} {S.clist(S.cstr(i) for i in d[3])})"
    if k == "c":
        return f"(DContract {S.cstr(d[1])} {coq_dexpr(d[2])})"
    return f"({'DAdd' if k == '+' else 'DMul'} {coq_dexpr(d[1])} {coq_dexpr(d[2])})"


def to_tuple(x):
    return tuple(to_tuple(y) for y in x) if isinstance(x, list) else x


def sugar_equal(mine, theirs) -> bool:
    """my parse vs tensora's parse (floats compared by value)"""
    def norm(e):
        if e[0] == "float":
            return ("float", float(e[1]))
        if e[0] in ("int",):
            return ("int", int(e[1]))
        if e[0] == "t":
            return ("t", e[1], tuple(e[2]))
        return (e[0], norm(e[1]), norm(e[2]))
    return mine[0] == theirs[0] and tuple(mine[1]) == tuple(theirs[1]) and norm(mine[2]) == norm(to_tuple(theirs[2]))


def stage_desugar(chk, texts: list[str]) -> str:
    """Returns 'today' | 'repaired' | 'neither'."""
    rc, err, outp = run_worker("desugar", {"assignments": texts}, "desugar")
    if rc != 0 or not outp.exists():
        chk.broken.append({"kind": "correspondence", "stage": "desugar", "error": err[-1500:]})
        return "neither"
    recs = json.loads(outp.read_text())
    rows, used = [], []
    for r in recs:
        if "error" in r:
            chk.count("desugar.refused:" + r["error"])
            continue
        mine = S.parse_assignment(r["assignment"])
        if not sugar_equal(mine, r["sugar"]):
            chk.broken.append({"kind": "correspondence", "stage": "parse", "assignment": r["assignment"],
                               "harness_parse": str(mine), "tensora_parse": r["sugar"]})
            continue
        try:
            rows.append(f"({S.coq_assignment(mine, FLOAT_SCALE)}, ({coq_dexpr(r['target'])}, "
                        f"{coq_dexpr(normalise_contracts(r['desugared']))}))")
        except ValueError:
            continue
        used.append(r)
    text = ("From Coq Require Import ZArith List String.\nFrom TV Require Import spec.Storage spec.Spec "
            "model.DesugarSem.\nImport ListNotations.\nOpen Scope Z_scope.\n"
            "Definition cases : list (assignment Z * (dexpr Z * dexpr Z)) :=\n [" + ";\n  ".join(rows) + "].\n"
            "Eval vm_compute in (false_positions (map (desugar_case_ok false) cases), "
            "false_positions (map (desugar_case_ok true) cases)).\n")
    ok, out = chk.coq_eval(f"c01_p{os.getpid()}_desugar", text)
    if not ok:
        chk.broken.append({"kind": "correspondence", "stage": "desugar", "coq_error": out[-1500:]})
        return "neither"
    lists = parse_nat_lists(out)
    bad_today, bad_repaired = lists[0], lists[1]
    n_sensitive = sum(1 for r in used if not S.assignment_hoist_ok(S.parse_assignment(r["assignment"])))
    chk.count("desugar.assignments", len(used))
    chk.count("desugar.f2_sensitive", n_sensitive)
    for r in used:
        chk.case(("desugar", r["assignment"]))
    if used:
        chk.sample({"stage": "desugar", "assignment": used[-1]["assignment"],
                    "python_desugared": used[-1]["desugared"]})
    if not bad_today:
        which = "today"
    elif not bad_repaired:
        which = "repaired"
    else:
        which = "neither"
        i = bad_today[0]
        chk.broken.append({"kind": "correspondence", "stage": "desugar",
                           "what": "Python's desugared tree is neither today's nor the repaired model's",
                           "assignment": used[i]["assignment"], "python_desugared": used[i]["desugared"],
                           "differs_from_today_model": [used[j]["assignment"] for j in bad_today[:5]],
                           "differs_from_repaired_model": [used[j]["assignment"] for j in bad_repaired[:5]]})
    chk.note(f"desugar correspondence: /repo implements the {which} function "
             f"({len(used)} assignments, {n_sensitive} F2-sensitive; mismatches today={len(bad_today)} "
             f"repaired={len(bad_repaired)})")
    return which


# ------------------------------------------------------------------------------------------------
# stage: exhaust / extract_context correspondence
# ------------------------------------------------------------------------------------------------
def coq_iexpr(e, scale: int = 2) -> str:
    k = e[0]
    if k == "int":
        return f"(IInt {S.cz(e[1])})"
    if k == "float":
        return f"(IFloat {S.cz(S.float_as_Z(e[1], scale))})"
    if k == "t":
        modes = S.clist("MDense" if m == "d" else "MCompressed" for m in e[4])
        return f"(ITensor {S.cstr(e[1])} {S.cstr(e[2])} {S.clist(S.cstr(i) for i in e[3])} {modes})"
    return f"({'IAdd' if k == '+' else 'IMul'} {coq_iexpr(e[1], scale)} {coq_iexpr(e[2], scale)})"


def coq_context(c) -> str:
    if c is None:
        return "None"
    lv = lambda ls: S.clist(f"({S.cstr(i)}, {int(l)}%nat)" for i, l in ls)  # noqa: E731
    return f"(Some (mkContext {'true' if c['is_sparse'] else 'false'} {lv(c['sparse'])} {lv(c['dense'])}))"


def stage_exhaust(chk, n: int):
    seed = chk.rng.randrange(2 ** 31)
    rc, err, outp = run_worker("exhaust", {"seed": seed, "n": n}, "exhaust")
    if rc != 0 or not outp.exists():
        chk.broken.append({"kind": "correspondence", "stage": "exhaust", "error": err[-1500:]})
        return
    recs = json.loads(outp.read_text())
    files = []
    for lo in range(0, len(recs), 250):
        rows = []
        for r in recs[lo:lo + 250]:
            ex = S.clist(f"({S.cstr(t)}, ({coq_iexpr(v['tree'])}, {'true' if v['same'] else 'false'}))"
                         for t, v in r["exhaust"].items())
            cx = S.clist(f"({S.cstr(k)}, {coq_context(c)})" for k, c in r["context"].items())
            rows.append(f"({coq_iexpr(r['tree'])}, {ex}, {cx})")
        files.append((lo, "From Coq Require Import ZArith List String.\nFrom TV Require Import spec.Spec model.Exhaust.\n"
                      "Import ListNotations.\nOpen Scope Z_scope.\n"
                      "Definition cases : list (iexpr Z * list (string * (iexpr Z * bool)) * "
                      "list (string * option context)) :=\n [" + ";\n  ".join(rows) + "].\n"
                      "Eval vm_compute in (false_positions (map exhaust_case_ok cases)).\n"))
    with ThreadPoolExecutor(max_workers=4) as ex:
        outs = list(ex.map(lambda t: (t[0], chk.coq_eval(f"c01_p{os.getpid()}_exhaust_{t[0]}", t[1])), files))
    nontrivial = 0
    for lo, (ok, out) in outs:
        if not ok:
            chk.broken.append({"kind": "correspondence", "stage": "exhaust", "coq_error": out[-1500:]})
            continue
        for i in (parse_nat_lists(out) or [[]])[0]:
            chk.broken.append({"kind": "correspondence", "stage": "exhaust",
                               "what": "exhaust_tensor / extract_context differ from model/Exhaust.v",
                               "case": recs[lo + i]})
    for r in recs:
        changed = any(not v["same"] for v in r["exhaust"].values())
        nontrivial += changed
        chk.case(("exhaust", json.dumps(r["tree"])), nontrivial=True)
    chk.count("exhaust.trees", len(recs))
    chk.count("exhaust.trees_changed_by_some_reference", nontrivial)
    chk.count("exhaust.contexts_sparse", sum(1 for r in recs for c in r["context"].values() if c and c["is_sparse"]))
    if recs:
        chk.sample({"stage": "exhaust", "tree": recs[0]["tree"], "exhaust": recs[0]["exhaust"]})



# ------------------------------------------------------------------------------------------------
# stage: the real first iteration graph as a checked certificate (graph_ok, proved sound)
# ------------------------------------------------------------------------------------------------
def coq_graph(g) -> str:
    k = g[0]
    if k == "T":
        return f"(GTerminal {coq_iexpr(g[1], FLOAT_SCALE)})"
    if k == "I":
        out = "None" if g[2] is None else f"(Some {int(g[2])}%nat)"
        return f"(GIter {S.cstr(g[1])} {out} {coq_graph(g[3])})"
    return f"(GSum {S.clist(coq_graph(t) for t in g[1])})"


def stage_graphs(chk, problems: list[dict], impl_is: str) -> dict:
    """problems: [{assignment, formats}] (distinct).  Every graph Python builds must be accepted by the
    verified checker DesugarSemGraph.graph_ok_spec against the SPECIFICATION of the assignment.  On
    today's tree the graphs of F2-sensitive assignments that put a term under a loop whose index it
    lacks are rejected: that is K-C01-F2 seen at graph level (classified by f2_graph_pattern).
    Returns {(assignment, formats-json): record} for the F2 classifier of the sweep."""
    rc, err, outp = run_worker("graphs", {"problems": problems}, "graphs")
    if rc != 0 or not outp.exists():
        chk.broken.append({"kind": "correspondence", "stage": "graphs", "error": err[-1500:]})
        return {}
    recs = [r for r in json.loads(outp.read_text()) if "graph" in r]
    files = []
    usable = []
    for r in recs:
        try:
            a = S.parse_assignment(r["assignment"])
            ords = S.clist(f"({S.cstr(n)}, {sweep.natlist(o)})" for n, o in sorted(r["orderings"].items()))
            row = (f"({ords}, {S.coq_assignment(a, FLOAT_SCALE)}, {coq_dexpr(r['desugared'])}, "
                   f"{coq_graph(r['graph'])})")
        except ValueError:
            continue
        usable.append((r, a, row))
    for lo in range(0, len(usable), 300):
        rows = [u[2] for u in usable[lo:lo + 300]]
        files.append((lo, "From Coq Require Import ZArith List String.\nFrom TV Require Import spec.Storage spec.Spec "
                      "model.DesugarSem model.Exhaust model.DesugarSemGraph.\nImport ListNotations.\nOpen Scope Z_scope.\n"
                      "Definition cases : list (list (string * list nat) * assignment Z * dexpr Z * graph Z) :=\n ["
                      + ";\n  ".join(rows) + "].\n"
                      "Definition ords_of (o : list (string * list nat)) (n : string) : list nat := "
                      "match lookup n o with Some l => l | None => [] end.\n"
                      "Eval vm_compute in (false_positions (map (fun '(o, a, d, g) => graph_ok_spec (ords_of o) Z.eqb a g) cases), "
                      "false_positions (map (fun '(o, a, d, g) => graph_ok (ords_of o) Z.eqb d g) cases)).\n"))
    with ThreadPoolExecutor(max_workers=4) as ex:
        outs = list(ex.map(lambda t: (t[0], chk.coq_eval(f"c01_p{os.getpid()}_graphs_{t[0]}", t[1])), files))
    rejected = known = 0
    for lo, (ok, out) in outs:
        if not ok:
            chk.broken.append({"kind": "correspondence", "stage": "graphs", "coq_error": out[-1500:]})
            continue
        lists = parse_nat_lists(out)
        bad_spec, bad_desugared = lists[0], set(lists[1])
        for i in bad_spec:
            r, a, _ = usable[lo + i]
            pattern = S.f2_graph_pattern(a, r["graph"], r["orderings"])
            if (impl_is == "today" and not S.assignment_hoist_ok(a) and pattern is not None
                    and any(extra for _, _, extra in pattern)):
                known += 1
                chk.known_finding(K_F2, F2_TEXT)
                continue
            rejected += 1
            if rejected <= 5:
                chk.broken.append({"kind": "certificate", "stage": "graphs",
                                   "what": "the iteration graph built by /repo is rejected by the verified checker "
                                           "graph_ok_spec: as a loop nest it does not denote the specification",
                                   "assignment": r["assignment"], "formats": r["formats"], "graph": r["graph"],
                                   "also_rejected_against_python_desugared_tree": (i in bad_desugared)})
        chk.count("graphs.differ_from_python_desugared_tree", len(bad_desugared))
    for r, a, _ in usable:
        chk.case(("graph", r["assignment"], json.dumps(r["formats"], sort_keys=True)))
    chk.count("graphs.validated", len(usable))
    chk.count("graphs.rejected", rejected)
    chk.count("graphs.rejected_known_F2", known)
    chk.count("graphs.with_sum_node", sum(1 for r, _, _ in usable if '"S"' in json.dumps(r["graph"])))
    if usable:
        chk.sample({"stage": "graphs", "assignment": usable[-1][0]["assignment"], "formats": usable[-1][0]["formats"],
                    "graph": usable[-1][0]["graph"]})
    return {(r["assignment"], json.dumps(r["formats"], sort_keys=True)): r for r, _, _ in usable}


# ------------------------------------------------------------------------------------------------
# stage: spec evaluated inside Coq, cross-checked against the Python mirror
# ------------------------------------------------------------------------------------------------
def stage_coq_spec(chk, judged: list[dict], n_cases: int):
    """judged: dicts with case, res, a, ok (mirror verdict), table (mirror spec table)."""
    pool = [j for j in judged if not S.has_fractional_literal(j["a"][2]) and j["res"].get("raw_in") is not None
            and len(j["table"]) <= 64]
    chk.rng.shuffle(pool)
    # keep all mirror-failing cases (they must fail in Coq too) and fill up with passing ones
    chosen = [j for j in pool if not j["ok"]][:40]
    chosen += [j for j in pool if j["ok"]][: max(0, n_cases - len(chosen))]
    rows, used = [], []
    for j in chosen:
        try:
            ins = S.clist(f"({S.cstr(n)}, {sweep.coq_tensor_Z(r)})" for n, r in sorted(j["res"]["raw_in"].items()))
            out = sweep.coq_tensor_Z(j["res"]["out"])
        except (ValueError, OverflowError):
            continue
        rows.append(f"({S.coq_assignment(j['a'])}, {ins}, {S.coq_sizes(j['case']['sizes'])}, {out})")
        used.append(j)
    files = []
    for lo in range(0, len(rows), 120):
        files.append((lo, "From Coq Require Import ZArith List String.\nFrom TV Require Import spec.Storage spec.Spec.\n"
                      "Import ListNotations.\nOpen Scope Z_scope.\n"
                      "Definition cases : list (assignment ZOps * list (string * tensor Z) * list (string * Z) * tensor Z) :=\n ["
                      + ";\n  ".join(rows[lo:lo + 120]) + "].\n"
                      "Eval vm_compute in (map (fun '(a, ins, sz, out) => (spec_table a ins sz, c01_case_ok a ins sz out)) cases).\n"))
    with ThreadPoolExecutor(max_workers=4) as ex:
        outs = list(ex.map(lambda t: (t[0], chk.coq_eval(f"c01_p{os.getpid()}_spec_{t[0]}", t[1])), files))
    agree = 0
    for lo, (ok, out) in outs:
        if not ok:
            chk.broken.append({"kind": "harness", "stage": "coq-spec", "coq_error": out[-1500:]})
            continue
        body = out.split("=", 1)[1]
        body = body.rsplit(":", 1)[0]
        items = re.findall(r"\(\s*\[([^\[\]]*)\]\s*,\s*(true|false)\s*\)", body)
        part = used[lo:lo + 120]
        if len(items) != len(part):
            chk.broken.append({"kind": "harness", "stage": "coq-spec", "what": "cannot parse Coq output",
                               "expected_items": len(part), "got": len(items), "tail": out[-500:]})
            continue
        for (vals, verdict), j in zip(items, part):
            coq_table = [int(x) for x in re.findall(r"-?\d+", vals)]
            mirror_table = [j["table"][c] for c in S.all_coords(S.out_dims(j["a"], j["case"]["sizes"]))]
            if [Fraction(x) for x in coq_table] != mirror_table or (verdict == "true") != j["ok"]:
                chk.broken.append({"kind": "harness", "stage": "coq-spec",
                                   "what": "Spec.spec (vm_compute) and the Python mirror disagree -- harness bug, not a violation",
                                   "assignment": j["case"]["assignment"], "formats": j["case"]["formats"],
                                   "inputs": j["case"]["inputs"], "coq_table": coq_table,
                                   "mirror_table": [str(x) for x in mirror_table],
                                   "coq_verdict": verdict, "mirror_verdict": j["ok"]})
            else:
                agree += 1
    chk.count("coq_spec.cases_evaluated_in_coq", len(used))
    chk.count("coq_spec.agree_with_mirror", agree)
    chk.count("coq_spec.failing_cases_included", sum(1 for j in used if not j["ok"]))


# ------------------------------------------------------------------------------------------------
# problems
# ------------------------------------------------------------------------------------------------
RENAME_T = {"a": "q9", "b": "p8", "c": "n7", "d": "m6", "e": "h5", "o": "zz", "X": "m1", "Y": "g2", "Z": "c3",
            "W": "b4", "V": "a5", "U": "A6", "E": "B7"}
RENAME_I = {"i": "z", "j": "y", "k": "x", "l": "w"}


def search_assignments(rng, n: int) -> list[str]:
    """Expression shapes of the DESIGN's searcher: up to 4 leaves over {X(), Y(k), Z(k), W(i), V(i,k), 2, 0}
    with + - *, every target the used indexes allow."""
    out, seen = [], set()
    small = list(S.all_exprs(1)) + list(S.all_exprs(2))
    rng.shuffle(small)
    pool = small[: max(10, n // 4)]
    while len(pool) < n:
        pool.append(S.random_expr(rng, rng.choice([3, 3, 4, 4])))
    for e in pool:
        if not any(l[0] == "t" for l in S.leaves(e)):
            tgt = ()
        else:
            tgt = rng.choice(S.targets_for(e))
        text = S.show_assignment(("o", tgt, e))
        if text not in seen:
            seen.add(text)
            out.append(text)
    return out


def make_variants(rng, base: dict, all_by_assignment: dict, next_id) -> list[dict]:
    """Invariance variants of one explicit base case: renamed, one rearrangement, other formats."""
    a = S.parse_assignment(base["assignment"])
    out = []
    names = set(S.tensors_of(a[2])) | {a[0]}
    idxs = set(S.expr_idx(a[2])) | set(a[1])
    if names <= set(RENAME_T) and idxs <= set(RENAME_I):
        ra = S.rename(a, RENAME_T, RENAME_I)
        out.append({"id": next_id(), "assignment": S.show_assignment(ra),
                    "formats": {RENAME_T[n]: f for n, f in base["formats"].items()},
                    "sizes": {RENAME_I[k]: v for k, v in base["sizes"].items()},
                    "inputs": {RENAME_T[n]: v for n, v in base["inputs"].items()},
                    "variant_of": base["id"], "variant": "renamed", "raw_in": True})
    rs = S.rearrangements(a[2])
    # keep the set of tensors (a rearrangement never changes it) and the text parseable
    if rs:
        e2 = rng.choice(rs)
        out.append({"id": next_id(), "assignment": S.show_assignment((a[0], a[1], e2)), "formats": base["formats"],
                    "sizes": base["sizes"], "inputs": base["inputs"], "variant_of": base["id"],
                    "variant": "rearranged", "raw_in": True})
    others = [c for c in all_by_assignment.get(base["assignment"], []) if c["formats"] != base["formats"]]
    if others:
        o = rng.choice(others)
        out.append({"id": next_id(), "assignment": base["assignment"], "formats": o["formats"], "sizes": base["sizes"],
                    "inputs": base["inputs"], "variant_of": base["id"], "variant": "other-formats", "raw_in": True})
    return out


# ------------------------------------------------------------------------------------------------
# the sweep
# ------------------------------------------------------------------------------------------------
def replay_payload(case, res, detail):
    return {"input": {"assignment": case["assignment"], "formats": case["formats"], "sizes": case["sizes"],
                      "inputs": case["inputs"], "backend": case.get("backend", "llvm")},
            "expected": detail.get("first_differences (coord, expected, actual)") or detail.get("expected_dims"),
            "actual": res.get("out"), "detail": detail}


def judge_all(chk, cases, results, crashes, impl_is, workers, tag, graph_of=None):
    """Judge executed cases; returns the list of judged records."""
    by_id = {c["id"]: c for c in cases}
    judged, suspects = [], []
    for cid, res in results.items():
        case = by_id[cid]
        st = res["status"]
        if st == "skipped":
            chk.count("not_executed_after_repeated_crashes")
            continue
        if st == "harness":
            chk.broken.append({"kind": "harness", "stage": "eval", "case": case["assignment"], "error": res["out"][-800:]})
            continue
        if st == "error":
            e = res["out"]
            if e.startswith(TYPED_REFUSALS):
                chk.count("refused:" + e.split("@")[0])
            elif e == K_C08_1:
                chk.count("refused:NotImplementedError(K-C08-1)")
            else:
                chk.count("unexpected_exception")
                if chk.counters["unexpected_exception"] > MAX_REPORTED:
                    continue
                chk.violation(f"evaluate raised an undocumented exception instead of computing the assignment: {e}",
                              {"input": {"assignment": case["assignment"], "formats": case["formats"],
                                         "sizes": case["sizes"], "inputs": case["inputs"],
                                         "backend": case.get("backend", "llvm")},
                               "expected": "a result tensor or a documented refusal", "actual": e})
            continue
        a = S.parse_assignment(case["assignment"])
        ok, detail, got = compare(case, res, a)
        env, differs = env_of_inputs(case, res)
        if differs:
            chk.count("input_construction_differs_from_intended(C09)")
        rec = {"case": case, "res": res, "a": a, "ok": ok, "abs": got, "detail": detail,
               "table": S.spec_table(a, env, case["sizes"])}
        judged.append(rec)
        nontrivial = any(v != 0 for v in rec["table"].values()) or not ok
        chk.case((case["assignment"], json.dumps(case["formats"], sort_keys=True), json.dumps(case["sizes"], sort_keys=True),
                  json.dumps(case["inputs"], sort_keys=True), case.get("backend", "llvm")), nontrivial=nontrivial)
        chk.count("evaluated")
        chk.count("evaluated.order%d_output" % len(a[1]))
        if any(v == 0 for v in case["sizes"].values()):
            chk.count("evaluated.with_zero_sized_dimension")
        if not ok:
            suspects.append(rec)
    # ---- classify the failures
    twins = []
    for rec in suspects:
        case, res, a = rec["case"], rec["res"], rec["a"]
        grec = (graph_of or {}).get((case["assignment"], json.dumps(case["formats"], sort_keys=True)))
        if classify_f2(case, res, a, impl_is, grec):
            rec["known"] = K_F2
            chk.known_finding(K_F2, F2_TEXT)
            chk.count("known.F2")
            if chk.counters.get("known.F2", 0) <= 2:
                chk.sample({"known": K_F2, "assignment": case["assignment"], "formats": case["formats"],
                            "where": S.f2_terms(a), "detail": rec["detail"]})
            continue
        if S.f3_shape(a, case.get("backend", "llvm")):
            t = dict(case)
            t["id"] = 10_000_000 + case["id"]
            t["assignment"] = S.show_assignment(S.float_twin(a))
            t["twin_of"] = case["id"]
            twins.append((rec, t))
            continue
        rec["known"] = None
    if twins:
        tres, tcr = run_cases(chk, [t for _, t in twins], min(workers, 4), tag + "_twin")
        for rec, t in twins:
            r = tres.get(t["id"])
            fine = False
            if r and r["status"] == "ok":
                fine, _, _ = compare(t, r, S.parse_assignment(t["assignment"]))
            if fine:
                rec["known"] = K_F3
                chk.known_finding(K_F3, F3_TEXT)
                chk.count("known.F3")
                if chk.counters.get("known.F3", 0) <= 2:
                    chk.sample({"known": K_F3, "assignment": rec["case"]["assignment"], "formats": rec["case"]["formats"],
                                "backend": rec["case"].get("backend", "llvm"), "detail": rec["detail"],
                                "float_twin": t["assignment"]})
            else:
                rec["known"] = None
    def complexity(rec):
        c = rec["case"]
        return (len(S.leaves(rec["a"][2])), sum(len(v["entries"]) for v in c["inputs"].values()),
                sum(c["sizes"].values()), len(c["assignment"]))
    bad, seen_keys = [], set()
    for r in sorted((r for r in suspects if r.get("known") is None), key=complexity):
        key = json.dumps([r["case"]["assignment"], r["case"]["formats"], r["case"]["inputs"],
                          r["case"].get("backend", "llvm")], sort_keys=True)
        if key not in seen_keys:
            seen_keys.add(key)
            bad.append(r)
    for rec in bad[:MAX_REPORTED]:   # simplest failing cases first; the rest is only counted
        chk.violation("evaluate does not compute the meaning of the assignment: " + rec["detail"].get("why", "?"),
                      replay_payload(rec["case"], rec["res"], rec["detail"]))
    chk.count("violations.value", len(bad))
    for culprit, rc, err in crashes:
        if culprit is None:
            chk.broken.append({"kind": "harness", "stage": "eval", "what": "worker died outside any case",
                               "rc": rc, "stderr": err})
            continue
        chk.count("crashes")
        if chk.counters["crashes"] > MAX_REPORTED:
            continue
        # confirm the first ones in isolation (a crash can be the delayed effect of an earlier case)
        cr2 = None
        if chk.counters["crashes"] <= 2:
            alone, cr2 = eval_shard(9000 + culprit["id"], [culprit], 30, tag + "_confirm")
        chk.violation(
            "the evaluate kernel crashed or hung (process died) on this case"
            + ("" if cr2 or cr2 is None else " -- not reproducible in isolation, an earlier case of the same process may be the cause"),
            {"input": {"assignment": culprit["assignment"], "formats": culprit["formats"], "sizes": culprit["sizes"],
                       "inputs": culprit["inputs"], "backend": culprit.get("backend", "llvm")},
             "expected": "a result tensor", "actual": f"process exit status {rc}", "stderr_tail": err[-600:],
             "reproducible_alone": None if cr2 is None else bool(cr2)})
    return judged


def check_invariances(chk, judged):
    by_id = {j["case"]["id"]: j for j in judged}
    for j in judged:
        c = j["case"]
        if "variant_of" not in c:
            continue
        base = by_id.get(c["variant_of"])
        if base is None:
            chk.count(f"invariance.{c['variant']}.base_refused")
            continue
        chk.count(f"invariance.{c['variant']}.compared")
        if j["abs"] is None or base["abs"] is None:
            continue
        same = {k: v for k, v in j["abs"].items() if v != 0} == {k: v for k, v in base["abs"].items() if v != 0} \
            and j["res"]["out"]["dims"] == base["res"]["out"]["dims"]
        if same:
            continue
        if not j["ok"] or not base["ok"]:
            # at least one side is already judged wrong against the spec (reported there)
            chk.count(f"invariance.{c['variant']}.differs_because_of_a_reported_case")
            continue
        chk.violation(f"the result changes under '{c['variant']}' although both results pass the specification check "
                      "(harness inconsistency or a coordinate outside the box)",
                      {"input": {"base": base["case"], "variant": c}, "expected": "equal abs", "actual": "different abs"})


def load_corpus():
    out = []
    if CORPUS.exists():
        for f in sorted(CORPUS.glob("*.json")):
            try:
                d = json.loads(f.read_text())
            except ValueError:
                continue
            for c in d.get("cases", []):
                c = dict(c)
                c["corpus"] = f.name
                c["expect"] = d.get("expect")
                out.append(c)
    return out


def run(chk):
    thorough = chk.tier == "thorough"
    workers = 8
    chk.rule = (
        "problems = sweep.TEMPLATES + F2/F3 families + searcher shapes (<=4 leaves over {X(),Y(k),Z(k),W(i),V(i,k),2,0}, "
        "+ - *, every admissible target); per problem: format assignments (sweep.format_choices: exhaustive when small, "
        "seeded sample otherwise, + both 3-cycle orderings for every order-3 tensor) x index sizes from {0,1,2,3} x inputs "
        "(mixed/full/empty/explicit-zero patterns); each executed case additionally as renamed / rearranged / other-format "
        "variant; a case is distinct by (assignment, formats, sizes, inputs, backend), non-trivial when the expected tensor "
        "is not all zero or the case fails")
    chk.trusted += [
        "hand model coq/model/DesugarSem.v (desugar_assignment) tied by exact tree correspondence on every run",
        "hand model coq/model/Exhaust.v (exhaust_tensor, extract_context) tied by exact correspondence on generated trees",
        "hand model coq/model/DesugarSemGraph.v (iteration graph data, loop-nest meaning gdenote): the graph dumper "
        "(c01_worker.graphs) is 1:1 on node classes; gdenote is the SPECIFICATION of what a graph means as loops",
        "NOT VERIFIED: iteration_graph/_generate_ir.py, outputs/*, _to_iteration_graphs.py, code generation and "
        "compilation: covered only by the differential sweep of real kernels against Spec.spec (testing)",
        "tools/harness/c01_spec.py Python mirror of Spec.spec (cross-checked against vm_compute of Spec.spec on a sample each run)",
        "tools/harness/sweep.py decode (independent reader of raw taco arrays) and Storage.entries",
        "binary64 arithmetic is exact on the swept values (small integers, halves; all intermediates < 2^53)",
    ]
    t0 = time.time()
    chk.coq_props()
    okf, logf = chk.coq_make(["findings/K_C01_F2.vo"])
    if not okf:
        chk.broken.append({"kind": "proof", "file": "findings/K_C01_F2.v", "coq_output_tail": logf[-1500:]})

    rng = chk.rng
    # ---------------------------------------------------------------- problems
    n_search = 180 if thorough else 90
    search = search_assignments(rng, n_search)
    templates = list(sweep.TEMPLATES)
    problems = []
    cap_t, cap_s = (20, 5) if thorough else (7, 3)
    ns, ni = (3, 2) if thorough else (2, 2)
    for t in templates:
        problems.append({"assignment": t, "cap": cap_t, "nsizes": ns, "ninputs": ni, "tag": "template"})
    for t in LATTICE_TEMPLATES:
        problems.append({"assignment": t, "cap": 32 if thorough else 8, "nsizes": 3, "ninputs": 8 if thorough else 5,
                         "tag": "lattice", "sizes_set": [2, 3, 4], "prefer_sparse": True})
    for t in F2_TEMPLATES:
        problems.append({"assignment": t, "cap": cap_s + 2, "nsizes": ns + 1, "ninputs": ni, "tag": "f2"})
    for t in F3_TEMPLATES:
        problems.append({"assignment": t, "cap": 4, "nsizes": 2, "ninputs": 2, "tag": "f3"})
    for t in search:
        problems.append({"assignment": t, "cap": cap_s, "nsizes": ns, "ninputs": ni, "tag": "search"})
    chk.count("problems.assignments", len(problems))

    # ---------------------------------------------------------------- correspondences (proof ties)
    impl_is = stage_desugar(chk, [p["assignment"] for p in problems])
    stage_exhaust(chk, 1500 if thorough else 500)
    chk.note(f"ties done after {time.time() - t0:.0f}s")

    # ---------------------------------------------------------------- plan
    rc, err, outp = run_worker("plan", {"seed": rng.randrange(2 ** 31), "problems": problems}, "plan")
    if rc != 0 or not outp.exists():
        chk.broken.append({"kind": "harness", "stage": "plan", "error": err[-1500:]})
        return
    planned = json.loads(outp.read_text())
    base = []
    for c in planned:
        if "plan_error" in c:
            chk.count("plan.refused:" + c["plan_error"])
            continue
        c["raw_in"] = True
        base.append(c)
    corpus = load_corpus()
    ident = iter(range(len(planned) + 1, 10 ** 9))
    cases = []
    for c in corpus:
        c = dict(c)
        c["id"] = next(ident)
        c["raw_in"] = True
        cases.append(c)
    cases += base
    by_assignment: dict[str, list[dict]] = {}
    for c in base:
        by_assignment.setdefault(c["assignment"], []).append(c)
    var_every = 3 if thorough else 4
    for i, c in enumerate(base):
        if i % var_every == 0:
            cases += make_variants(rng, c, by_assignment, lambda: next(ident))
    if thorough:  # the C back end too, on a part of the sweep
        for i, c in enumerate(base):
            if i % 10 == 0:
                d = dict(c)
                d["id"] = next(ident)
                d["backend"] = "cffi"
                cases.append(d)
    chk.count("cases.planned", len(cases))
    seen_p, probs = set(), []
    for c in base:
        key = c["assignment"] + "|" + json.dumps(c["formats"], sort_keys=True)
        if key not in seen_p:
            seen_p.add(key)
            probs.append({"assignment": c["assignment"], "formats": c["formats"]})
    okg, logg = chk.coq_make(["proofs/DesugarSemGraphProofs.vo"])
    graph_of = {}
    if okg:
        graph_of = stage_graphs(chk, probs, impl_is)
    else:
        chk.broken.append({"kind": "proof", "file": "proofs/DesugarSemGraphProofs.v", "coq_output_tail": logg[-1500:]})

    # ---------------------------------------------------------------- run + judge
    results, crashes = run_cases(chk, cases, workers, "sweep", per_case_timeout=60 if thorough else 30)
    chk.note(f"sweep executed after {time.time() - t0:.0f}s")
    judged = judge_all(chk, cases, results, crashes, impl_is, workers, "sweep", graph_of)
    missing = [c for c in cases if c["id"] not in results and not any(cr[0] is c for cr in crashes)]
    if missing:
        chk.broken.append({"kind": "harness", "stage": "eval", "what": f"{len(missing)} cases produced no result",
                           "first": missing[0]["assignment"]})
    check_invariances(chk, judged)
    # corpus expectations
    for j in judged:
        exp = j["case"].get("expect")
        if exp in (K_F2, K_F3) and j.get("known") != exp and j["ok"]:
            chk.note(f"FINDING-NO-LONGER-REPRODUCES {exp}: corpus/{PROP}/{j['case']['corpus']} "
                     f"'{j['case']['assignment']}' now computes the specification")
    # ---------------------------------------------------------------- spec inside Coq vs mirror
    stage_coq_spec(chk, judged, 480 if thorough else 240)
    for j in [x for x in judged if x["ok"]][:3]:
        chk.sample({"assignment": j["case"]["assignment"], "formats": j["case"]["formats"], "sizes": j["case"]["sizes"],
                    "inputs": j["case"]["inputs"], "raw_output": j["res"]["out"],
                    "spec": {str(k): str(v) for k, v in list(j["table"].items())[:8]}})
    chk.extra["implementation_desugar_is"] = impl_is
    chk.extra["level_note"] = ("proof (partial): A spec invariances, B desugaring, C lattice algebra are unbounded theorems; "
                               "kernel generation is covered by the differential sweep only (testing)")
    chk.note(f"done after {time.time() - t0:.0f}s")
    shutil.rmtree(WORK, ignore_errors=True)
    for f in (BUILD / "cases").glob(f"c01_p{os.getpid()}_*"):
        try:
            f.unlink()
        except OSError:
            pass

    # abstract kernel model G (coq/model/Kernel.v; theorems props/C01G.v: G computes spec, its output is
    # well-formed and phantom-free): exact raw-array correspondence with the real evaluate kernels
    from props._c01_kernel import run_kernel_correspondence
    run_kernel_correspondence(chk)

    # tie to the source by regeneration: the listed definitions are re-translated from /repo by py2coq on
    # every run and PROVED equal to the hand models (coq/props/TIE.v), plus a translator self-check
    from props._tie import run_tie
    run_tie(chk, ['exhaust', 'context', 'desugar', 'glue'])


def replay(chk, payload):
    inp = payload.get("input") or {}
    if "assignment" not in inp:
        print("replay file has no concrete input:", json.dumps(payload.get("broken", payload), indent=1)[:3000])
        return 1
    case = {"id": 0, "assignment": inp["assignment"], "formats": inp["formats"], "sizes": inp["sizes"],
            "inputs": inp["inputs"], "backend": inp.get("backend", "llvm"), "raw_in": True}
    results, crashes = eval_shard(0, [case], 60, "replay")
    if crashes:
        print("REPLAY: process crashed / hung:", crashes[0][1], crashes[0][2][-400:])
        return 1
    res = results[0]
    print("REPLAY", case["assignment"], case["formats"], "->", res["status"], json.dumps(res["out"])[:600])
    if res["status"] != "ok":
        return 0 if res["out"].startswith(TYPED_REFUSALS) or res["out"] == K_C08_1 else 1
    ok, detail, _ = compare(case, res)
    print("spec check:", "PASS" if ok else "FAIL", json.dumps(detail)[:1200])
    return 0 if ok else 1
