"""TIE entry for the regenerated storage-ownership effect programs (auto-discovered by props/_tie.py).

    run_tie(chk, ["ownership"])        # in C13

source  : compile/_cffi_ownership.py, compile/_tensor_method.py (__call__ tail), tensor.py -> coq/gen/OwnershipGen.v
api     : coq/model/OwnershipApi.v (hand-written interface: cffi / CPython boundary)
model   : coq/model/Ownership.v (C13)
proof   : coq/proofs/GenOwnership_equiv.v, statements coq/props/TIE_ownership.v, doc design.d/TIE_ownership.md
"""
TIE_EXTRA = {
    "ownership": {
        "gen": ["OwnershipGen.v"],
        "vo": "proofs/GenOwnership_equiv.vo",
        "theorems": ["gen_take_ownership_equiv", "gen_take_ownership_keyerror", "gen_unique_owner_holder", "gen_allocate_spec", "gen_call_equiv_full", "gen_call_runtime_error_full", "runtime_error_state_is_eval_del", "gen_eval_preserves_existing_full", "gen_fill_equiv"],
        "source": "compile/_cffi_ownership.py (allocate_taco_structure, taco_structure_to_cffi, take_ownership_of_*), "
                  "compile/_tensor_method.py (TensorMethod.__call__ from the allocation of the output), tensor.py "
                  "(Tensor.__init__, from_aos, __setstate__, __getstate__)",
        "model": "coq/model/Ownership.v (take_ownership, allocate_structure, fill_from_python, eval_call) through the "
                 "cffi / CPython interface coq/model/OwnershipApi.v",
    },
}
