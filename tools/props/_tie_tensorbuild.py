"""TIE entry "tensorbuild": tensor construction / read-back of tensor.py regenerated into
gen/TensorBuildGen.v and proved against model/TensorBuild.v (C09).  See design.d/TIE_tensorbuild.md."""

TIE_EXTRA = {
    "tensorbuild": {
        "gen": ["TensorBuildGen.v"],
        "vo": "proofs/GenTensorBuild_equiv.vo",
        "theorems": ["gen_coordinates_to_tree_ok", "gen_arrays_ok", "gen_validate_equiv", "gen_from_aos_equiv",
                     "gen_from_aos_general", "gen_from_dok_equiv", "gen_from_soa_equiv", "gen_from_lol_equiv",
                     "gen_items_equiv", "gen_to_dok_equiv", "gen_roundtrip_full",
                     "gen_taco_indices_equiv", "gen_taco_vals_equiv", "gen_getstate_equiv", "gen_setstate_equiv",
                     "gen_pickle_roundtrip_equiv", "gen_to_format_equiv", "gen_to_format_preserves"],
        "source": "tensor.py (coordinates_to_tree, tree_to_indices_and_values, Tensor.from_aos/from_dok/from_soa/from_lol, "
                  "lol_to_coordinates_and_values, Tensor.items, Tensor.to_dok, taco_indices, taco_vals, __getstate__, __setstate__, to_format), compile/_cffi_ownership.py (validation), "
                  "format/_format.py (Mode, Format)",
        "model": "coq/model/TensorBuild.v (build, from_aos/from_dok/from_soa/from_lol, validate, emit, to_dok), spec/Storage.v (entries)",
    },
}
