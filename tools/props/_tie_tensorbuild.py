"""TIE entry "tensorbuild": tensor construction / read-back of tensor.py regenerated into
gen/TensorBuildGen.v and proved against model/TensorBuild.v (C09).  See design.d/TIE_tensorbuild.md."""

TIE_EXTRA = {
    "tensorbuild": {
        "gen": ["TensorBuildGen.v"],
        "vo": "proofs/GenTensorBuild_equiv.vo",
        "theorems": ["gen_coordinates_to_tree_ok", "arrays_ok", "gen_from_aos_raw", "gen_from_aos_of_build",
                     "gen_from_aos_index_error", "gen_from_dok_is_from_aos", "gen_roundtrip"],
        "source": "tensor.py (coordinates_to_tree, tree_to_indices_and_values, Tensor.from_aos/from_dok/from_soa/from_lol, "
                  "lol_to_coordinates_and_values, Tensor.items, Tensor.to_dok), compile/_cffi_ownership.py (validation), "
                  "format/_format.py (Mode, Format)",
        "model": "coq/model/TensorBuild.v (build / raw_build / emit)",
    },
}
