"""C07 -- peephole optimisation never changes what a kernel computes.

1. regenerate gen/IRAst.v, gen/Peephole.v from /repo (py2coq) and rebuild the soundness proof
   (props/C07.v: expression, statement, function level, against the IR abstract machine);
2. translator self-check: the regenerated Gallina peephole equals Python's peephole_statement on
   generated trees;
3. searcher (always run): original vs REAL-Python-optimised tree executed on the machine over six
   boundary-value environments -- any difference other than the proved int32-overflow escape is a
   concrete violation; the escape itself is known finding K-C07-1;
4. real kernels: unoptimised and optimised evaluate kernels of swept problems on the machine must
   both reproduce the LLVM JIT result."""

from __future__ import annotations

import json
import os
import re

from vlib.core import BUILD, GUARD, VERIF, known_for


def parse_codes(out: str):
    m = re.search(r"=\s*(\[.*?\])\s*:\s*list \(list Z\)", out, flags=re.S)
    if not m:
        return None
    txt = m.group(1).replace("%Z", "")
    rows = re.findall(r"\[((?:\(?-?\d+\)?;\s*)*\(?-?\d+\)?)\]", txt)
    return [[int(x.strip(" ()")) for x in r.split(";")] for r in rows]


def parse_bools(out: str):
    m = re.search(r"=\s*(\[.*?\])\s*:\s*list bool", out, flags=re.S)
    if not m:
        return None
    return [x == "true" for x in re.findall(r"true|false", m.group(1))]


def parse_failing(out: str):
    m = re.search(r"=\s*(.*?)\s*:\s*list \(nat \* verdict\)", out, flags=re.S)
    if not m:
        return None
    body = m.group(1)
    if body.strip() in ("[]", "nil"):
        return []
    return [(int(i), v.strip()) for i, v in re.findall(r"\((\d+)(?:%nat)?,\s*([^;\]]*?)\)(?=;|\s*\])", body)]


def run(chk):
    quick = chk.tier == "quick"
    chk.rule = ("trees: curated rule triggers (every identity/annihilator on either side, int and float operands, "
                "short-circuit, constant branches/loops, self-assignment) + seeded random well-typed statement trees "
                "(depth<=3) over literals {0,1,2,-1,0.0,1.0,-0.0,0.5,1.5,2.5,0.1,0.7,3.0,true,false} plus curated nested non-dyadic literals and counting loops and typed variables; each run on 8 "
                "environments over {-2^31,-1,0,1,2,3,7,2^20,2^31-1} x {0.0,-0.0,0.5,1.0,-2.5,2.5,3,5,7,10,2^1023}; a case is non-trivial when "
                "peephole changes the tree and the original completes on at least one environment; kernels: swept "
                "problems, unoptimised vs optimised IR on the machine vs LLVM JIT")
    chk.trusted += [
        "Coq 8.16.1 kernel; vm_compute (no native_compute)",
        "translator tools/py2coq (ir/types.py, ir/ast.py, ir/_peephole.py -> gen/IRAst.v, gen/Peephole.v), guarded by the self-check",
        "IR abstract machine spec/IRSem.v is a hand-written specification of the IR's meaning (tied to gcc/LLVM by the C06 correspondence)",
        "IR dumper tools/harness/irdump.py (Python IR objects -> Coq terms), constructor table shared with the translator",
        "floats: Flocq binary64, machine values are the quotient by the sign of zero (fcanon); congruence lemmas fcanon_congr_* proved",
    ]
    # 1. model regenerated from source, proofs rebuilt
    ok_regen = chk.regen(["IRAst.v", "Peephole.v"])
    ok_props = chk.coq_props() if ok_regen else False
    if not ok_regen:
        chk.obligations.append({"theorem": "(props/C07.v not built: translation failed)", "discharged": False, "axioms": None})
    known = {f["id"] for f in known_for("C07")}
    okk, _ = chk.coq_make(["findings/K_C07_1.vo", "spec/IREnvs.vo", "spec/IRRun.vo"], timeout=900)
    if ok_props and not okk:
        chk.note("FINDING-NO-LONGER-REPRODUCES or helper build failed: findings/K_C07_1.v / spec/IREnvs.v did not build")

    # 2+3. generated trees
    d = BUILD / "cases" / f"c07_{chk.tier}"
    d.mkdir(parents=True, exist_ok=True)
    for f in d.glob("*"):
        f.unlink()
    n = 1700 if quick else 7000
    cfg = {"seed": chk.seed * 7919 + 1, "n": n, "outdir": str(d), "prefix": "g", "per_shard": 175 if quick else 250}
    rc, out, err = chk.impl("c07_gen.py", input=json.dumps(cfg), timeout=900)
    if rc != 0:
        chk.broken.append({"kind": "harness", "what": "c07_gen failed", "stderr": err[-2000:]})
        return
    summary = json.loads(out.strip().splitlines()[-1])
    chk.extra["tree_distribution"] = summary
    index = json.loads((d / "g_index.json").read_text())
    files = []
    for sh in index["shards"]:
        files.append(str(d / (sh["name"] + "_run.v")))
        if ok_regen:
            files.append(str(d / (sh["name"] + "_sc.v")))
    res = chk.coq_run_files(files, workers=6, timeout=1200)
    escapes = 0
    sc_bad = []
    for sh in index["shards"]:
        okr, outr = res[str(d / (sh["name"] + "_run.v"))]
        codes = parse_codes(outr) if okr else None
        if codes is None or len(codes) != sh["n"]:
            chk.broken.append({"kind": "correspondence", "what": "searcher shard did not evaluate", "shard": sh["name"], "output": outr[-1500:]})
            continue
        for i, row in enumerate(codes):
            changed = sh["trees"][i] != sh["optimised"][i]
            completes = any(c != 1 for c in row)
            for env, c in enumerate(row):
                chk.case(("tree", sh["trees"][i], env), nontrivial=changed and completes)
            chk.count("pairs_same", sum(1 for c in row if c == 0))
            chk.count("pairs_original_not_done", sum(1 for c in row if c == 1))
            if 2 in row:
                escapes += 1
                chk.count("pairs_overflow_escape", sum(1 for c in row if c == 2))
                if len(chk.extra.setdefault("overflow_escape_examples", [])) < 3:
                    chk.extra["overflow_escape_examples"].append({"tree": sh["trees"][i], "optimised": sh["optimised"][i], "envs": [e for e, c in enumerate(row) if c == 2]})
            if 3 in row:
                chk.violation(
                    "optimised tree behaves differently from the original on the IR machine",
                    {"tree": sh["trees"][i], "optimised_by_real_peephole": sh["optimised"][i],
                     "environments": [e for e, c in enumerate(row) if c == 3],
                     "environment_table": "coq/spec/IREnvs.v envs (index)", "shard_file": f"build/cases/c07_{chk.tier}/{sh['name']}_run.v", "case_index": i},
                )
            if i < 2 and changed:
                chk.sample({"tree": sh["trees"][i], "optimised": sh["optimised"][i], "codes_per_env(0=same,1=orig not done,2=overflow escape,3=differ)": row})
        if ok_regen:
            oks, outs = res[str(d / (sh["name"] + "_sc.v"))]
            bools = parse_bools(outs) if oks else None
            if bools is None or len(bools) != sh["n"]:
                chk.broken.append({"kind": "correspondence", "what": "translator self-check shard did not evaluate", "shard": sh["name"], "output": outs[-1500:]})
            else:
                for i, b in enumerate(bools):
                    if not b:
                        sc_bad.append({"tree": sh["trees"][i], "python_peephole": sh["optimised"][i]})
                chk.count("self_check_trees", len(bools))
    if sc_bad:
        chk.broken.append({"kind": "correspondence", "what": "regenerated Gallina peephole differs from Python peephole (translator self-check)", "examples": sc_bad[:5]})
    if escapes:
        if "K-C07-1" in known:
            chk.known_finding("K-C07-1", f"optimised tree stops with int32 overflow where the original completes (float identity on an int operand demotes a binary64 operation): {escapes} generated trees, e.g. (xi * 1.0) * yi with xi = yi = 2^20")
        else:
            ex = chk.extra.get("overflow_escape_examples", [{}])[0]
            chk.violation("optimised tree overflows int32 where the original completes", ex)

    # 4. real kernels, before vs after optimisation
    kd = BUILD / "cases" / f"c07k_{chk.tier}"
    kd.mkdir(parents=True, exist_ok=True)
    for f in kd.glob("*"):
        f.unlink()
    kcfg = {"seed": chk.seed + 11, "outdir": str(kd), "prefix": "k", "kinds": ["eval", "eval_unopt"],
            "fmt_cap": 3 if quick else 8, "n_inputs": 2 if quick else 3, "max_problems": 70 if quick else 500, "per_shard": 10}
    rc, out, err = chk.impl("mgen.py", input=json.dumps(kcfg), timeout=1500, env={GUARD: "2"})
    if rc != 0:
        chk.broken.append({"kind": "harness", "what": "mgen failed", "stderr": err[-2000:]})
        return
    ksum = json.loads(out.strip().splitlines()[-1])
    chk.extra["kernel_sweep"] = ksum
    kindex = json.loads((kd / "k_index.json").read_text())
    kres = chk.coq_run_files([str(kd / (s["name"] + ".v")) for s in kindex["shards"]], workers=6, timeout=1500)
    for sh in kindex["shards"]:
        okr, outr = kres[str(kd / (sh["name"] + ".v"))]
        fails = parse_failing(outr) if okr else None
        if fails is None:
            chk.broken.append({"kind": "correspondence", "what": "kernel shard did not evaluate", "shard": sh["name"], "output": outr[-1500:]})
            continue
        bad = dict(fails)
        for i, meta in enumerate(sh["cases"]):
            chk.case(("kernel", meta["assignment"], json.dumps(meta["formats"], sort_keys=True), json.dumps(meta["inputs"], sort_keys=True), meta["kind"]))
            chk.count("kernel_runs_" + meta["kind"])
        # pair up eval / eval_unopt of the same input: they are emitted consecutively
        for i in range(0, len(sh["cases"]) - 1):
            a, b = sh["cases"][i], sh["cases"][i + 1]
            if a["kind"] == "eval" and b["kind"] == "eval_unopt" and a["inputs"] == b["inputs"] and a["assignment"] == b["assignment"]:
                fa, fb = bad.get(i), bad.get(i + 1)
                if fa and not fb:
                    chk.violation("optimised kernel deviates on the IR machine while the unoptimised kernel reproduces the reference result",
                                  {"assignment": a["assignment"], "formats": a["formats"], "inputs": a["inputs"], "expected": a["expected"],
                                   "optimised_verdict": fa, "capacity": 2})
                elif fa or fb:
                    chk.note(f"kernel case deviates before optimisation as well (C06's business): {a['assignment']} {a['formats']} opt={fa} unopt={fb}")
    if kindex.get("impl_errors"):
        chk.note(f"{len(kindex['impl_errors'])} swept kernels raised an unexpected exception (see C08/C05)")


def replay(chk, payload):
    print(json.dumps(payload, indent=1)[:4000])
    print("re-run: ./check C07 (the generator is seeded; the payload names tree and environment)")
    return 0
