"""TIE entry for the regenerated C printer (auto-discovered by props/_tie.py).

    run_tie(chk, ["cprint"])        # in C06

source  : /repo/src/tensora/codegen/_ir_to_c.py, _type_to_c.py  -> coq/gen/IrToC.v (strings)
model   : coq/model/CPrint.v (tokens), tied through the C lexer coq/model/CLexer.v
proof   : coq/proofs/GenCPrint_equiv.v, GenCStruct_equiv.v, GenCStruct_fun.v (all names: GenCPrint_all.v), statements coq/props/TIE_cprint.v, doc design.d/TIE_cprint.md
"""
TIE_EXTRA = {
    "cprint": {
        "gen": ["IRAst.v", "IrToC.v"],
        "vo": "proofs/GenCPrint_all.vo",
        "theorems": ["tie_cprint_lex", "tie_cprint_equiv", "gen_type_equiv", "tie_cprint_stmt_equiv",
                     "tie_cprint_derives", "tie_cprint_derives_prec", "tie_cprint_derives_exact",
                     "tie_cprint_parses", "tie_cprint_stmt_derives",
                     "sparse_flats", "sparse_cprint_stmts", "gen_struct_equiv", "gen_struct_none",
                     "gen_function_equiv", "gen_module_equiv",
                     "sem_block_comment", "sem_block_singleton", "sem_block_splice", "sem_else_block"],
        "source": "codegen/_ir_to_c.py (all of it: expressions, statements incl. block / branch / loop layout, function definitions, module), "
                  "codegen/_type_to_c.py",
        "model": "coq/model/CPrint.v (cprint, cprint_stmt; spec/CGrammar.v type_tokens) and coq/model/CStruct.v (skel, cprint_stmts, cprint_function, cprint_module; structure parser sparse) through the C lexer coq/model/CLexer.v",
    },
}
