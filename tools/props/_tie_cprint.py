"""TIE entry for the regenerated C printer (auto-discovered by props/_tie.py).

    run_tie(chk, ["cprint"])        # in C06

source  : /repo/src/tensora/codegen/_ir_to_c.py, _type_to_c.py  -> coq/gen/IrToC.v (strings)
model   : coq/model/CPrint.v (tokens), tied through the C lexer coq/model/CLexer.v
proof   : coq/proofs/GenCPrint_equiv.v, statements coq/props/TIE_cprint.v, doc design.d/TIE_cprint.md
"""
TIE_EXTRA = {
    "cprint": {
        "gen": ["IRAst.v", "IrToC.v"],
        "vo": "proofs/GenCPrint_equiv.vo",
        "theorems": ["tie_cprint_lex", "tie_cprint_equiv", "gen_type_equiv", "tie_cprint_stmt_equiv",
                     "tie_cprint_derives", "tie_cprint_derives_prec", "tie_cprint_derives_exact",
                     "tie_cprint_parses", "tie_cprint_stmt_derives"],
        "source": "codegen/_ir_to_c.py (parens, ir_to_c_expression, ir_to_c_declaration, one-line ir_to_c_statement), "
                  "codegen/_type_to_c.py",
        "model": "coq/model/CPrint.v (cprint, cprint_stmt; spec/CGrammar.v type_tokens) through the C lexer coq/model/CLexer.v",
    },
}
