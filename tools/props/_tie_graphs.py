"""TIE entry for the regenerated iteration-graph enumeration (auto-discovered by props/_tie.py)."""
TIE_EXTRA = {
    "graphs": {
        "gen": ["ExhaustAst.v", "Exhaust.v", "Deparse.v", "Desugar.v", "IterGraphs.v"],
        "vo": "proofs/GenGraphs_total.vo",
        "theorems": [
            "gen_legal_iteration_orders_equiv", "gen_merge_add_equiv", "gen_merge_multiply_equiv",
            "gen_contains_contraction_equiv", "gen_pending_compressed_equiv", "gen_target_order_supported_equiv",
            "gen_simplify_add_equiv", "gen_merge_assignment_equiv", "gen_tensor_graphs_equiv", "gen_expr_graphs_equiv",
            "gen_to_iteration_graphs_equiv", "gen_internal_iff_first_graph_bad", "gen_generate_outcomes_typed_partial",
            "src_graphs_not_bad", "gen_generate_total", "gen_tensor_method_total",
        ],
        "source": "desugar/_to_iteration_graphs.py (+ classes of iteration_graph/iteration_graph.py, Format, TensorLayer.mode)",
        "model": "coq/model/Graphs.v (legal_iteration_orders, merge_with, simplify_add, merge_assignment, pending_compressed, "
                 "tensor_graphs, expr_graphs) and to_iteration_graphs_src (= Graphs.v's to_iteration_graphs with the "
                 "target_supported filter of commit 601f2d3, proofs/GenGraphs_equiv.v)",
    },
}
