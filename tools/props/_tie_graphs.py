"""TIE entry for the regenerated iteration-graph enumeration (auto-discovered by props/_tie.py)."""
TIE_EXTRA = {
    "graphs": {
        "gen": ["ExhaustAst.v", "Exhaust.v", "Deparse.v", "Desugar.v", "IterGraphs.v"],
        "vo": "proofs/GenGraphs_equiv.vo",
        "theorems": [
            "gen_legal_iteration_orders_equiv", "gen_merge_add_equiv", "gen_merge_multiply_equiv",
            "gen_contains_contraction_equiv", "gen_pending_compressed_equiv", "gen_target_order_supported_equiv",
            "gen_merge_assignment_equiv_partial", "gen_tensor_graphs_equiv", "gen_expr_graphs_equiv_partial",
        ],
        "source": "desugar/_to_iteration_graphs.py (+ classes of iteration_graph/iteration_graph.py, Format, TensorLayer.mode)",
        "model": "coq/model/Graphs.v (legal_iteration_orders, merge_with, merge_assignment, pending_compressed, tensor_graphs, expr_graphs); "
                 "simplify_add and the top-level to_iteration_graphs loop are tied by the self-check only",
    },
}
