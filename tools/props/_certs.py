"""Per-kernel certificates (coq/props/CERT.v) evaluated on the REAL IR of swept kernels.

Used by the checks C04, C05 and C16:

    from props._certs import cert_props, run_certs
    cert_props(chk)                                  # builds props/CERT.v, records its theorems
    run_certs(chk, ["input_safe"], priority=GROWTH)  # C05
    run_certs(chk, ["compute_store"], priority=SHAPES)   # C04
    run_certs(chk, ["dim_unread"])                   # C16

`run_certs` generates the evaluate / assemble / compute kernels of ~100 (quick) problems with the
library under test (tools/harness/certgen.py), writes them as Coq terms into shard files and lets
coqc decide each certificate by vm_compute:

  input_safe     input_safe_cert f = true      (all three kernels)   CERT_input_safe_sound
  compute_store  compute_store_cert f = true   (compute kernels)     CERT_compute_store_sound
  dim_unread     dim_unread_cert f DS = true   (all three kernels, every index meeting C16's
                                                condition; DS = the dimension entries carrying it)
                                                                     CERT_dim_irrelevant(_runs)

On the unchanged tree every certificate is `true`.  A `false` (or a shard that does not evaluate) is
recorded in chk.broken as a broken obligation for that kernel -- not by itself a violation: the
property's dynamic searcher (the machine sweep of the calling check) then looks for a concrete
failing input; if it finds none the driver reports `no-failing-input-found` with the kernel named.
"""

from __future__ import annotations

import json
import re

from vlib.core import BUILD

CERTS = ("input_safe", "compute_store", "dim_unread")

THEOREM = {
    "input_safe": "CERT_input_safe_sound: the kernel can never attempt a write into an input (no Fail EWriteInput on any arguments)",
    "compute_store": "CERT_compute_store_sound: every block other than out->vals is cell-for-cell unchanged by compute",
    "dim_unread": "CERT_dim_irrelevant_runs: loop iterations, heap and result do not depend on the listed dimension entries",
}


def cert_props(chk) -> bool:
    """Build coq/props/CERT.v (+ dependencies), record its theorems and their assumptions."""
    return chk.coq_props("props/CERT.v")


def parse_false(out: str):
    m = re.search(r"=\s*(.*?)\s*:\s*list nat", out, flags=re.S)
    if not m:
        return None
    body = m.group(1).strip()
    if body in ("[]", "nil"):
        return []
    return [int(x) for x in re.findall(r"\d+", body.replace("%nat", ""))]


def run_certs(chk, certs=CERTS, priority=None, max_problems: int | None = None, tag: str = "certs",
              workers: int = 6, templates=None) -> dict:
    """Evaluate the certificates `certs` on the real kernels of a sweep.  Returns a summary
    {"problems", "kernels", "cases": {cert: n}, "accepted": {cert: n}, "rejected": [case meta...]}
    (also stored in chk.extra["certificates"][tag])."""
    certs = [c for c in certs if c in CERTS]
    quick = chk.tier == "quick"
    if max_problems is None:
        max_problems = 100 if quick else 400
    d = BUILD / "cases" / f"{chk.prop.lower()}_{chk.tier}_{tag}"
    d.mkdir(parents=True, exist_ok=True)
    for f in d.glob("*"):
        f.unlink()
    cfg = {"seed": chk.seed * 29 + 11, "outdir": str(d), "prefix": "k", "certs": certs,
           "max_problems": max_problems, "fmt_cap": 3 if quick else 8, "per_shard": 20,
           "priority": priority or [], "c16_per_template": 2 if quick else 12}
    if templates:
        cfg["templates"] = templates
    ok, _ = chk.coq_make(["proofs/Certs2Input.vo", "proofs/Certs2Sim.vo", "proofs/Certs2Store.vo"])
    if not ok:
        chk.broken.append({"kind": "proof", "what": "the certificate development coq/proofs/Certs2*.v does not build"})
        return {}
    rc, out, err = chk.impl("certgen.py", input=json.dumps(cfg), timeout=1800)
    if rc != 0:
        chk.broken.append({"kind": "harness", "what": f"certgen.py failed rc={rc}", "stderr": err[-2000:]})
        return {}
    gen = json.loads(out.strip().splitlines()[-1])
    index = json.loads((d / "k_index.json").read_text())
    res = chk.coq_run_files([str(d / (s["name"] + ".v")) for s in index["shards"]], workers=workers, timeout=1800)
    summary = {"problems": gen["problems"], "kernels": gen["kernels"], "skipped": gen["skipped"],
               "cases": {c: 0 for c in certs}, "accepted": {c: 0 for c in certs}, "rejected": []}
    ge = index.get("generator_errors", [])
    if ge:
        chk.count("generator_unexpected_exception", len(ge))
        chk.broken.append({"kind": "certificate", "what": "kernel generation raised an unexpected exception: no IR to certify",
                           "count": len(ge), "examples": ge[:5]})
    for sh in index["shards"]:
        okr, outr = res[str(d / (sh["name"] + ".v"))]
        bad = parse_false(outr) if okr else None
        if bad is None:
            chk.broken.append({"kind": "certificate", "what": "certificate shard did not evaluate (IR outside the generated inductives?)",
                               "shard": f"{d.name}/{sh['name']}.v", "output": outr[-1500:]})
            continue
        bad = set(bad)
        for i, meta in enumerate(sh["cases"]):
            c = meta["cert"]
            summary["cases"][c] += 1
            chk.case(("cert", c, meta["assignment"], json.dumps(meta["formats"], sort_keys=True), meta["kernel"],
                      meta.get("index")))
            chk.count("cert_" + c)
            if i in bad:
                m = dict(meta, shard=f"{d.name}/{sh['name']}.v", case_index=i)
                summary["rejected"].append(m)
                chk.broken.append({"kind": "certificate", "certificate": c, "theorem_lost": THEOREM[c],
                                   "what": f"{c} certificate is false on the real {meta['kernel']} kernel",
                                   "assignment": meta["assignment"], "formats": meta["formats"], "kernel": meta["kernel"],
                                   "index": meta.get("index"), "positions": meta.get("positions"),
                                   "shard": m["shard"], "case_index": i})
            else:
                summary["accepted"][c] += 1
    chk.extra.setdefault("certificates", {})[tag] = {k: v for k, v in summary.items() if k != "rejected"} | {
        "rejected": summary["rejected"][:20]}
    return summary
