"""TIE entry for the regenerated concurrency call path (auto-discovered by props/_tie.py).

    run_tie(chk, ["concurrency"])        # in C14

source  : compile/_porcelain.py, _tensor_method.py, _compile_cffi.py, _compile_llvm.py -> coq/gen/ConcurrencyGen.v
api     : coq/model/ConcurrencyApi.v (hand-written: Python syntax + abstract interpreter of shared-state effects)
model   : coq/model/Concurrency.v (C14)
proof   : coq/proofs/GenConcurrency_equiv.v, statements coq/props/TIE_concurrency.v, doc design.d/TIE_concurrency.md
"""
TIE_EXTRA = {
    "concurrency": {
        "gen": ["ConcurrencyGen.v"],
        "vo": "proofs/GenConcurrency_equiv.vo",
        "theorems": ["gen_call_steps", "model_steps_is_model", "gen_no_offending_effect", "gen_no_stuck",
                     "gen_lock_discipline", "gen_call_no_shared_write", "gen_call_writes_nothing_shared",
                     "gen_cache_is_lru_cache", "gen_module_objects", "gen_interleaving_equals_sequential",
                     "gen_entry_points_run"],
        "source": "compile/_porcelain.py (cachable_tensor_method, evaluate_*, tensor_method), compile/_tensor_method.py "
                  "(TensorMethod.__init__, __call__), compile/_compile_cffi.py (compile_evaluate, lock), "
                  "compile/_compile_llvm.py (compile_module)",
        "model": "coq/model/Concurrency.v (thread_step: the atomic steps of one call) through the effect interpreter "
                 "coq/model/ConcurrencyApi.v",
    },
}
