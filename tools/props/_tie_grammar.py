"""TIE entry for the two parsita grammars regenerated as terms of the combinator embedding
coq/model/Parsita.v (auto-discovered by props/_tie.py).  Suggested call: run_tie(chk, ["grammar"]) in C12
(beside "deparse")."""
TIE_EXTRA = {
    "grammar": {
        "gen": ["ExhaustAst.v", "Deparse.v", "GrammarGen.v"],
        "vo": "proofs/GenGrammar_equiv.vo",
        "theorems": ["gen_grammar_format_equiv", "gen_grammar_named_format_equiv", "gen_grammar_format_roundtrip",
                     "gen_grammar_named_format_roundtrip", "gen_grammar_format_total", "gen_grammar_float_regex",
                     "gen_grammar_assignment_equiv", "gen_grammar_assignment_equiv_model",
                     "gen_grammar_parse_sound_complete", "gen_grammar_parse_deparse", "gen_grammar_assignment_total",
                     "gen_grammar_roundtrip_int"],
        "source": "expression/_parser.py (TensorExpressionParsers, make_expression, parse_assignment), "
                  "format/_parser.py (FormatParsers, make_format_with_orderings, parse_format, parse_named_format) "
                  "+ the dataclass fields of expression/ast.py, Format.__post_init__, the exception classes; "
                  "parsita itself is the trusted interpreter coq/model/Parsita.v",
        "model": "coq/model/Parser.v (lex, parse_tokens; validate as the Assignment.__post_init__ hook), "
                 "coq/model/FormatParser.v (parse_format, parse_named_format)",
    },
}
