"""TIE entry for the regenerated construction / identity of problems (auto-discovered by props/_tie.py).
Suggested calls: run_tie(chk, ["problem"]) in C10 (make_problem, the constructor checks, the entry points) and in
C15 (Problem.__eq__ / __hash__, the cache key)."""
TIE_EXTRA = {
    "problem": {
        "gen": ["Deparse.v", "TensorMethod.v", "ProblemGen.v"],
        "vo": "proofs/GenProblem_equiv.vo",
        "theorems": ["gen_variables_lift", "gen_assignment_post_init_equiv", "gen_problem_ctor_checks",
                     "gen_make_problem_equiv", "gen_make_problem_effective_formats", "gen_make_problem_failure",
                     "gen_problem_eq_equiv", "gen_problem_eq_spec", "gen_problem_hash_compatible",
                     "gen_evaluate_problem_equiv", "gen_tensor_method_problem_equiv"],
        "source": "problem.py (Problem.__post_init__, __eq__, __hash__, make_problem), expression/ast.py "
                  "(Assignment.__post_init__, variable_orders, Tensor.order), format/_format.py (Format.__post_init__), "
                  "tensor.py (Tensor.format), compile/_porcelain.py (the statements around make_problem)",
        "model": "coq/model/Problem.v (problem_ctor, make_problem, problem_eqb, hash_key), coq/model/ExprAst.v "
                 "(assignment_check, variable_orders), coq/model/Validate.v (formats_of_inputs, dict_union)",
    },
}
