"""C02 -- every returned tensor is a canonical, self-consistent stored tensor.

Deciding oracle: the Coq checker Storage.wf_tensorb (proved equivalent to the Prop statement of the
property, coq/props/C02.v), evaluated by vm_compute on every RAW output of the sweep -- real LLVM
kernels at initial capacities 1, 2, 3 and default, plus the exact final heap blocks of the same IR
run on the instrumented IR machine.  Everything else here (Python mirror, re-use inside the library,
allocation sizes, protocol traces against coq/model/Append.v, taco_structure_to_cffi against
coq/model/StructureValidate.v) is correspondence / testing and is labelled so in the evidence.
"""

from __future__ import annotations

import hashlib
import json
import os
import random
import re
from concurrent.futures import ThreadPoolExecutor
from pathlib import Path

from vlib.core import GUARD, VERIF, Check

CAPACITIES = ["1", "2", "3", ""]
DEFAULT_CAPACITY = 1024 * 1024


# --------------------------------------------------------------------------------------------
# Python mirror of Storage.wf_tensorb (pre-filter / cross-check only)
# --------------------------------------------------------------------------------------------


def py_wf(r: dict, strict: bool = False) -> bool:
    dims, ordering, modes, indices = r["dims"], r["ordering"], r["modes"], r["indices"]
    n = len(ordering)
    if len(dims) != n or len(modes) != n or len(indices) != n:
        return False
    if sorted(ordering) != list(range(n)) or any(d < 0 for d in dims):
        return False
    ldims = [dims[o] for o in ordering]
    cnt = 1
    for m, ix, d in zip(modes, indices, ldims):
        if m == "d":
            if d < 0:
                return False
            cnt *= d
        else:
            pos, crd = ix
            if len(pos) != cnt + 1 or pos[0] != 0:
                return False
            if any(a > b for a, b in zip(pos, pos[1:])):
                return False
            if pos[cnt] != len(crd):
                return False
            for p in range(cnt):
                seg = crd[pos[p] : pos[p + 1]]
                if any(a >= b for a, b in zip(seg, seg[1:])):
                    return False
            if any(not (0 <= c < d) for c in crd):
                return False
            cnt = len(crd)
    nv = len(r["vals"])
    return nv == cnt if strict else cnt <= nv


# --------------------------------------------------------------------------------------------
# Coq terms
# --------------------------------------------------------------------------------------------


def z(v) -> str:
    v = int(v)
    return f"({v})" if v < 0 else str(v)


def zl(xs) -> str:
    return "[" + "; ".join(z(x) for x in xs) + "]"


def tensor_term(r: dict) -> str:
    """Storage.tensor Z term; the VALUES are replaced by zeros (well-formedness only looks at how
    many there are)."""
    lv = []
    for m, ix in zip(r["modes"], r["indices"]):
        lv.append("LDense" if m == "d" else f"(LCompressed {zl(ix[0])} {zl(ix[1])})")
    ords = "[" + "; ".join(f"{int(o)}%nat" for o in r["ordering"]) + "]"
    return f"(mkTensor {zl(r['dims'])} {ords} [{'; '.join(lv)}] (repeat 0 {len(r['vals'])}%nat))"


def parse_zlist(out: str):
    m = re.search(r"=\s*\[(.*?)\]\s*:", out, flags=re.S)
    if not m:
        return None
    body = m.group(1).strip()
    if not body:
        return []
    return [int(x.strip().strip("()")) for x in body.replace("\n", " ").split(";")]


def wf_file(items) -> str:
    rows = ";\n ".join(f"({i}, {t})" for i, t in items)
    return (
        "From Coq Require Import ZArith List Bool. Import ListNotations.\n"
        "From TV Require Import spec.Storage.\nOpen Scope Z_scope.\n"
        f"Definition ts : list (Z * tensor Z) := [\n {rows}].\n"
        "Eval vm_compute in (map fst (filter (fun p => negb (wf_tensorb false (snd p))) ts)).\n"
    )


def kind_term(kind) -> str:
    if kind[0] == "fixed":
        return "PFixed"
    if kind[0] == "double":
        return "PDouble"
    return f"(PMax {z(kind[1])})"


def visits_term(visits) -> str:
    return "[" + "; ".join(
        "mkVisit [" + "; ".join(zl(s) for s in segs) + "] " + ("true" if adv else "false") for segs, adv in visits
    ) + "]"


def trace_file(items) -> str:
    """items: (i, kind, c0 or None, d, visits, pos, crd)"""
    rows = []
    for i, kind, c0, d, visits, pos, crd in items:
        run = "true" if c0 is None else "false"
        rows.append(
            f"({i}, (({kind_term(kind)}, {z(c0 if c0 is not None else 1)}, {z(d)}, {run}), {visits_term(visits)}, {zl(pos)}, {zl(crd)}))"
        )
    body = ";\n ".join(rows)
    return (
        "From Coq Require Import ZArith List Bool. Import ListNotations.\n"
        "From TV Require Import spec.Storage model.Append.\nOpen Scope Z_scope.\n"
        "Fixpoint zl_eqb (a b : list Z) : bool := match a, b with [] , [] => true | x :: a', y :: b' => (x =? y) && zl_eqb a' b' | _, _ => false end.\n"
        "Definition okb (c : (parent_kind * Z * Z * bool) * list visit * list Z * list Z) : bool :=\n"
        "  let '((k, c0, d, enc_only), vs, pos, crd) := c in\n"
        "  trace_okb k d vs && zl_eqb (pos_of_segs (stored_segs k vs)) pos && zl_eqb (concat (stored_segs k vs)) crd &&\n"
        "  (enc_only || match run_level k c0 vs with Some (p, c) => zl_eqb p pos && zl_eqb c crd | None => false end).\n"
        f"Definition cs : list (Z * ((parent_kind * Z * Z * bool) * list visit * list Z * list Z)) := [\n {body}].\n"
        "Eval vm_compute in (map fst (filter (fun p => negb (okb (snd p))) cs)).\n"
    )


def raw_term(s) -> str:
    idx = "[" + "; ".join("[" + "; ".join(zl(a) for a in lvl) + "]" for lvl in s["indices"]) + "]"
    return f"(mkRaw {zl(s['mode_types'])} {zl(s['dimensions'])} {zl(s['mode_ordering'])} {idx} {z(s['nvals'])})"


def validate_file(structs) -> str:
    rows = ";\n ".join(raw_term(s) for s in structs)
    return (
        "From Coq Require Import ZArith List Bool. Import ListNotations.\n"
        "From TV Require Import spec.Storage model.StructureValidate.\nOpen Scope Z_scope.\n"
        f"Definition rs : list raw := [\n {rows}].\n"
        "Eval vm_compute in (map validate rs).\n"
    )


def parse_verr(out: str):
    m = re.search(r"=\s*\[(.*?)\]\s*:", out, flags=re.S)
    if not m:
        return None
    body = m.group(1).strip()
    if not body:
        return []
    return [" ".join(x.replace("(", " ").replace(")", " ").split()) for x in body.replace("\n", " ").split(";")]


# --------------------------------------------------------------------------------------------
# running things
# --------------------------------------------------------------------------------------------


def run_coq_shards(chk: Check, tag: str, items, make_file, per_file=400, workers=6):
    """items: list whose first component is the index.  Returns (set of failing indexes, list of
    shard errors)."""
    shards = [items[i : i + per_file] for i in range(0, len(items), per_file)]
    failing, errors = set(), []

    def one(j):
        ok, out = chk.coq_eval(f"c02_{tag}_{os.getpid()}_{j}", make_file(shards[j]), timeout=900)
        return j, ok, out

    with ThreadPoolExecutor(max_workers=workers) as ex:
        for j, ok, out in ex.map(one, range(len(shards))):
            lst = parse_zlist(out) if ok else None
            if lst is None:
                errors.append({"shard": f"c02_{tag}_{j}", "output": out[-1500:]})
            else:
                failing.update(lst)
    return failing, errors


def launch_workers(chk: Check, reqs):
    """reqs: list of (capacity, request dict).  Runs them in parallel; returns list of
    (capacity, request, records, crashed_case or None, stderr tail)."""

    def one(item):
        cap, req = item
        env = {GUARD: cap}
        all_recs, crashes, err, rc = [], [], "", 0
        cur = dict(req)
        for attempt in range(6):
            rc, out, err = chk.impl("c02_worker.py", [], input=json.dumps(cur), timeout=cur.get("timeout", 1500), env=env)
            begun, done = None, False
            for line in out.splitlines():
                try:
                    o = json.loads(line)
                except Exception:
                    continue
                if "begin" in o:
                    begun = o
                elif o.get("done"):
                    done = True
                else:
                    all_recs.append(o)
                    begun = None
            if done:
                break
            crashes.append((begun or {"begin": "?"}, rc, (err or "")[-300:]))
            if cur.get("mode") == "sweep" and begun and isinstance(begun.get("begin"), str) and "." in begun["begin"]:
                cur = dict(cur, resume=begun["begin"])  # carry on after the case that killed the worker
            elif cur.get("mode") in ("operators", "mismatch") and begun and isinstance(begun.get("begin"), int):
                cur = dict(cur, resume_index=begun["begin"])
            else:
                break
        return cap, req, all_recs, crashes, (err or "")[-800:], rc

    with ThreadPoolExecutor(max_workers=8) as ex:
        return list(ex.map(one, reqs))


# --------------------------------------------------------------------------------------------
# validate stream
# --------------------------------------------------------------------------------------------


def encode_structure(rng: random.Random):
    order = rng.choice([0, 1, 1, 2, 2, 2, 3])
    dims = [rng.choice([0, 1, 2, 3]) for _ in range(order)]
    ordering = list(range(order))
    rng.shuffle(ordering)
    modes = [rng.choice([0, 1]) for _ in range(order)]
    ldims = [dims[o] for o in ordering]
    # random set of level-order coordinates
    import itertools

    cells = list(itertools.product(*[range(d) for d in ldims]))
    chosen = sorted(rng.sample(cells, rng.randint(0, len(cells)))) if cells else []
    nodes = [chosen]  # list of coordinate lists per position
    indices = []
    for l in range(order):
        nxt = []
        if modes[l] == 0:
            indices.append([])
            for nd in nodes:
                for i in range(ldims[l]):
                    nxt.append([c for c in nd if c[l] == i])
        else:
            pos, crd = [0], []
            for nd in nodes:
                keys = sorted({c[l] for c in nd})
                for k in keys:
                    crd.append(k)
                    nxt.append([c for c in nd if c[l] == k])
                pos.append(len(crd))
            indices.append([pos, crd])
        nodes = nxt
    return {"indices": indices, "nvals": len(nodes), "mode_types": modes, "dimensions": dims, "mode_ordering": ordering}


def mutate_structure(rng: random.Random, s):
    s = json.loads(json.dumps(s))
    order = len(s["mode_types"])
    comp = [l for l in range(len(s["indices"])) if len(s["indices"][l]) == 2]
    choices = ["nvals", "extra_level", "len_mismatch"]
    if order:
        choices += ["mode_type", "neg_dim", "ordering_dup", "ordering_range", "drop_level", "dense_nonempty", "dim_shrink"]
    if comp:
        choices += ["pos_bump", "pos_first", "pos_drop", "pos_extra", "pos_swap", "crd_swap", "crd_dup", "crd_range", "crd_neg",
                    "crd_drop", "crd_extra", "one_array", "three_arrays"] * 2
    m = rng.choice(choices)
    l = rng.choice(comp) if comp else 0
    if m == "nvals":
        s["nvals"] = max(0, s["nvals"] + rng.choice([-1, 1, 2]))
    elif m == "extra_level":
        s["indices"].append([])
    elif m == "len_mismatch":
        which = rng.choice(["mode_types", "dimensions", "mode_ordering"])
        s[which] = s[which] + [rng.choice([0, 1])]
    elif m == "mode_type":
        s["mode_types"][rng.randrange(order)] = rng.choice([2, -1, 3])
    elif m == "neg_dim":
        s["dimensions"][rng.randrange(order)] = -rng.choice([1, 2])
    elif m == "ordering_dup":
        s["mode_ordering"][rng.randrange(order)] = s["mode_ordering"][rng.randrange(order)]
    elif m == "ordering_range":
        s["mode_ordering"][rng.randrange(order)] = rng.choice([order, -1, order + 1])
    elif m == "drop_level":
        s["indices"].pop(rng.randrange(len(s["indices"])))
    elif m == "dense_nonempty":
        k = rng.randrange(len(s["indices"]))
        if len(s["indices"][k]) == 0:
            s["indices"][k] = [[0]]
        else:
            s["indices"][k] = []
    elif m == "dim_shrink":
        k = rng.randrange(order)
        s["dimensions"][k] = max(0, s["dimensions"][k] - 1)
    elif m == "pos_bump":
        pos = s["indices"][l][0]
        k = rng.randrange(len(pos))
        pos[k] += rng.choice([-1, 1])
    elif m == "pos_first":
        s["indices"][l][0][0] = rng.choice([1, -1])
    elif m == "pos_drop":
        s["indices"][l][0].pop()
    elif m == "pos_extra":
        pos = s["indices"][l][0]
        pos.append(pos[-1] if pos else 0)
    elif m == "pos_swap":
        pos = s["indices"][l][0]
        if len(pos) >= 3:
            pos[1], pos[-1] = pos[-1], pos[1]
    elif m == "crd_swap":
        crd = s["indices"][l][1]
        if len(crd) >= 2:
            crd[0], crd[-1] = crd[-1], crd[0]
    elif m == "crd_dup":
        crd = s["indices"][l][1]
        if len(crd) >= 2:
            crd[1] = crd[0]
    elif m == "crd_range":
        crd = s["indices"][l][1]
        if crd:
            crd[rng.randrange(len(crd))] = 3 + rng.choice([0, 1, 5])
    elif m == "crd_neg":
        crd = s["indices"][l][1]
        if crd:
            crd[rng.randrange(len(crd))] = -1
    elif m == "crd_drop":
        crd = s["indices"][l][1]
        if crd:
            crd.pop()
    elif m == "crd_extra":
        s["indices"][l][1].append(0)
    elif m == "one_array":
        s["indices"][l] = [s["indices"][l][0]]
    elif m == "three_arrays":
        s["indices"][l] = s["indices"][l] + [[0]]
    return s, m


def validate_stream(chk: Check, n: int):
    rng = random.Random(f"C02-validate:{chk.seed}")
    structs, labels = [], []
    for _ in range(n):
        s = encode_structure(rng)
        r = rng.random()
        lab = "well-formed"
        if r < 0.7:
            s, lab = mutate_structure(rng, s)
            if rng.random() < 0.25:
                try:
                    s, lab2 = mutate_structure(rng, s)
                    lab += "+" + lab2
                except (IndexError, ValueError):
                    pass
        structs.append(s)
        labels.append(lab)
    res = launch_workers(chk, [("", {"mode": "validate", "structures": structs, "timeout": 600})])[0]
    _, _, recs, crashed, err, rc = res
    if crashed or len(recs) != len(structs):
        chk.broken.append({"kind": "harness", "what": "validate worker failed", "stderr": err})
        return
    py = [r["result"] for r in recs]
    ok, out = chk.coq_eval(f"c02_validate_{os.getpid()}", validate_file(structs), timeout=600)
    cq = parse_verr(out) if ok else None
    if cq is None or len(cq) != len(py):
        chk.broken.append({"kind": "harness", "what": "validate Coq evaluation failed", "output": out[-1500:]})
        return
    kinds = {}
    for s, lab, a, b in zip(structs, labels, py, cq):
        chk.case(("validate", json.dumps(s, sort_keys=True)), nontrivial=True)
        kinds[b.split()[0]] = kinds.get(b.split()[0], 0) + 1
        if a != b:
            chk.broken.append({"kind": "correspondence", "what": "taco_structure_to_cffi vs model/StructureValidate.v",
                               "structure": s, "mutation": lab, "implementation": a, "model": b})
    for k, v in sorted(kinds.items()):
        chk.count(f"validate:{k}", v)
    chk.sample({"stream": "validate", "structure": structs[0], "mutation": labels[0], "implementation": py[0], "model": cq[0]})


# --------------------------------------------------------------------------------------------
# judging records
# --------------------------------------------------------------------------------------------


def case_payload(rec, cap):
    return {
        "assignment": rec.get("assignment"),
        "formats": rec.get("formats"),
        "inputs": rec.get("inputs"),
        "sizes": rec.get("sizes"),
        "capacity": cap,
    }


def clean_raw(r):
    return {k: r[k] for k in ("dims", "ordering", "modes", "indices", "vals")}


def machine_raw(final):
    """The machine's final blocks as a raw structure, or the reason why it cannot be one."""
    idx = []
    for lv in final["indices"]:
        if lv == []:
            idx.append([])
            continue
        if lv[0] is None or lv[1] is None:
            return None, "an index array of the output was never assigned or was freed"
        if any(c is None for c in lv[0]) or any(c is None for c in lv[1]):
            return None, "uninitialised cell inside a returned pos/crd block"
        idx.append([lv[0], lv[1]])
    if final["vals"] is None:
        return None, "vals was never assigned or was freed"
    return {"dims": final["dims"], "ordering": final["ordering"], "modes": final["modes"], "indices": idx, "vals": final["vals"]}, None


def leaf_count(r):
    ldims = [r["dims"][o] for o in r["ordering"]]
    cnt = 1
    for m, ix, d in zip(r["modes"], r["indices"], ldims):
        cnt = cnt * d if m == "d" else len(ix[1])
    return cnt


class Judge:
    def __init__(self, chk: Check):
        self.chk = chk
        self.tensors = {}   # key -> (index, raw)
        self.users = {}     # index -> list of (what, payload)
        self.traces = {}
        self.trace_users = {}
        self.viol = []      # (what, payload)

    def add_tensor(self, raw, what, payload):
        key = json.dumps(clean_raw(raw), sort_keys=True)
        if key not in self.tensors:
            self.tensors[key] = (len(self.tensors), clean_raw(raw))
        i = self.tensors[key][0]
        self.users.setdefault(i, []).append((what, payload))

    def add_trace(self, kind, c0, d, visits, pos, crd, payload):
        key = json.dumps([kind, c0, d, visits, pos, crd])
        if key not in self.traces:
            self.traces[key] = (len(self.traces), (kind, c0, d, visits, pos, crd))
        self.trace_users.setdefault(self.traces[key][0], []).append(payload)

    def violation(self, what, payload, observed=None):
        p = dict(payload)
        if observed is not None:
            p["observed"] = observed
        self.viol.append((what, p))

    def record(self, rec, cap, stream):
        chk = self.chk
        payload = case_payload(rec, cap) if stream in ("sweep", "mismatch") else {"operator_case": {k: rec[k] for k in ("op", "lf", "rf", "ld", "rd", "le", "re", "scalar")}, "capacity": cap}
        payload["stream"] = stream
        if rec["status"] == "skip":
            chk.count("skipped:" + rec["error"].split(":")[0].split("@")[0])
            return
        if rec["status"] == "refused":
            chk.count("mismatch:refused-with-ValueError" + ("" if not rec.get("consistent") else "(consistent sizes!)"))
            chk.case((stream, cap, json.dumps(payload, sort_keys=True)), nontrivial=True)
            return
        if stream == "mismatch":
            chk.count("mismatch:returned-a-tensor:" + ("consistent-sizes" if rec.get("consistent") else "INCONSISTENT-sizes"))
        if rec["status"] == "error":
            chk.count("error:" + rec["error"].split(":")[0])
            self.violation("evaluate raised an undocumented error: " + rec["error"], payload)
            return
        if rec["status"] == "machine-only":
            chk.count("real-kernel-not-run:" + rec["real_skipped"])
            chk.case((stream, cap, json.dumps(payload, sort_keys=True)), nontrivial=True)
            self.machine_part(rec, cap, payload, None)
            return
        raw = rec["raw"]
        nontrivial = any(len(ix) == 2 and len(ix[1]) > 0 for ix in raw["indices"])
        chk.case((stream, cap, json.dumps(payload, sort_keys=True)), nontrivial=nontrivial)
        chk.count(f"{stream}:outputs")
        chk.count(f"{stream}:capacity={cap or 'default'}")
        if nontrivial:
            chk.count(f"{stream}:nonempty-compressed-output")
        if rec.get("alloc_problems"):
            self.violation("allocated block smaller than the structure requires: " + "; ".join(rec["alloc_problems"]), payload, clean_raw(raw))
        self.add_tensor(raw, "real", payload)
        if rec.get("accessors_agree") not in (True, None):
            self.violation("taco_indices/taco_vals disagree with the arrays behind them", payload, clean_raw(raw))
        for k, v in (rec.get("reuse") or {}).items():
            if v == "ok" or v.startswith("skip "):
                chk.count(f"reuse:{k}:{'ok' if v == 'ok' else 'skipped'}")
            else:
                self.violation(f"result cannot be re-used ({k}): {v}", payload, clean_raw(raw))
        self.machine_part(rec, cap, payload, raw)

    def machine_part(self, rec, cap, payload, raw):
        chk = self.chk
        m = rec.get("machine")
        if not m:
            return
        observed = clean_raw(raw) if raw else m.get("final")
        if m["status"] == "memerror":
            self.violation(f"IR machine: {m['error']['kind']} {m['error']['detail']}", payload, observed)
            return
        if m["status"] == "outoffuel":
            self.violation("IR machine: the kernel does not terminate (2 000 000 steps) -- no tensor is returned", payload, observed)
            return
        if m["status"] != "ok":
            chk.broken.append({"kind": "harness", "what": "IR machine " + m["status"], "error": m.get("error"), "case": payload})
            return
        mr, why = machine_raw(m["final"])
        if mr is None:
            self.violation("IR machine: " + why, payload, m["final"])
            return
        chk.count("machine:runs")
        lc = None
        try:
            lc = leaf_count(mr)
        except Exception:
            pass
        if lc is not None and any(v is None for v in mr["vals"][:lc]):
            self.violation("IR machine: a stored position has no value (uninitialised cell in vals)", payload, m["final"])
        mr2 = dict(mr)
        mr2["vals"] = [0.0 if v is None else v for v in mr["vals"]]
        self.add_tensor(mr2, "machine", payload)
        if raw is not None:
            same = mr["indices"] == raw["indices"] and mr2["vals"][: len(raw["vals"])] == raw["vals"]
            if not same and not rec.get("alloc_problems"):
                chk.broken.append({"kind": "correspondence", "what": "IR machine and LLVM kernel disagree",
                                   "case": payload, "machine": mr, "real": clean_raw(raw)})
        c0 = int(cap) if cap else None
        for l, t in (m.get("traces") or {}).items():
            if "unextractable" in t:
                chk.broken.append({"kind": "correspondence", "what": "protocol trace not of the modelled shape: " + t["unextractable"],
                                   "level": l, "case": payload})
            elif any(c is None for c in (t["pos"] or [])) or any(c is None for c in (t["crd"] or [])):
                pass  # already reported as uninitialised cells
            else:
                chk.count("trace:" + t["kind"][0])
                self.add_trace(t["kind"], c0, t["d"], t["visits"], t["pos"], t["crd"], dict(payload, level=l))


def cleanup_scratch():
    """remove this run's scratch .v/.vo/.glob files from /verif/build/cases"""
    d = VERIF / "build" / "cases"
    for f in list(d.glob(f"c02_*_{os.getpid()}_*")) + list(d.glob(f".c02_*_{os.getpid()}_*")) + list(d.glob(f"c02_*_{os.getpid()}.*")) + list(d.glob(f".c02_*_{os.getpid()}.*")):
        try:
            f.unlink()
        except OSError:
            pass


def corpus_cases():
    d = VERIF / "corpus" / "C02"
    out = []
    if d.is_dir():
        for p in sorted(d.glob("*.json")):
            try:
                out.append(json.loads(p.read_text()))
            except Exception:
                pass
    return out


def run(chk: Check):
    chk.rule = (
        "sweep.TEMPLATES + 19 extra templates, restricted to (assignment, formats) whose OUTPUT format has a "
        "compressed level (formats from sweep.format_choices plus every compressed-output format against all-dense "
        "and all-compressed inputs), index sizes in {0,1,2,3} plus one larger mostly-full input, patterns "
        "random/full/empty/explicit zeros, x initial capacity {1,2,3,default}; operators + - * @ on random pairs; mismatch stream: 10 assignments called with arguments that disagree about an index size "
        "(all arguments the same non-square shape used transposed, or independent shapes) -- refused with ValueError or a well-formed tensor; "
        "a case is distinct by (stream, capacity, problem, input) and non-trivial when a compressed output level "
        "stores at least one coordinate"
    )
    chk.trusted += [
        "hand model coq/model/StructureValidate.v tied to taco_structure_to_cffi by correspondence only",
        "hand model coq/model/Append.v tied to the generated IR by trace correspondence on the IR machine only",
        "tools/harness/c02_irmachine.py (Python IR interpreter, unverified; cross-checked against the LLVM kernels on every case)",
        "raw arrays are read through cffi; malloc_usable_size bounds every read",
        "that the loops of _generate_ir.py always produce well-formed outputs is TESTED (sweep with the proved checker as oracle), not proved",
    ]
    os.environ.pop(GUARD, None)
    import time as _t

    t0 = _t.time()
    chk.coq_props()
    chk.note(f"timing: coq_props {_t.time() - t0:.0f}s")

    thorough = chk.tier == "thorough"
    judge = Judge(chk)

    # ---- corpus first
    corpus = corpus_cases()
    reqs = []
    if corpus:
        for cap in CAPACITIES:
            reqs.append((cap, {"mode": "cases", "cases": corpus}))
    if thorough:
        plan = [(cap, k, 2) for cap in CAPACITIES for k in range(2)]
    else:
        # quick: capacities 1 and default see every problem, 2 and 3 one half each
        plan = [("1", 0, 2), ("1", 1, 2), ("", 0, 2), ("", 1, 2), ("2", 0, 2), ("3", 1, 2)]
    for cap, k, n in plan:
        reqs.append((cap, {"mode": "sweep", "seed": chk.seed, "tier": chk.tier, "shard": k, "nshards": n,
                           "timeout": 2400 if thorough else 900}))
    reqs.append(("", {"mode": "operators", "seed": chk.seed, "tier": chk.tier}))
    reqs.append(("1", {"mode": "operators", "seed": chk.seed, "tier": chk.tier}))
    # arguments that disagree about an index size (same shape used transposed, or independent shapes):
    # refused, or a well-formed tensor
    reqs.append(("", {"mode": "mismatch", "seed": chk.seed, "tier": chk.tier}))
    t0 = _t.time()
    results = launch_workers(chk, reqs)
    chk.note(f"timing: workers {_t.time() - t0:.0f}s")
    t0 = _t.time()
    for cap, req, recs, crashed, err, rc in results:
        stream = "operators" if req["mode"].startswith("operator") else "mismatch" if req["mode"].startswith("mismatch") else "sweep"
        for rec in recs:
            if "status" in rec:
                judge.record(rec, cap, stream)
        for begun, crc, cerr in crashed:
            payload = {"capacity": cap, "stream": stream, "request": {k: v for k, v in req.items() if k != "cases"}}
            payload.update({k: begun.get(k) for k in ("assignment", "formats", "inputs", "sizes") if k in begun})
            chk.count("worker-crashes")
            judge.violation(f"kernel crashed or hung (worker exit {crc}) while running this case; stderr: {cerr}", payload)

    # ---- deciding oracle: wf_tensorb false by vm_compute on every distinct raw output
    items = [(i, tensor_term(r)) for (i, r) in judge.tensors.values()]
    chk.note(f"timing: judging {_t.time() - t0:.0f}s")
    t0 = _t.time()
    failing, errors = run_coq_shards(chk, "wf", items, wf_file)
    chk.note(f"timing: coq wf shards {_t.time() - t0:.0f}s ({len(items)} tensors)")
    for e in errors:
        chk.broken.append({"kind": "harness", "what": "Coq shard failed", **e})
    chk.count("coq:distinct-tensors-checked", len(items))
    mirror_disagree = 0
    for key, (i, r) in judge.tensors.items():
        coq_ok = i not in failing
        if py_wf(r) != coq_ok:
            mirror_disagree += 1
            chk.broken.append({"kind": "correspondence", "what": "Python mirror of wf_tensorb disagrees with Coq", "tensor": r, "coq": coq_ok})
        if not coq_ok:
            for what, payload in judge.users[i][:3]:
                judge.violation(f"returned tensor is not well-formed (Coq wf_tensorb false = false) [{what} arrays]", payload, r)
    chk.count("coq:ill-formed", len(failing))

    # ---- protocol traces against model/Append.v
    titems = [(i,) + t for (i, t) in judge.traces.values()]
    t0 = _t.time()
    tfail, terrors = run_coq_shards(chk, "trace", titems, trace_file, per_file=300)
    chk.note(f"timing: coq trace shards {_t.time() - t0:.0f}s ({len(titems)} traces)")
    for e in terrors:
        chk.broken.append({"kind": "harness", "what": "Coq trace shard failed", **e})
    chk.count("coq:distinct-traces-checked", len(titems))
    for key, (i, t) in judge.traces.items():
        if i in tfail:
            chk.broken.append({"kind": "correspondence", "what": "real protocol trace outside model/Append.v (trace_okb false or run_level differs)",
                               "kind_c0_d": [t[0], t[1], t[2]], "visits": t[3], "pos": t[4], "crd": t[5], "case": judge.trace_users[i][0]})

    # ---- taco_structure_to_cffi against model/StructureValidate.v
    validate_stream(chk, 1500 if thorough else 400)

    # ---- report: the Coq verdicts first, then at most 3 per other kind, 12 in all
    def kind_of(what):
        return what.split(":")[0].split("[")[0].strip()

    ordered = [v for v in judge.viol if v[0].startswith("returned tensor is not well-formed")]
    ordered += [v for v in judge.viol if not v[0].startswith("returned tensor is not well-formed")]
    seen, per_kind, reported = set(), {}, 0
    for what, payload in ordered:
        h = hashlib.sha1((kind_of(what) + json.dumps(payload.get("assignment")) + json.dumps(payload.get("formats"))
                          + json.dumps(payload.get("operator_case", {}).get("op"))).encode()).hexdigest()
        if h in seen:
            chk.count("violations:suppressed-duplicates")
            continue
        seen.add(h)
        k = kind_of(what)
        per_kind[k] = per_kind.get(k, 0) + 1
        if per_kind[k] > (5 if k.startswith("returned tensor") else 3) or reported >= 12:
            chk.count("violations:suppressed-further")
            continue
        reported += 1
        chk.violation(what, payload)
    # samples
    n = 0
    for key, (i, r) in judge.tensors.items():
        if any(len(ix) == 2 and len(ix[1]) > 1 for ix in r["indices"]) and n < 3:
            what, payload = judge.users[i][0]
            chk.sample({"stream": payload.get("stream"), "assignment": payload.get("assignment"), "formats": payload.get("formats"),
                        "capacity": payload.get("capacity"), "output": r, "wf_tensorb_false": i not in failing})
            n += 1
    n = 0
    for key, (i, t) in judge.traces.items():
        if t[0][0] != "fixed" and len(t[3]) > 2 and n < 2:
            chk.sample({"stream": "trace", "kind": t[0], "capacity": t[1], "dim": t[2], "visits": t[3], "pos": t[4], "crd": t[5],
                        "model_agrees": i not in tfail})
            n += 1
    chk.extra["oracle"] = "Storage.wf_tensorb false (Coq, vm_compute) on every distinct raw output; proved <-> wf_tensor in props/C02.v"
    chk.extra["python_mirror_disagreements"] = mirror_disagree
    cleanup_scratch()

    # abstract kernel model G (coq/model/Kernel.v; theorems props/C01G.v: G computes spec, its output is
    # well-formed and phantom-free): exact raw-array correspondence with the real evaluate kernels
    from props._c01_kernel import run_kernel_correspondence
    run_kernel_correspondence(chk)

    # tie by regeneration: the emitters of _write_sparse_ir.py / outputs/_append.py / outputs/_bucket.py are
    # re-translated from /repo on every run; the IR they emit is PROVED (on the IR machine) to perform the
    # transitions of model/Append.v (coq/props/TIE_append.v) + translator self-check
    from props._tie import run_tie
    run_tie(chk, ["append"])


def replay(chk: Check, payload):
    os.environ.pop(GUARD, None)
    cap = payload.get("capacity", "")
    if payload.get("stream") == "operators" or "operator_case" in payload:
        req = {"mode": "operator_cases", "cases": [payload["operator_case"]]}
    elif payload.get("stream") == "mismatch":
        req = {"mode": "mismatch_cases", "cases": [{"assignment": payload["assignment"], "formats": payload["formats"], "inputs": payload["inputs"]}]}
    elif payload.get("assignment") and payload.get("inputs") is not None:
        req = {"mode": "cases", "cases": [{"assignment": payload["assignment"], "formats": payload["formats"], "inputs": payload["inputs"]}]}
    else:
        print("replay: no concrete input in this file:", payload.get("what"))
        return 1
    res = launch_workers(chk, [(cap, req)])[0]
    _, _, recs, crashed, err, rc = res
    if crashed:
        print("replay: worker crashed", crashed[0][1], crashed[0][2])
        return 1
    judge = Judge(chk)
    for rec in recs:
        if "status" in rec:
            judge.record(rec, cap, "operators" if "operator_case" in payload else payload.get("stream") if payload.get("stream") == "mismatch" else "sweep")
    items = [(i, tensor_term(r)) for (i, r) in judge.tensors.values()]
    failing, errors = run_coq_shards(chk, "replay", items, wf_file)
    bad = bool(judge.viol) or bool(failing) or bool(errors) or bool(chk.broken)
    for what, p in judge.viol:
        print("replay:", what)
    for key, (i, r) in judge.tensors.items():
        print("replay: tensor", json.dumps(r), "wf_tensorb false =", i not in failing)
    for b in chk.broken:
        print("replay: broken", json.dumps(b)[:400])
    print("replay:", "STILL FAILING" if bad else "passes now")
    cleanup_scratch()
    return 1 if bad else 0
