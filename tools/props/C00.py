def run(chk):
    chk.rule = "demo"
    ok = chk.coq_props()
    ok2, out = chk.coq_eval("c00", "From TV Require Import spec.Storage.\nFrom Coq Require Import ZArith List.\nEval vm_compute in (zrange 3).\n")
    chk.sample(out.strip())
    chk.case("a"); chk.case("b")
    rc, o, e = chk.impl("demo.py", ["x"])
    chk.note(o.strip() + e.strip()[-200:])
def replay(chk, payload):
    return 0
