"""C10 -- inconsistent arguments are refused before any kernel runs.

Proof: coq/props/C10.v (model coq/model/{ExprAst,Problem,Validate}.v).
Tie + searcher: single-fault mutations of consistent argument sets, run on the implementation
with a probe on the compiled function pointer, compared with the model's verdict and -- separately --
with the property statement itself (independent consistency predicate in c10_common.consistent).
"""

from __future__ import annotations

import json
import sys
from concurrent.futures import ThreadPoolExecutor
from pathlib import Path

from vlib.core import VERIF, Check, known_for

sys.path.insert(0, str(VERIF / "tools" / "harness"))
import c10_common as cc  # noqa: E402
import c10_gen as gen  # noqa: E402

PROBLEM_ERRORS = {
    "UndefinedReferenceError", "IncorrectDimensionsError", "UnusedFormatError", "BroadcastTargetIndexError",
    "MutatingAssignmentError", "InconsistentDimensionsError", "NameConflictError",
    "DiagonalAccessError", "NoKernelFoundError", "InvalidModeOrderingError",
}
ALLOWED = {"TypeError", "ValueError"} | PROBLEM_ERRORS

PREAMBLE = r"""
From Coq Require Import String List ZArith Bool. Import ListNotations.
From TV Require Import model.ExprAst model.Problem model.Validate.
Open Scope string_scope.
Inductive obs := OEntered (d : list Z) | OError (cls tag name : string) | OOk (fs : list (string * format)).
Definition err_cls (e : error) : string * string * string :=
  match e with
  | EMutatingAssignment => ("MutatingAssignmentError", "", "")
  | EInconsistentDimensions => ("InconsistentDimensionsError", "", "")
  | ENameConflict => ("NameConflictError", "", "")
  | EUndefinedReference n => ("UndefinedReferenceError", "", n)
  | EIncorrectDimensions n => ("IncorrectDimensionsError", "", n)
  | EUnusedFormat n => ("UnusedFormatError", "", n)
  | EBroadcastTargetIndex i => ("BroadcastTargetIndexError", "", i)
  | ETypeErrorBind => ("TypeError", "bind", "")
  | ETypeErrorNotTensor n => ("TypeError", "not_tensor", n)
  | EValueErrorOrder n => ("ValueError", "order", n)
  | EValueErrorModes n => ("ValueError", "modes", n)
  | EValueErrorOrdering n => ("ValueError", "ordering", n)
  | EValueErrorDimensions => ("ValueError", "dimensions", "")
  | EInternal s => ("Internal", s, "")
  end.
Fixpoint zs_eqb (a b : list Z) : bool :=
  match a, b with [], [] => true | x :: a', y :: b' => Z.eqb x y && zs_eqb a' b' | _, _ => false end.
Definition err_matches (e : error) (cls tag name : string) : bool :=
  let '(c, t, n) := err_cls e in
  (c =? cls) && ((tag =? "") || (t =? tag)) && ((name =? "") || (n =? name)).
Definition matches (m : outcome) (o : obs) : bool :=
  match m, o with
  | KernelEntered d, OEntered d' => zs_eqb d d'
  | Refused e, OError cls tag name => err_matches e cls tag name
  | _, _ => false
  end.
Definition rmatches (m : result problem) (o : obs) : bool :=
  match m, o with
  | Ok p, OOk fs => items_eqb (p_formats p) fs
  | Error e, OError cls tag name => err_matches e cls tag name
  | _, _ => false
  end.
Definition umatches (m : result unit) (o : obs) : bool :=
  match m, o with
  | Ok _, OOk _ => true
  | Error e, OError cls tag name => err_matches e cls tag name
  | _, _ => false
  end.
Definition ord_rev : path -> list string -> list string := fun _ l => rev l.
Definition ordp_rev : string -> list participant -> list participant := fun _ l => rev l.
Definition oracle_fn (A : Type) : Type :=
  (path -> list string -> list string) -> (string -> list participant -> list participant) -> A.
(* every case is evaluated under the identity oracles and under the reversing ones *)
Definition bad {A} (l : list (nat * oracle_fn A * obs)) (f : A -> obs -> bool) : list nat :=
  flat_map (fun c => match c with (i, m, o) =>
     if f (m ord_id ordp_id) o && f (m ord_rev ordp_rev) o then [] else [i] end) l.
"""


# ------------------------------------------------------------------------------------------ cases


def effective_formats(assignment, given):
    """what make_problem is documented to produce: appearance order, dense defaults"""
    return [(n, given.get(n, "d" * o)) for n, o in gen.tensors_in_order(assignment)]


def build_groups(chk: Check):
    thorough = chk.tier == "thorough"
    templates = gen.TEMPLATES if thorough else gen.TEMPLATES[: gen.QUICK_TEMPLATES]
    groups = []
    gid = 0
    backends = ["llvm", "cffi"] if thorough else ["llvm"]
    for text, variants in templates:
        a = cc.parse_assignment(text)
        all_variants = [{}] + list(variants)
        if not thorough:
            # quick: every template once; the templates the property names twice (dense + a sparse variant)
            key = any(k in text for k in ("B(j,i)", "+ d(i)", "b(i,j) * c(j)", "A(i,j) * x(j)", "B(i,k) * C(k,j)"))
            if len(all_variants) > 1 and key:
                all_variants = [all_variants[0], chk.rng.choice(all_variants[1:])]
            elif len(all_variants) > 1:
                all_variants = [chk.rng.choice(all_variants)]
        palettes = [(2, 3, 4, 5, 6, 7)] + ([(1, 2, 1, 3, 2, 1)] if thorough else [])
        for vi, fm in enumerate(all_variants):
            for backend in backends:
                for pi, palette in enumerate(palettes):
                    if backend == "cffi" and pi > 0:
                        continue
                    sizes = gen.index_sizes(a, palette)
                    kws = gen.base_keywords(a, fm, sizes)
                    # formats handed to tensor_method: all of them, or (variant 0) none -> dense defaults
                    given = dict(fm)
                    if fm and len(fm) > 1 and chk.rng.random() < 0.5:
                        # hand the dict over in a scrambled order: make_problem must reorder it
                        items = list(given.items())
                        chk.rng.shuffle(items)
                        given = dict(items)
                    cases = [{"label": "base", "positional": [], "keywords": kws, "base": True}]
                    cases.append({"label": "rescaled", "positional": [], "keywords": gen.consistent_rescale(a, fm, sizes)})
                    for label, pos, kw in gen.mutations(kws, rich=thorough and pi == 0):
                        cases.append({"label": label, "positional": pos, "keywords": kw})
                    groups.append({"gid": gid, "entry": "tensor_method", "assignment": text,
                                   "formats": list(given.items()), "backend": backend, "cases": cases})
                    gid += 1
        # evaluate(): the formats come from the arguments themselves
        ev_entries = ["evaluate"] + (["evaluate_cffi"] if thorough else [])
        take_eval = thorough or (len(groups) % 4 == 0) or "B(j,i)" in text or "+ d(i)" in text
        if take_eval:
            for entry in ev_entries:
                fm = variants[0] if (variants and entry == "evaluate") else {}
                sizes = gen.index_sizes(a)
                kws = gen.base_keywords(a, fm, sizes)
                cases = [{"label": "base", "positional": [], "keywords": kws, "base": True}]
                for label, pos, kw in gen.mutations(kws, evaluate=True, rich=False):
                    cases.append({"label": label, "positional": pos, "keywords": kw})
                out_fmt = fm.get(a[0][1], "d" * len(a[0][2]))
                groups.append({"gid": gid, "entry": entry, "assignment": text, "output_format": out_fmt,
                               "formats": [], "backend": "cffi" if entry == "evaluate_cffi" else "llvm",
                               "cases": cases})
                gid += 1
    for text in gen.REFUSED_TEMPLATES:
        a = cc.parse_assignment(text)
        sizes = gen.index_sizes(a)
        kws = gen.base_keywords(a, {}, sizes)
        for entry in ("tensor_method", "evaluate"):
            g = {"gid": gid, "entry": entry, "assignment": text, "formats": [], "backend": "llvm",
                 "output_format": "d" * len(a[0][2]),
                 "cases": [{"label": "refused_at_construction", "positional": [], "keywords": kws}]}
            groups.append(g)
            gid += 1
    cid = 0
    for g in groups:
        for c in g["cases"]:
            c["cid"] = cid
            cid += 1
    return groups


CTOR_ASSIGNMENTS = [
    "a(i) = b(i) + c(i)", "A(i,j) = B(i,j) * B(j,i)", "a(i) = b(i,j) * c(j)", "a() = b() * c()",
    "a(i) = a(i) + b(i)", "a(i) = b(i) + a(j)", "a(i) = b(i) + b(i,j)", "a(i) = b(i,j) * b(j)",
    "i(i) = b(i)", "a(b) = b(b)", "a(i) = b(c) * c(i)", "a(i) = b(i) * c(i) + b(i) * d(i) + c(i)",
    "a(i) = c(i) + b(i) + c(i) * b(i)", "a(i,j) = b(i)", "a(i) = 2 * 3", "a(i) = b(i,i)",
    "a(i) = a(i,j) + b(i) + b(i,j)", "a(i) = b(i) + c(i,j) + c(i) + a(i)", "a() = 3", "a(i) = b(j)",
    "a(i) = 1.5 * b(i) + 1.50 * c(i)", "a(i) = b(i) - (c(i) - d(i)) * e(i)",
]


def build_ctor(chk: Check):
    """Assignment.__post_init__, Problem.__post_init__, make_problem, TensorMethod.__init__"""
    cases = []
    for text in CTOR_ASSIGNMENTS:
        cases.append({"kind": "assignment", "assignment": text, "formats": []})
    ok_assignments = ["a(i) = b(i) + c(i)", "A(i,j) = B(i,j) * B(j,i)", "a(i) = b(i,j) * c(j)", "a() = b() * c()",
                      "a(i) = c(i) + b(i) + c(i) * b(i)", "a(i,j) = b(i)", "a(i) = 2 * 3", "a() = 3",
                      "a(i) = b(i) - (c(i) - d(i)) * e(i)"]
    pool = ["", "d", "s", "dd", "ds", "d1s0", "sss"]
    for text in ok_assignments:
        a = cc.parse_assignment(text)
        names = [n for n, _ in gen.tensors_in_order(a)]
        full = [(n, "d" * o) for n, o in gen.tensors_in_order(a)]
        variants = [full, list(reversed(full)), full[1:], full[:-1], full + [("zz", "d")], [("zz", "ds")] + full, []]
        for n, o in gen.tensors_in_order(a):
            variants.append([(k, ("d" * (o + 1)) if k == n else f) for k, f in full])
            variants.append([(k, ("s" * max(o - 1, 0)) if k == n else f) for k, f in full])
        for _ in range(6 if chk.tier == "thorough" else 2):
            ks = [n for n in names + ["zz"] if chk.rng.random() < 0.7]
            chk.rng.shuffle(ks)
            variants.append([(k, chk.rng.choice(pool)) for k in ks])
        for v in variants:
            for kind in ("Problem", "make_problem"):
                cases.append({"kind": kind, "assignment": text, "formats": v})
    for text in ["a(i,j) = b(i)", "a(i) = 2 * 3", "a(i) = b(j)", "a(i) = b(i) + c(i)", "a() = 3", "a(i,j) = b(j) * c(j)"]:
        a = cc.parse_assignment(text)
        cases.append({"kind": "tm_init", "assignment": text,
                      "formats": [(n, "d" * o) for n, o in gen.tensors_in_order(a)]})
    for i, c in enumerate(cases):
        c["cid"] = i
    return cases


# ------------------------------------------------------------------------------------------ running


def run_impl(chk: Check, request: dict, timeout=1500):
    rc, out, err = chk.impl("c10_run.py", input=json.dumps(request), timeout=timeout)
    lines = []
    for ln in out.splitlines():
        ln = ln.strip()
        if ln.startswith("{"):
            try:
                lines.append(json.loads(ln))
            except json.JSONDecodeError:
                pass
    done = any(d.get("done") for d in lines)
    return rc, lines, err, done


def run_groups(chk: Check, groups, workers=6):
    """shard the groups over subprocesses; -> ({cid: result}, {gid: construction}, crashes)"""
    shards = [groups[i::workers] for i in range(workers)]
    shards = [s for s in shards if s]
    results, constructions, crashes = {}, {}, []

    def one(shard):
        return shard, run_impl(chk, {"groups": shard})

    with ThreadPoolExecutor(max_workers=workers) as ex:
        for shard, (rc, lines, err, done) in ex.map(one, shards):
            last_started = None
            for d in lines:
                if "cid" in d:
                    if d.get("start"):
                        last_started = d["cid"]
                    else:
                        results[d["cid"]] = d
                        last_started = None
                elif "gid" in d and "construction" in d:
                    constructions[d["gid"]] = d["construction"]
            if not done:
                crashes.append({"rc": rc, "stderr_tail": err[-1500:], "last_started_cid": last_started,
                                "gids": [g["gid"] for g in shard]})
    return results, constructions, crashes


def obs_term(r):
    if r["outcome"] in ("entered", "returned"):
        return f"(OEntered {cc.coq_zs(r['dims'] or [])})"
    if r["outcome"] == "ok":
        return f"(OOk {cc.coq_formats(r.get('formats', []))})"
    return f"(OError {cc.cstr(r['cls'])} {cc.cstr(r.get('tag', ''))} {cc.cstr(r.get('name', ''))})"


class Defs:
    """shared sub-terms of one generated .v file (big string terms are slow to type-check)"""

    def __init__(self):
        self.names = {}
        self.lines = []

    TYPES = {"a": "assignment", "f": "list (string * format)", "o": "format", "x": "argument"}

    def name(self, prefix, term):
        key = (prefix, term)
        if key not in self.names:
            n = f"{prefix}{len(self.names)}"
            self.names[key] = n
            self.lines.append(f"Definition {n} : {self.TYPES[prefix]} := {term}.")
        return self.names[key]

    def text(self):
        return "\n".join(self.lines)


def coq_argument_shared(defs, spec):
    t = cc.coq_argument(spec)
    return t if t == "ANotTensor" else defs.name("x", t)


def model_fn(g, c, defs=None):
    """the model's verdict as a function of the two oracles: (fun o op => ...)"""
    defs = defs or Defs()
    a = defs.name("a", cc.coq_assignment(cc.parse_assignment(g["assignment"])))
    pos = cc.clist(coq_argument_shared(defs, s) for s in c["positional"])
    kws = cc.clist("(" + cc.cstr(n) + ", " + coq_argument_shared(defs, s) + ")" for n, s in c["keywords"])
    if g["entry"] == "tensor_method":
        fs = defs.name("f", cc.coq_formats(g["formats"]))
        return f"(fun o op => tensor_method_call o op {a} {fs} (CallArgs {pos} {kws}))"
    of = defs.name("o", cc.coq_format(g["output_format"]))
    return f"(fun o op => evaluate o op {a} {of} {kws})"


def ctor_model_fn(c, defs=None):
    defs = defs or Defs()
    a = defs.name("a", cc.coq_assignment(cc.parse_assignment(c["assignment"])))
    fs = defs.name("f", cc.coq_formats(c["formats"]))
    if c["kind"] == "assignment":
        return f"(fun o op => assignment_check {a})", "umatches"
    if c["kind"] == "Problem":
        return f"(fun o op => bind_result (assignment_check {a}) (fun _ => problem_ctor {a} {fs}))", "rmatches"
    if c["kind"] == "make_problem":
        return f"(fun o op => bind_result (assignment_check {a}) (fun _ => make_problem {a} {fs}))", "rmatches"
    return (f"(fun o op => bind_result (assignment_check {a}) (fun _ => bind_result (problem_ctor {a} {fs}) "
            f"(fun p => tm_init o p)))"), "umatches"


def coq_compare(chk: Check, name: str, entries, fn: str):
    """entries: [(index, render(defs) -> model function term, obs term)] -> failing indexes"""
    files = []
    for k in range(0, len(entries), 400):
        part = entries[k:k + 400]
        defs = Defs()
        rows = [f"({i}%nat, {render(defs)}, {o})" for i, render, o in part]
        body = ";\n ".join(rows)
        files.append((f"{name}_{k // 400}", PREAMBLE + "\n" + defs.text() + f"\nEval vm_compute in (bad [\n {body}] {fn}).\n"))
    failing = []
    problems = []

    def one(f):
        return f[0], chk.coq_eval(f[0], f[1], timeout=900)

    with ThreadPoolExecutor(max_workers=8) as ex:
        for fname, (ok, out) in ex.map(one, files):
            if not ok:
                problems.append({"file": fname, "output_tail": out[-1500:]})
                continue
            import re
            m = re.search(r"=\s*\[(.*?)\]\s*:\s*list nat", out, flags=re.S)
            if not m:
                problems.append({"file": fname, "output_tail": out[-800:]})
                continue
            failing += [int(x) for x in re.findall(r"\d+", m.group(1))]
    return failing, problems


def model_alone_case(chk: Check, fn_render) -> str:
    defs = Defs()
    t = fn_render(defs)
    ok, out = chk.coq_eval("c10_single", PREAMBLE + "\n" + defs.text() + f"\nEval vm_compute in ({t} ord_id ordp_id).\n", timeout=300)
    return out.strip()[-1200:]


# ------------------------------------------------------------------------------------------ judging


def first_non_tensor(keywords):
    for n, s in keywords:
        if s["kind"] != "tensor":
            return n
    return None


def _cls_evaluate_non_tensor_attribute_error(g, c, r):
    """(repaired in /repo; kept as a classifier only in case known_findings.json lists it again)
    evaluate*() read `.format` of every input before any isinstance check, so a non-Tensor input
    raised AttributeError from _porcelain.py instead of TypeError; kernel not entered."""
    return (g["entry"].startswith("evaluate") and first_non_tensor(c["keywords"]) is not None
            and not c["positional"] and r.get("outcome") == "error" and r.get("cls") == "AttributeError"
            and r.get("site", "").startswith("_porcelain.py") and r.get("entered", 0) == 0)


CLASSIFIERS = {"evaluate_non_tensor_attribute_error": _cls_evaluate_non_tensor_attribute_error}


def known_match(g, c, r):
    """-> the known finding (from /verif/known_findings.json) whose classifier matches, or None"""
    for f in known_for("C10"):
        fn = CLASSIFIERS.get(f.get("classifier", ""))
        if fn and r and fn(g, c, r):
            return f
    return None


def judge(chk: Check, g, c, r):
    """the property itself, on the implementation: -> None | description of the failure"""
    a = cc.parse_assignment(g["assignment"])
    if g["entry"] == "tensor_method":
        formats = effective_formats(a, dict(g["formats"]))
        ok, why = cc.consistent(a, formats, c["positional"], c["keywords"])
    else:
        # evaluate: the kernel is generated for the formats of the arguments
        if c["positional"] or first_non_tensor(c["keywords"]) is not None:
            ok, why = False, "positional or non-Tensor argument"
        else:
            given = {n: s["format"] for n, s in c["keywords"]}
            names = [n for n, _ in gen.tensors_in_order(a)]
            extra = [n for n in given if n not in names or n == a[0][1]]
            if extra:
                ok, why = False, f"unexpected argument {extra[0]}"
            else:
                formats = [(n, given.get(n, g["output_format"] if n == a[0][1] else "d" * o))
                           for n, o in gen.tensors_in_order(a)]
                ok, why = cc.consistent(a, formats, [], c["keywords"])
    entered = r.get("entered", 0) > 0
    if ok:
        if not entered:
            return ok, why, f"consistent call refused ({r.get('cls')})", False
        if r.get("dims") != why:
            return ok, why, f"output allocated with dimensions {r.get('dims')} instead of {why}", True
        return ok, why, None, False
    if entered:
        return ok, why, f"kernel entered on inconsistent arguments ({why})", True
    if r["outcome"] != "error":
        return ok, why, f"inconsistent call did not raise ({why})", True
    if r["cls"] not in ALLOWED:
        return ok, why, f"inconsistent call ({why}) raised {r['cls']}, not TypeError/ValueError/problem error", True
    return ok, why, None, False


MAX_VIOLATIONS = 6


def report(chk: Check, what, payload):
    """at most MAX_VIOLATIONS replay files per run; the rest are only counted"""
    if len(chk.violations) < MAX_VIOLATIONS:
        chk.violation(what, payload)
    else:
        chk.count("violations_not_listed")


def run(chk: Check):
    chk.rule = ("assignment templates (tensor reused with different index lists, 3- and 4-participant indexes, "
                "contractions, scalars, literals) x format variants x backends; a consistent argument set "
                "(distinct size per index class) and every single-fault variation of it: each dimension +-1, "
                "order +-1, each mode flipped, each pair of the ordering exchanged, argument missing / extra / "
                "renamed / repeated / positional / not a Tensor, two arguments exchanged.  A case is distinct by "
                "(entry, assignment, formats, backend, arguments).")
    chk.trusted += [
        "hand models coq/model/{ExprAst,Validate}.v tied to /repo by correspondence and by regeneration + equivalence proof (TIE variables, index_participants, validate); Problem.v / make_problem and inspect.Signature.bind by correspondence only",
        "Python dict = association list, Python set = list + arbitrary iteration order (oracle); "
        "inspect.Signature.bind modelled as: keyword-only parameters, names exact",
        "kernel entry observed by replacing TensorMethod._evaluate on the instance (harness c10_run.py)",
        "code generation inside TensorMethod.__init__ (may refuse: DiagonalAccessError, NoKernelFoundError) not modelled",
    ]
    import time
    t0 = time.time()
    chk.coq_props()
    timings = {"coq_props": round(time.time() - t0, 1)}
    chk.extra["timings_s"] = timings

    corpus = sorted((VERIF / "corpus" / "C10").glob("*.json"))
    groups = []
    for f in corpus:
        try:
            payload = json.loads(f.read_text())
            g = payload["group"]
            g["corpus"] = f.name
            groups.append(g)
        except Exception as e:  # noqa: BLE001
            chk.note(f"corpus file {f.name} unreadable: {e}")
    fresh = build_groups(chk)
    base = len(groups)
    for g in fresh:
        g["gid"] += base + 1000
    groups += fresh
    cid = 0
    for gi, g in enumerate(groups):
        g["gid"] = gi
        for c in g["cases"]:
            c["cid"] = cid
            cid += 1

    # 1. parser tie + constructors ---------------------------------------------------------
    texts = sorted({g["assignment"] for g in groups})
    ctor = build_ctor(chk)
    rc, lines, err, done = run_impl(chk, {"parse": texts, "ctor": ctor})
    if not done:
        chk.broken.append({"kind": "harness", "what": "c10_run.py (constructors) did not finish", "stderr": err[-1500:]})
    parsed = {d["parse"]: d for d in lines if "parse" in d}
    for t in texts:
        want = cc.assignment_repr(cc.parse_assignment(t))
        got = parsed.get(t, {}).get("repr")
        if t in gen.REFUSED_TEMPLATES or got is None:
            continue
        if got != want:
            chk.broken.append({"kind": "correspondence", "what": "the check's parser and parse_assignment disagree",
                               "assignment": t, "implementation": got, "check": want})
    timings["impl_ctor"] = round(time.time() - t0, 1)
    cres = {d["cid"]: d for d in lines if "cid" in d}
    entries = []
    for c in ctor:
        r = cres.get(c["cid"])
        if r is None:
            continue
        if r.get("outcome") == "error" and r.get("cls") in ("DiagonalAccessError", "NoKernelFoundError"):
            chk.count("ctor_generation_refused")
            continue
        fn = ctor_model_fn(c)[1]
        entries.append((c["cid"], fn, (lambda d, c=c: ctor_model_fn(c, d)[0]), obs_term(r)))
        chk.case(("ctor", c["kind"], c["assignment"], c["formats"]))
        chk.count("ctor:" + c["kind"])
        chk.count("ctor_outcome:" + (r.get("cls") or "ok"))
    ctor_entries = entries

    def ctor_compare():
        out = []
        for fn in ("umatches", "rmatches"):
            sub = [(i, a, o) for i, f, a, o in ctor_entries if f == fn]
            out.append(coq_compare(chk, f"c10_ctor_{fn}", sub, fn))
        return out

    bg = ThreadPoolExecutor(max_workers=1)
    ctor_future = bg.submit(ctor_compare)

    # 2. calls ------------------------------------------------------------------------------
    timings["coq_ctor"] = round(time.time() - t0, 1)
    results, constructions, crashes = run_groups(chk, groups, workers=8)
    timings["impl_calls"] = round(time.time() - t0, 1)
    by_cid = {c["cid"]: (g, c) for g in groups for c in g["cases"]}
    for cr in crashes:
        g, c = by_cid.get(cr["last_started_cid"], (None, None))
        if c is not None:
            report(chk, "the process died inside a call (crash instead of a refusal)",
                   {"group": {**g, "cases": [c]}, "crash": cr})
        else:
            chk.broken.append({"kind": "harness", "what": "c10_run.py died outside a case", **cr})

    entries = []
    n_samples = 0
    for g in groups:
        con = constructions.get(g["gid"])
        if g["entry"] == "tensor_method" and con is not None and con.get("outcome") == "error":
            # refused when the method was built: the model must refuse as well (or it is a generation refusal)
            if con["cls"] in ("DiagonalAccessError", "NoKernelFoundError"):
                chk.count("generation_refused")
                continue
            for c in g["cases"]:
                entries.append((c["cid"], (lambda d, g=g, c=c: model_fn(g, c, d)), obs_term(con)))
                chk.case(("call", g["entry"], g["assignment"], g["formats"], g["backend"], c["label"]))
                chk.count("outcome:" + con["cls"])
                if con["cls"] not in ALLOWED:
                    report(chk, "construction refused with an undocumented exception",
                           {"group": {**g, "cases": [c]}, "implementation": con})
            continue
        for c in g["cases"]:
            r = results.get(c["cid"])
            if r is None or r.get("outcome") == "skip":
                chk.count("skipped")
                continue
            if r.get("outcome") == "error" and r.get("cls") in ("DiagonalAccessError", "NoKernelFoundError"):
                chk.count("generation_refused")
                continue
            canonical = ("call", g["entry"], g["assignment"], g.get("formats"), g.get("output_format"),
                         g["backend"], c["positional"], c["keywords"])
            chk.case(canonical, nontrivial=True)
            chk.count("mutation:" + c["label"].split(":")[0])
            chk.count("outcome:" + (r.get("cls") or r["outcome"]))
            chk.count("entry:" + g["entry"] + ":" + g["backend"])
            entries.append((c["cid"], (lambda d, g=g, c=c: model_fn(g, c, d)), obs_term(r)))
            ok, why, failure, is_violation = judge(chk, g, c, r)
            chk.count("consistent" if ok else "inconsistent")
            if failure:
                kf = known_match(g, c, r)
                if kf:
                    chk.known_finding(kf.get("id", "?"), kf.get("what", failure))
                    chk.count("known:" + kf.get("id", "?"))
                elif is_violation:
                    report(chk, failure, {"group": {**g, "cases": [c]}, "implementation": r,
                                          "expected": "refusal with TypeError/ValueError/problem error before the kernel"
                                          if not ok else {"entered_with_dims": why}})
                else:
                    chk.broken.append({"kind": "correspondence", "what": failure, "group": {**g, "cases": [c]},
                                       "implementation": r})
            if n_samples < 8 and c["label"].split(":")[0] in ("dim", "mode", "missing", "nontensor", "ordering", "base"):
                if n_samples % 2 == 0 or not ok:
                    chk.sample({"entry": g["entry"], "assignment": g["assignment"], "formats": g.get("formats"),
                                "mutation": c["label"], "keywords": c["keywords"], "consistent": ok,
                                "implementation": {k: r.get(k) for k in ("outcome", "cls", "tag", "entered", "dims")}})
                    n_samples += 1

    for failing, problems in ctor_future.result():
        for p in problems:
            chk.broken.append({"kind": "model-evaluation", **p})
        for i in failing:
            c = ctor[i]
            chk.broken.append({"kind": "correspondence", "what": "constructor outcome differs from the model",
                               "case": c, "implementation": cres[i],
                               "model": model_alone_case(chk, lambda d, c=c: ctor_model_fn(c, d)[0])})
    bg.shutdown()
    failing, problems = coq_compare(chk, "c10_calls", entries, "matches")
    for p in problems:
        chk.broken.append({"kind": "model-evaluation", **p})
    for i in failing[:20]:
        g, c = by_cid[i]
        r = results.get(i) or constructions.get(g["gid"])
        if known_match(g, c, r or {}):
            continue
        chk.broken.append({"kind": "correspondence", "what": "implementation outcome differs from the model's",
                           "group": {**g, "cases": [c]}, "implementation": r,
                           "model": model_alone_case(chk, lambda d, g=g, c=c: model_fn(g, c, d))})
    chk.count("model_disagreements", len(failing))
    timings["coq_calls"] = round(time.time() - t0, 1)
    chk.extra["searcher"] = "the single-fault enumeration above is the searcher (always run)"

    # tie to the source by regeneration: the listed definitions are re-translated from /repo by py2coq on
    # every run and PROVED equal to the hand models (coq/props/TIE.v), plus a translator self-check
    from props._tie import run_tie
    run_tie(chk, ['variables', 'index_participants', 'validate', 'problem', 'glue'])


def replay(chk: Check, payload):
    g = payload.get("group")
    if not g:
        print("replay: no concrete input in this file (broken obligation):", json.dumps(payload.get("broken"), indent=1)[:3000])
        return 1
    g = dict(g)
    g["gid"] = 0
    for i, c in enumerate(g["cases"]):
        c["cid"] = i
    results, constructions, crashes = run_groups(chk, [g], workers=1)
    bad = 0
    if crashes:
        print("process died:", crashes)
        bad = 1
    for c in g["cases"]:
        r = results.get(c["cid"]) or constructions.get(0)
        print("case", c["label"], "->", json.dumps(r))
        print("model:", model_alone_case(chk, lambda d, g=g, c=c: model_fn(g, c, d)))
        if r and r.get("outcome") != "skip" and "cls" not in (constructions.get(0) or {}):
            ok, why, failure, is_violation = judge(chk, g, c, r)
            print("consistent:", ok, why)
            if failure and not known_match(g, c, r):
                print("FAILS:", failure)
                bad = 1
    return bad
