"""C01G -- correspondence between the REAL evaluate kernels and the abstract kernel model G
(coq/model/Kernel.v), on raw arrays.

    run_kernel_correspondence(chk)      called from tools/props/C01.py, C02.py, C03.py

For every swept (assignment, formats, sizes, inputs):
  * the REAL first iteration graph (`best_algorithm(desugar_assignment(..), formats)`, i.e. what
    `generate_module_tensora` compiles) is dumped 1:1 into a `graph Z` term,
  * the real evaluate kernel (LLVM) is run and its RAW output (dims, ordering, pos, crd, vals --
    explicit zeros included, scratch value(s) behind the last leaf position ignored) is written
    as a `Storage.tensor Z` term,
  * inside Coq (vm_compute) `encode (G graph inputs)` must be EXACTLY that tensor
    (`Kernel.kcase_ok`); only the failing indexes are printed.

G is proved (coq/props/C01G.v) to compute the loop-nest denotation of the graph, to produce a
well-formed stored tensor, to store no coordinate without structural support and to have a
value-independent structure; so a disagreement is a concrete input on which the real kernel
violates C01 (abstraction differs), C02 (ill-formed arrays) or C03 (an extra stored coordinate).
The classification is done on the decoded arrays; a disagreement that is none of these (the model
itself is wrong about a representation detail) is reported as a broken correspondence.
"""
from __future__ import annotations

import json
import os
import re
import subprocess
import time
from concurrent.futures import ThreadPoolExecutor
from fractions import Fraction
from math import lcm
from pathlib import Path

from harness import sweep
from vlib.core import BUILD, GUARD, PY, VERIF, impl_env

WORKER = str(VERIF / "tools" / "harness" / "c01g_worker.py")
CORPUS = VERIF / "corpus" / "C01G"
TYPED_REFUSALS = ("DiagonalAccessError", "NoKernelFoundError", "BroadcastTargetIndexError")
NOT_IMPLEMENTED = "NotImplementedError@iteration_graph/outputs/_append.py:next_output"

LATTICE = [
    "a(i) = (b(i) + c(i)) * d(i) + e(i)",
    "a(i) = (b(i) + c(i)) * d(i)",
    "a(i) = b(i) * c(i) + d(i) * e(i)",
    "a(i) = (b(i) + c(i)) * (d(i) + e(i))",
    "a(i) = b(i) * (c(i) + d(i) * e(i))",
    "a() = (b(i) + c(i)) * d(i)",
]
EXTRA = [
    # written-flag / explicit-zero shapes
    "a(i,j) = b(i,j) * c(j)",
    "a(i,j) = b(i) * c(j)",
    "a(i,j) = b(i,k) * c(k,j)",
    "a(i) = 0 * b(i)",
    "a(i) = b(i) * 0",
    "a(i) = b(i) * 0.0 + c(i)",
    "a(i,j) = b(i,j) + c(j,i)",
    "a(i,j,k) = b(i,j,k) * c(k)",
    "a(i,j) = b(i,j,k) * c(j,k)",
    "a(i,j) = b(i,k) * c(k,j) + d(i,j)",
    "a(i,j) = b(j) + c(i,j)",
    "a(i) = b(i,j) * c(j) - d(i)",
]


# explicit format assignments: a compressed output level iterated by a DENSE node (inputs dense or
# absent at that index) above a place where a sparse input can be absent -- there the terminal is
# reached with an expression exhausted to Integer(0) and must not raise the written flags
FLAGS = [
    ("a(i,j) = b(i,j)", [{"a": "sd", "b": "ds"}, {"a": "ss", "b": "ds"}, {"a": "sd", "b": "d1s0"}, {"a": "s1d0", "b": "ds"},
                         {"a": "s1s0", "b": "ds"}]),
    ("a(i,j) = b(i,j) * c(j)", [{"a": "sd", "b": "ds", "c": "s"}, {"a": "ss", "b": "dd", "c": "s"},
                                {"a": "sd", "b": "dd", "c": "s"}]),
    ("a(i,j) = b(i) * c(j)", [{"a": "sd", "b": "d", "c": "s"}, {"a": "ss", "b": "d", "c": "s"}, {"a": "ds", "b": "s", "c": "d"}]),
    ("a(i,j,k) = b(i,j,k)", [{"a": "sds", "b": "dds"}, {"a": "ssd", "b": "dds"}, {"a": "dsd", "b": "dds"},
                             {"a": "sdd", "b": "dss"}, {"a": "d1s2d0", "b": "d1d2s0"}]),
    ("a(i,j) = b(i,j) + c(i,j)", [{"a": "sd", "b": "ds", "c": "ds"}, {"a": "ss", "b": "ds", "c": "dd"}]),
    ("a(i) = b(i,j) * c(j)", [{"a": "s", "b": "ds", "c": "d"}, {"a": "s", "b": "ds", "c": "s"}, {"a": "s", "b": "dd", "c": "s"}]),
    ("a(i,j) = b(i,k) * c(k,j)", [{"a": "sd", "b": "ds", "c": "dd"}, {"a": "sd", "b": "ds", "c": "sd"},
                                  {"a": "dd", "b": "ds", "c": "ds"}, {"a": "d1d0", "b": "ds", "c": "ds"}]),
    ("a(i) = b(i) * c(i)", [{"a": "s", "b": "d", "c": "s"}]),
]


# explicit format assignments that fill >= 2 dense output layers through ONE bucket (a contraction or
# a later output layer is iterated outside them); run with non-square sizes so that the raveled
# bucket offsets are exercised
BUCKETS = [
    ("a(i,j) = b(i,k) * c(k,j)", [{"a": "dd", "b": "d1d0", "c": "ds"}, {"a": "dd", "b": "d1s0", "c": "dd"},
                                  {"a": "d1d0", "b": "ds", "c": "ds"}, {"a": "dd", "b": "d1d0", "c": "ss"}]),
    ("a(i,j) = b(j,i)", [{"a": "dd", "b": "ds"}, {"a": "dd", "b": "ss"}, {"a": "d1d0", "b": "s1s0"}]),
    ("a(i,j) = b(i,j,k) * c(k)", [{"a": "dd", "b": "d1d2d0", "c": "s"}, {"a": "dd", "b": "d2d0d1", "c": "d"}]),
    ("a(i,j,k) = b(k,i,j)", [{"a": "ddd", "b": "dds"}, {"a": "ddd", "b": "d0s2d1"}]),
    ("a(i,j,k) = b(j,k,i)", [{"a": "ddd", "b": "d1d2s0"}, {"a": "ddd", "b": "dsd"}]),
    ("a(i,j) = b(i,k) * c(j,k)", [{"a": "dd", "b": "d1s0", "c": "dd"}, {"a": "dd", "b": "d1d0", "c": "s1s0"}]),
]


# ------------------------------------------------------------------------------------------------
# running the implementation
# ------------------------------------------------------------------------------------------------
def _work(chk) -> Path:
    w = BUILD / "c01g" / f"run_{chk.prop}_p{os.getpid()}"
    w.mkdir(parents=True, exist_ok=True)
    return w


def _run_worker(work: Path, cmd: str, job: dict, name: str, timeout: int = 900):
    inp, outp = work / f"{name}.in.json", work / f"{name}.out.json"
    inp.write_text(json.dumps(job))
    if outp.exists():
        outp.unlink()
    try:
        p = subprocess.run([PY, "-B", WORKER, cmd, str(inp), str(outp)], env=impl_env(), cwd=str(VERIF),
                           capture_output=True, text=True, timeout=timeout)
        return p.returncode, p.stderr, outp
    except subprocess.TimeoutExpired:
        return 124, "timeout", outp


def _eval_shard(work: Path, shard_id: int, cases: list[dict], per_case_timeout: int):
    """Run cases in worker subprocesses; a crash / hang is attributed to the running case and the
    rest of the shard continues in a fresh process.  -> (results by id, crashes)"""
    results, crashes = {}, []
    todo = list(cases)
    attempt = 0
    while todo:
        attempt += 1
        name = f"shard{shard_id}_{attempt}"
        inp, outp, prog = work / f"{name}.in.json", work / f"{name}.out.jsonl", work / f"{name}.progress"
        for f in (outp, prog):
            if f.exists():
                f.unlink()
        inp.write_text(json.dumps({"cases": todo, "per_case_timeout": per_case_timeout}))
        budget = 120 + per_case_timeout * 2 + len(todo) * 3
        try:
            # every other shard runs its kernels with initial capacity 1 (hook): what is stored does not depend on
            # the capacity (G knows nothing about it), so the comparison is the same and the growth paths execute
            p = subprocess.run([PY, "-B", WORKER, "run", str(inp), str(outp), str(prog)],
                               env=impl_env({GUARD: "1"} if shard_id % 2 == 1 else None),
                               cwd=str(VERIF), capture_output=True, text=True, timeout=budget)
            rc, err = p.returncode, p.stderr
        except subprocess.TimeoutExpired as e:
            rc, err = 124, "shard timeout " + str((e.stderr or b"")[-400:])
        if outp.exists():
            for line in outp.read_text().splitlines():
                try:
                    r = json.loads(line)
                    results[r["id"]] = r
                except ValueError:
                    pass
        done = [c for c in todo if c["id"] in results]
        rest = [c for c in todo if c["id"] not in results]
        if not rest:
            break
        # the first case without a result is the one that was running
        crashes.append((rest[0], rc, (err or "")[-600:]))
        todo = rest[1:]
        if attempt > 6:
            for c in todo:
                crashes.append((c, rc, "not run: too many crashes in this shard"))
            break
        del done
    return results, crashes


def _run_cases(work: Path, cases: list[dict], workers: int, per_case_timeout: int):
    # keep the cases of one problem together (the kernel is compiled once per process)
    n = max(1, min(workers, len(cases) // 20 or 1))
    size = (len(cases) + n - 1) // n
    shards = [cases[i:i + size] for i in range(0, len(cases), size)]
    results, crashes = {}, []
    with ThreadPoolExecutor(max_workers=workers) as ex:
        for r, c in ex.map(lambda t: _eval_shard(work, t[0], t[1], per_case_timeout), enumerate(shards)):
            results.update(r)
            crashes += c
    return results, crashes


# ------------------------------------------------------------------------------------------------
# Coq terms
# ------------------------------------------------------------------------------------------------
class Names:
    """every distinct string literal is defined once (parsing strings is what costs time in coqc)"""

    def __init__(self):
        self.tab: dict[str, str] = {}

    def s(self, text: str) -> str:
        if text not in self.tab:
            self.tab[text] = f"s{len(self.tab)}"
        return self.tab[text]

    def defs(self) -> str:
        return "".join(f'Definition {v} : string := "{k}"%string.\n' for k, v in self.tab.items())


def _cz(n: int) -> str:
    return f"({n})%Z" if n < 0 else f"{n}%Z"


def float_literals(g) -> list[str]:
    out = []

    def e_(e):
        if e[0] == "float":
            out.append(e[1])
        elif e[0] in "+*":
            e_(e[1])
            e_(e[2])

    def g_(x):
        if x[0] == "T":
            e_(x[1])
        elif x[0] == "I":
            g_(x[3])
        else:
            for t in x[1]:
                g_(t)

    g_(g)
    return out


def graph_scale(g) -> int:
    """1 when every float literal is integral; otherwise the factor that makes them integral (the
    case is then compared on structure only)."""
    s = 1
    for f in float_literals(g):
        s = lcm(s, Fraction(f).denominator)
    return s


def coq_iexpr(e, nm: Names, scale: int) -> str:
    k = e[0]
    if k == "int":
        return f"(IInt {_cz(int(e[1]))})"
    if k == "float":
        return f"(IFloat {_cz(int(Fraction(e[1]) * scale))})"
    if k == "t":
        modes = "[" + "; ".join("MDense" if m == "d" else "MCompressed" for m in e[4]) + "]"
        idx = "[" + "; ".join(nm.s(i) for i in e[3]) + "]"
        return f"(ITensor {nm.s(e[1])} {nm.s(e[2])} {idx} {modes})"
    return f"({'IAdd' if k == '+' else 'IMul'} {coq_iexpr(e[1], nm, scale)} {coq_iexpr(e[2], nm, scale)})"


def coq_graph(g, nm: Names, scale: int) -> str:
    k = g[0]
    if k == "T":
        return f"(GTerminal {coq_iexpr(g[1], nm, scale)})"
    if k == "I":
        out = "None" if g[2] is None else f"(Some {int(g[2])}%nat)"
        return f"(GIter {nm.s(g[1])} {out} {coq_graph(g[3], nm, scale)})"
    return "(GSum [" + "; ".join(coq_graph(t, nm, scale) for t in g[1]) + "])"


def integral(r: dict) -> bool:
    import math
    return all(math.isfinite(float(v)) and float(v) == int(v) for v in r["vals"])


def coq_case(case: dict, res: dict, gname: str, nm: Names, scale: int) -> str | None:
    prob = res["problem"]
    out = prob["out"]
    ins = "[" + "; ".join(f"({nm.s(n)}, {sweep.coq_tensor_Z(r)})" for n, r in sorted(res["raw_in"].items())) + "]"
    sizes = "[" + "; ".join(f"({nm.s(k)}, {_cz(v)})" for k, v in sorted(case["sizes"].items())) + "]"
    oidx = "[" + "; ".join(nm.s(i) for i in out["idx"]) + "]"
    omodes = "[" + "; ".join("MDense" if m == "d" else "MCompressed" for m in out["modes"]) + "]"
    oord = sweep.natlist(out["ordering"])
    values = scale == 1
    if res["status"] == "ok":
        real = dict(res["out"])
        if not values or not integral(real):
            values = False
            real["vals"] = [0] * len(real["vals"])
        real_t = f"(Some {sweep.coq_tensor_Z(real)})"
    else:
        real_t = "None"
    return (f"(mkCase {gname} {ins} {sizes} {oidx} {omodes} {oord} {real_t} "
            f"{'true' if values else 'false'})")


HEADER = ("From Coq Require Import ZArith List String.\n"
          "From TV Require Import spec.Storage spec.Spec model.Exhaust model.DesugarSemGraph model.Kernel "
          "proofs.KernelSound proofs.KernelTheorems.\n"
          "Import ListNotations.\nOpen Scope Z_scope.\n")

FLAT = ("Definition flat_level (l : level) : list Z * list Z := match l with LDense => ([-1], []) "
        "| LCompressed p c => (p, c) end.\n"
        "Definition flat (t : tensor Z) := (dims t, map Z.of_nat (ordering t), map flat_level (levels t), vals t).\n")


def shard_text(rows: list[tuple[dict, dict]]) -> tuple[str, list[int]]:
    """rows: (case, result) with a graph.  -> (file text, ids in order)"""
    nm = Names()
    gdefs, gnames, body, ids, tgts = [], {}, [], [], []
    for case, res in rows:
        prob = res["problem"]
        key = json.dumps(prob["graph"])
        scale = graph_scale(prob["graph"])
        if key not in gnames:
            gnames[key] = f"g{len(gnames)}"
            gdefs.append(f"Definition {gnames[key]} : graph Z := {coq_graph(prob['graph'], nm, scale)}.\n")
        body.append(coq_case(case, res, gnames[key], nm, scale))
        tgts.append("[" + "; ".join(nm.s(i) for i in prob["target_idx"]) + "]")
        ids.append(case["id"])
    text = (HEADER + nm.defs() + "".join(gdefs)
            + "Definition cases : list kcase :=\n [" + ";\n  ".join(body) + "].\n"
            + "Definition tgts : list (list string) :=\n [" + "; ".join(tgts) + "].\n"
            + "Definition sides := map kcase_side (combine cases tgts).\n"
            + "Eval vm_compute in (Exhaust.false_positions (map kcase_ok cases), "
              "Exhaust.false_positions (map fst sides), Exhaust.false_positions (map snd sides)).\n")
    return text, ids


def parse_nat_lists(out: str) -> list[list[int]]:
    body = out.split("=", 1)[1] if "=" in out else out
    body = body.rsplit("\n     :", 1)[0]
    return [[int(x) for x in re.findall(r"\d+", m)] for m in re.findall(r"\[([^\[\]]*)\]", body)]


def parse_nat_list(out: str) -> list[int]:
    ls = parse_nat_lists(out)
    return ls[0] if ls else []


def parse_flat(out: str):
    """the printed value of `flat t` paired with booleans -> nested Python lists"""
    body = out.split("=", 1)[1]
    body = body.rsplit("\n     :", 1)[0]
    body = re.sub(r"%[A-Za-z]+", "", body)
    body = body.replace("(", "[").replace(")", "]").replace(";", ",")
    return json.loads(body)


def model_alone(chk, case: dict, res: dict, tag: str):
    """evaluate the model on one case; -> (raw-like dict of the model's output, sanity, supported)"""
    nm = Names()
    prob = res["problem"]
    scale = graph_scale(prob["graph"])
    g = coq_graph(prob["graph"], nm, scale)
    row = coq_case(case, res, "g0", nm, scale)
    text = (HEADER + FLAT + nm.defs() + f"Definition g0 : graph Z := {g}.\nDefinition c : kcase := {row}.\n"
            "Eval vm_compute in (let (m, o) := model_out c in (flat m, o, supported (cfg_of c) (c_graph c) 0)).\n")
    ok, out = chk.coq_eval(f"c01g_p{os.getpid()}_{tag}", text)
    if not ok:
        return None, None, None, out[-800:]
    try:
        dims, ordering, levels, vals, sane, supp = parse_flat(out)   # left-nested pairs print flat
        modes = "".join("d" if lv[0] == [-1] and lv[1] == [] else "s" for lv in levels)
        raw = {"dims": dims, "ordering": ordering, "modes": modes,
               "indices": [[] if m == "d" else [lv[0], lv[1]] for m, lv in zip(modes, levels)], "vals": vals,
               "values_scaled_by": scale}
        return raw, sane, supp, out.strip()[-600:]
    except Exception as e:  # noqa: BLE001
        return None, None, None, f"{type(e).__name__}: {out[-600:]}"


def models_for(chk, rows: list[tuple[dict, dict]], tag: str) -> list:
    """evaluate the model on many cases in one Coq file; -> per case (raw-like dict | None, sanity, supported)"""
    if not rows:
        return []
    nm = Names()
    gdefs, gnames, body, scales = [], {}, [], []
    for case, res in rows:
        prob = res["problem"]
        key = json.dumps(prob["graph"])
        scale = graph_scale(prob["graph"])
        scales.append(scale)
        if key not in gnames:
            gnames[key] = f"g{len(gnames)}"
            gdefs.append(f"Definition {gnames[key]} : graph Z := {coq_graph(prob['graph'], nm, scale)}.\n")
        body.append(coq_case(case, res, gnames[key], nm, scale))
    text = (HEADER + FLAT + nm.defs() + "".join(gdefs)
            + "Definition cases : list kcase :=\n [" + ";\n  ".join(body) + "].\n"
            + "Eval vm_compute in (map (fun c => let (m, o) := model_out c in "
              "(flat m, o, supported (cfg_of c) (c_graph c) 0)) cases).\n")
    ok, out = chk.coq_eval(f"c01g_p{os.getpid()}_{tag}", text)
    if not ok:
        return [(None, None, None)] * len(rows)
    try:
        parsed = parse_flat(out)
    except Exception:  # noqa: BLE001
        return [(None, None, None)] * len(rows)
    res_out = []
    for item, scale in zip(parsed, scales):
        try:
            dims, ordering, levels, vals, sane, supp = item
            modes = "".join("d" if lv[0] == [-1] and lv[1] == [] else "s" for lv in levels)
            raw = {"dims": dims, "ordering": ordering, "modes": modes,
                   "indices": [[] if m == "d" else [lv[0], lv[1]] for m, lv in zip(modes, levels)], "vals": vals,
                   "values_scaled_by": scale}
            res_out.append((raw, sane, supp))
        except Exception:  # noqa: BLE001
            res_out.append((None, None, None))
    return res_out


# ------------------------------------------------------------------------------------------------
# classification of a disagreement
# ------------------------------------------------------------------------------------------------
def raw_wf(r: dict) -> bool:
    """Storage.wf_tensorb false, in Python (only used to classify a disagreement)."""
    try:
        n = 1
        ldims = [r["dims"][d] for d in r["ordering"]]
        for m, ix, d in zip(r["modes"], r["indices"], ldims):
            if m == "d":
                n *= d
            else:
                pos, crd = ix
                if len(pos) != n + 1 or pos[0] != 0 or pos[-1] != len(crd):
                    return False
                for p in range(n):
                    seg = crd[pos[p]:pos[p + 1]]
                    if pos[p] > pos[p + 1] or any(a >= b for a, b in zip(seg, seg[1:])):
                        return False
                if any(c < 0 or c >= d for c in crd):
                    return False
                n = len(crd)
        return n <= len(r["vals"])
    except Exception:  # noqa: BLE001
        return False


def stored_prefixes(r: dict) -> set:
    """(level, level-order prefix) stored by the compressed levels"""
    out = set()
    ldims = [r["dims"][d] for d in r["ordering"]]

    def rec(level, pos, prefix):
        if level == len(ldims):
            return
        if r["modes"][level] == "d":
            for i in range(ldims[level]):
                rec(level + 1, pos * ldims[level] + i, prefix + (i,))
        else:
            p, c = r["indices"][level]
            for q in range(p[pos], p[pos + 1]):
                out.add((level, prefix + (c[q],)))
                rec(level + 1, q, prefix + (c[q],))

    rec(0, 0, ())
    return out


def classify(real: dict, model: dict) -> str:
    """which property does the real output violate, given that the model's output is right?"""
    if not raw_wf(real):
        return "C02"
    try:
        dr = {k: sum(v) for k, v in sweep.decode(real).items()}
        dm = {k: sum(v) for k, v in sweep.decode(model).items()}
    except Exception:  # noqa: BLE001
        return "C02"
    keys = set(dr) | set(dm)
    if model.get("values_scaled_by", 1) == 1 and any(dr.get(k, 0) != dm.get(k, 0) for k in keys):
        return "C01"
    if real["dims"] != model["dims"]:
        return "C01"
    if stored_prefixes(real) - stored_prefixes(model):
        return "C03"
    if real["ordering"] != model["ordering"] or real["modes"] != model["modes"]:
        return "C02"
    return "model"   # the real output is a legitimate variant (e.g. stores fewer explicit zeros)


# ------------------------------------------------------------------------------------------------
# the stage
# ------------------------------------------------------------------------------------------------
def problems_for(chk, thorough: bool) -> list[dict]:
    cap_t = 14 if thorough else 4
    probs = []
    for t in sweep.TEMPLATES + EXTRA:
        probs.append({"assignment": t, "cap": cap_t, "nsizes": 3 if thorough else 1, "ninputs": 3, "tag": "template"})
    for t, fms in FLAGS:
        probs.append({"assignment": t, "cap": 1, "nsizes": 3 if thorough else 2, "ninputs": 3, "tag": "flags",
                      "formats": fms, "cycles": False})
    for t, fms in BUCKETS:
        probs.append({"assignment": t, "cap": 1, "nsizes": 4 if thorough else 3, "ninputs": 2, "tag": "buckets",
                      "formats": fms, "cycles": False, "sizes_set": [1, 2, 3]})
    for t in search_assignments(chk.rng, 70 if thorough else 14):
        probs.append({"assignment": t, "cap": 6 if thorough else 3, "nsizes": 2, "ninputs": 3 if thorough else 2,
                      "tag": "search", "sizes_set": [1, 2, 3], "cycles": False})
    for t in LATTICE:
        probs.append({"assignment": t, "cap": 24 if thorough else 6, "nsizes": 2 if thorough else 1,
                      "ninputs": 6 if thorough else 3, "tag": "lattice", "sizes_set": [2, 3, 4], "prefer_sparse": True})
    return probs


SEARCH_VECTORS = [("t", "b", ("i",)), ("t", "c", ("i",)), ("t", "d", ("i",)), ("t", "e", ("i",)), ("int", 0), ("int", 2),
                  ("float", "0.0"), ("t", "b", ("i",))]
SEARCH_MATRICES = [("t", "b", ("i", "j")), ("t", "c", ("j",)), ("t", "d", ("i",)), ("t", "e", ("i", "j")), ("int", 0),
                   ("int", 3), ("t", "f", ("j", "i"))]


def search_assignments(rng, n: int) -> list[str]:
    """random expression trees (2..5 leaves, + - *) over sparse-able vectors / matrices and the literals
    0, 0.0, 2, 3 (the literals steer the exhaust / is_sparse / Integer(0) paths), with a random admissible
    target (contractions included)"""
    from harness import c01_spec as S

    out, seen, tries = [], set(), 0
    while len(out) < n and tries < 50 * n:
        tries += 1
        pool = SEARCH_VECTORS if rng.random() < 0.5 else SEARCH_MATRICES
        e = S.random_expr(rng, rng.choice([2, 3, 3, 4, 4, 5]), pool)
        if not any(l[0] == "t" for l in S.leaves(e)):
            continue
        try:
            tg = rng.choice(S.targets_for(e))
        except Exception:  # noqa: BLE001
            continue
        text = S.show_assignment(("a", tg, e))
        if text not in seen:
            seen.add(text)
            out.append(text)
    return out


def load_corpus() -> list[dict]:
    out = []
    if CORPUS.exists():
        for f in sorted(CORPUS.glob("*.json")):
            try:
                d = json.loads(f.read_text())
            except ValueError:
                continue
            for c in d.get("cases", [d]):
                if "assignment" in c:
                    c = dict(c)
                    c["corpus"] = f.name
                    out.append(c)
    return out


def run_kernel_correspondence(chk, prop: str | None = None, budget_cases: int | None = None) -> dict:
    """Returns counters.  `prop`: the property on whose behalf disagreements are reported
    (default: chk.prop; "C01G" or None-with-unknown-prop reports every class)."""
    prop = prop or chk.prop
    thorough = chk.tier == "thorough"
    t0 = time.time()
    work = _work(chk)
    chk.trusted += [
        "hand model coq/model/Kernel.v (abstract kernel model G + encode) tied to /repo by exact raw-array "
        "correspondence with the real LLVM evaluate kernels on every run (tools/props/_c01_kernel.py)",
        "graph / tensor term printers of tools/props/_c01_kernel.py and tools/harness/c01g_worker.py",
    ]
    ok = chk.coq_props("props/C01G.v")
    if not ok:
        return {"built": False}
    rng = chk.rng
    rc, err, outp = _run_worker(work, "plan", {"seed": rng.randrange(2 ** 31), "problems": problems_for(chk, thorough)}, "plan")
    if rc != 0 or not outp.exists():
        chk.broken.append({"kind": "harness", "stage": "C01G.plan", "error": err[-1500:]})
        return {"built": True}
    planned = [c for c in json.loads(outp.read_text()) if "plan_error" not in c]
    corpus = load_corpus()
    cases = []
    for i, c in enumerate(corpus):
        c = dict(c)
        c["id"] = 10 ** 7 + i
        cases.append(c)
    if budget_cases:
        planned = planned[:budget_cases]
    cases += planned
    chk.count("C01G.cases_planned", len(cases))
    results, crashes = _run_cases(work, cases, 8, 60 if thorough else 30)
    chk.note(f"C01G: {len(results)} kernel runs after {time.time() - t0:.0f}s")
    for c, rc_, tail in crashes[:3]:
        chk.violation("the real kernel crashed or hung (found while running the kernel-model correspondence)",
                      {"input": {k: c.get(k) for k in ("assignment", "formats", "sizes", "inputs")}, "exit": rc_,
                       "stderr_tail": tail})
    by_id = {c["id"]: c for c in cases}
    rows = []
    early_bad = []
    for cid, res in sorted(results.items()):
        case = by_id[cid]
        if res.get("status") == "harness":
            chk.broken.append({"kind": "harness", "stage": "C01G.run", "case": case.get("assignment"), "error": res["out"][-600:]})
            continue
        prob = res.get("problem", {})
        if "graph" not in prob:
            chk.count("C01G.skipped:" + str(prob.get("refused") or prob.get("error")))
            continue
        if res["status"] == "error":
            if res["out"] == NOT_IMPLEMENTED:
                chk.count("C01G.generator_refused_NotImplemented")
            elif res["out"].startswith(TYPED_REFUSALS):
                chk.count("C01G.skipped:" + res["out"].split("@")[0])
                continue
            else:
                chk.count("C01G.skipped_exception:" + res["out"])
                continue
        if (res["status"] == "ok" and graph_scale(prob["graph"]) == 1 and not integral(res["out"])):
            # inputs and literals are integers, so every value G computes is an integer: a NaN / inf /
            # fractional value in the real output is a disagreement without asking Coq
            early_bad.append((case, res))
            continue
        rows.append((case, res))
    # shards
    per = 300
    files = []
    for lo in range(0, len(rows), per):
        text, ids = shard_text(rows[lo:lo + per])
        files.append((lo, text))
    with ThreadPoolExecutor(max_workers=6) as ex:
        outs = list(ex.map(lambda t: (t[0], chk.coq_eval(f"c01g_p{os.getpid()}_{chk.prop}_s{t[0]}", t[1])), files))
    bad, not_ok, outside = [], [], 0
    for lo, (okc, out) in outs:
        if not okc:
            chk.broken.append({"kind": "correspondence", "stage": "C01G.coq", "coq_error": out[-1500:]})
            continue
        lists = parse_nat_lists(out)
        if len(lists) != 3:
            chk.broken.append({"kind": "correspondence", "stage": "C01G.coq", "what": "unexpected output", "out": out[-800:]})
            continue
        for i in lists[0]:
            bad.append(rows[lo + i])
        for i in lists[1]:
            not_ok.append(rows[lo + i])
        outside += len(lists[2])
    bad = early_bad + bad
    chk.count("C01G.side_conditions_hold(graph_okb,support_okb)", len(rows) - len(not_ok))
    chk.count("C01G.output_layers_all_appended", len(rows) - outside)
    chk.count("C01G.with_bucket_over_dense_layers", outside)
    for case, res in not_ok[:3]:
        # the theorems about G do not apply to this real graph: a broken tie, not a violation
        if res["status"] == "ok":
            chk.broken.append({"kind": "certificate", "stage": "C01G.graph_okb",
                               "what": "the side conditions of the C01G theorems (graph_okb) do not hold on a real graph / inputs",
                               "assignment": case["assignment"], "formats": case["formats"], "graph": res["problem"]["graph"]})
    chk.note(f"C01G: {len(rows)} cases compared inside Coq after {time.time() - t0:.0f}s; {len(bad)} disagree")
    nontrivial = 0
    for case, res in rows:
        stored = res["status"] == "ok" and any(float(v) != 0 for v in res["out"]["vals"])
        nontrivial += stored
        chk.case(("C01G", case["assignment"], json.dumps(case["formats"], sort_keys=True),
                  json.dumps(case["sizes"], sort_keys=True), json.dumps(case["inputs"], sort_keys=True)), nontrivial=True)
    chk.count("C01G.cases_compared", len(rows))
    chk.count("C01G.cases_with_nonzero_output", nontrivial)
    chk.count("C01G.problems", len({(c["assignment"], json.dumps(c["formats"], sort_keys=True)) for c, _ in rows}))
    chk.count("C01G.with_sum_node", sum(1 for _, r in rows if '"S"' in json.dumps(r["problem"]["graph"])))
    chk.count("C01G.with_compressed_output", sum(1 for _, r in rows if "s" in r["problem"]["out"]["modes"]))
    chk.count("C01G.structure_only(fractional literal)", sum(1 for _, r in rows if graph_scale(r["problem"]["graph"]) != 1))
    chk.count("C01G.disagreements", len(bad))
    if rows:
        case, res = rows[len(rows) // 2]
        chk.sample({"stage": "C01G", "assignment": case["assignment"], "formats": case["formats"], "sizes": case["sizes"],
                    "graph": res["problem"]["graph"], "raw_output": res["out"]})
    # classify every disagreement (the simplest first).  What each property needs from the tie:
    #   C01: abs(real) = abs(G_out);  C02: the real arrays are well-formed;  C03: the real output stores no
    #   prefix that G_out does not store.  A disagreement of another class (e.g. an extra explicit zero region
    #   seen from C01) does not concern the calling property: it is counted and noted, not alarmed.
    bad.sort(key=lambda cr: (len(json.dumps(cr[0]["inputs"])), len(cr[0]["assignment"])))
    bad = bad[:200]
    models = models_for(chk, bad, f"{chk.prop}_diag")
    reported = 0
    other_notes = 0
    for (case, res), (model, sane, supp) in zip(bad, models):
        inp = {k: case.get(k) for k in ("assignment", "formats", "sizes", "inputs")}
        payload = {"input": inp, "graph": res["problem"]["graph"], "real_status": res["status"],
                   "actual": res["out"], "expected": model, "model_sanity_bit": sane, "model_supported": supp}
        if model is None:
            chk.count("C01G.disagreement_not_diagnosed")
            if reported < 3:
                chk.broken.append({"kind": "correspondence", "stage": "C01G.diagnose", "case": inp})
                reported += 1
            continue
        if res["status"] != "ok" or not supp or not sane:
            chk.count("C01G.disagreement:generator_refusal_or_sanity")
            if reported < 6:
                chk.broken.append({"kind": "correspondence", "stage": "C01G",
                                   "what": "generator refusal / model sanity differs", **payload})
                reported += 1
            continue
        cls = classify(res["out"], model)
        payload["violates"] = cls
        chk.count("C01G.disagreement_class:" + cls)
        if cls == prop or (prop not in ("C01", "C02", "C03") and cls != "model"):
            if reported < 6:
                chk.violation(f"real evaluate kernel differs from the proved kernel model G: violates {cls}", payload)
                reported += 1
        elif prop not in ("C01", "C02", "C03"):
            if reported < 6:
                chk.broken.append({"kind": "correspondence", "stage": "C01G",
                                   "what": "real kernel and abstract kernel model G disagree on a representation detail",
                                   **payload})
                reported += 1
        else:
            other_notes += 1
            if other_notes <= 3:
                chk.note(f"C01G: a disagreement of class {cls} (not {prop}'s concern) on '{case['assignment']}' "
                         f"{json.dumps(case['formats'], sort_keys=True)}")
    for f in (BUILD / "cases").glob(f"c01g_p{os.getpid()}_*"):
        try:
            f.unlink()
        except OSError:
            pass
    import shutil
    shutil.rmtree(work, ignore_errors=True)
    chk.note(f"C01G: done after {time.time() - t0:.0f}s")
    return {"built": True, "compared": len(rows), "disagree": len(bad)}


def replay_kernel(chk, payload) -> int:
    """re-run one stored disagreement"""
    inp = payload.get("input") or {}
    if "assignment" not in inp:
        return 1
    work = _work(chk)
    case = {"id": 0, **inp}
    results, crashes = _eval_shard(work, 0, [case], 60)
    if crashes:
        print("REPLAY C01G: crashed", crashes[0][1])
        return 1
    res = results[0]
    if "graph" not in res.get("problem", {}):
        print("REPLAY C01G: no graph", res.get("problem"))
        return 0
    text, _ = shard_text([(case, res)])
    ok, out = chk.coq_eval(f"c01g_p{os.getpid()}_replay", text)
    bad = parse_nat_list(out) if ok else [0]
    print("REPLAY C01G", inp["assignment"], inp["formats"], "->", "DISAGREE" if bad else "agree")
    return 1 if bad else 0
