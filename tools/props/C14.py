"""C14 — concurrent evaluations behave like sequential ones.

Proof: coq/props/C14.v (theorems about the protocol model coq/model/Concurrency.v: every schedule).
Correspondence: a STRESS run — evidence, not proof.  Programmes of evaluate / tensor_method calls derived from
the seed are run (a) alone: every request in a fresh baseline process that never sees another variant of the
same assignment, (b) from N threads at once (sys.setswitchinterval(1e-6), rounds started at a barrier, a
warm cache for some problems, never-seen problems with fresh tensor names for others, both back ends).  Every
result (raw taco_indices / taco_vals, read immediately and once more after the round) must be identical to
the baseline; the process must exit normally.  A difference or a crash is a VIOLATION whose replay is the
seed and the programme.
"""
from __future__ import annotations

import concurrent.futures as cf
import itertools
import json
import os
import random
import shutil
from pathlib import Path

from vlib.core import BUILD, PY, VERIF, Check, impl_env, sh

WORK = BUILD / "c14"
SCRIPT = VERIF / "tools" / "harness" / "c14_stress.py"

# (assignment template, [variants: (output format, {input: (dims, format)})]); {u} = name suffix
TEMPLATES = [
    ("y{u}(i) = b{u}(i) + (c{u}(i) + d{u}(i))",
     [("d", {"b": ((3,), "d"), "c": ((3,), "d"), "d": ((3,), "d")}),
      ("s", {"b": ((3,), "s"), "c": ((3,), "s"), "d": ((3,), "s")})]),
    ("A{u}(i,j) = B{u}(i,k) * C{u}(k,j)",
     [("dd", {"B": ((3, 4), "ds"), "C": ((4, 3), "dd")}),
      ("dd", {"B": ((3, 4), "dd"), "C": ((4, 3), "dd")})]),
    ("s{u}() = u{u}(i) * v{u}(i)",
     [("", {"u": ((5,), "s"), "v": ((5,), "s")}),
      ("", {"u": ((5,), "d"), "v": ((5,), "d")})]),
    ("o{u}(i) = x{u}(i) + z{u}(i)",
     [("s", {"x": ((5,), "s"), "z": ((5,), "s")}),
      ("d", {"x": ((5,), "s"), "z": ((5,), "d")})]),
    ("w{u}(i) = M{u}(i,j) * v{u}(j)",
     [("d", {"M": ((3, 4), "ds"), "v": ((4,), "d")}),
      ("s", {"M": ((3, 4), "ss"), "v": ((4,), "s")})]),
]
VALUES = [0.1, 0.2, 0.3, 0.7, 1.1, 2.3, 1.0, 5.0]


def make_request(rng: random.Random, rid: int, ti: int, vi: int, suffix: str, backend: str, kind: str) -> dict:
    tmpl, variants = TEMPLATES[ti]
    out_format, ins = variants[vi]
    inputs = {}
    for name, (dims, fmt) in ins.items():
        dok = []
        if ti == 0:
            # values whose sum depends on the association: distinguishes the two back ends (finding K-C06-1)
            base = {"b": 0.1, "c": 0.2, "d": 0.3}[name]
            for i in range(dims[0]):
                dok.append([[i], base * rng.choice([1, 1, 1, 3, 7])])
        else:
            for coord in itertools.product(*[range(d) for d in dims]):
                if rng.random() < 0.6:
                    dok.append([list(coord), rng.choice(VALUES)])
        inputs[name + suffix] = {"format": fmt, "dims": list(dims), "dok": dok}
    return {"id": rid, "kind": kind, "backend": backend, "assignment": tmpl.format(u=suffix),
            "out_format": out_format, "inputs": inputs,
            "variant": [ti, vi, backend], "hot": suffix == "h"}


def make_programme(rng: random.Random, n: int, rounds: int, cffi_fresh: int, cffi_hot: bool) -> dict:
    """n threads x rounds requests.  Round 0 is a burst of never-seen problems (the first `cffi_fresh` threads
    on the cffi back end: concurrent FFI.compile); later rounds mix hot (shared, mostly cached) problems in
    all their variants with never-seen ones; in rounds 1 and 2 all threads call one and the same method."""
    rid = itertools.count()
    uniq = itertools.count()
    threads = [[] for _ in range(n)]
    hot_backends = ["llvm", "llvm", "cffi"] if cffi_hot else ["llvm"]
    same = (0, 0, "llvm")
    for r in range(rounds):
        for i in range(n):
            kind = rng.choice(["evaluate", "evaluate", "method"])
            if r == 0:
                backend = "cffi" if i < cffi_fresh else "llvm"
                ti = rng.randrange(len(TEMPLATES))
                req = make_request(rng, next(rid), ti, rng.randrange(2), f"f{next(uniq)}", backend, kind)
            elif r in (1, 2):
                # every thread calls the SAME compiled method at once, with different inputs
                if i == 0:
                    same = (rng.randrange(len(TEMPLATES)), rng.randrange(2), rng.choice(hot_backends) if r == 2 else "llvm")
                req = make_request(rng, next(rid), same[0], same[1], "h", same[2], "method" if r == 1 else "evaluate")
            elif rng.random() < 0.65:
                ti = rng.randrange(len(TEMPLATES))
                req = make_request(rng, next(rid), ti, rng.randrange(2), "h", rng.choice(hot_backends), kind)
            else:
                ti = rng.randrange(len(TEMPLATES))
                req = make_request(rng, next(rid), ti, rng.randrange(2), f"f{next(uniq)}", "llvm", kind)
            threads[i].append(req)
    # a warm cache for some hot problems: called once, alone, before the threads start
    warm = [make_request(rng, next(rid), ti, 0, "h", "llvm", "evaluate") for ti in rng.sample(range(len(TEMPLATES)), 2)]
    return {"threads": threads, "warm": warm, "switch": 1e-6}


def run_script(mode: str, tag: str, spec: dict, timeout: int) -> tuple[int, dict | None, str]:
    d = WORK / tag
    d.mkdir(parents=True, exist_ok=True)
    sp, op = d / "spec.json", d / "out.json"
    sp.write_text(json.dumps(spec))
    if op.exists():
        op.unlink()
    rc, out, err = sh([PY, "-B", str(SCRIPT), mode, str(sp), str(op)], timeout=timeout, env=impl_env(), cwd=str(VERIF))
    res = None
    if op.exists():
        try:
            res = json.loads(op.read_text())
        except ValueError:
            res = None
    return rc, res, (out + err)[-2000:]


def baseline(tag: str, requests: list[dict], timeout: int) -> tuple[dict, list]:
    """Every request alone: variants of one assignment text (format / back end) never share a process."""
    nworkers = 8
    groups: list[list] = [[] for _ in range(nworkers)]
    rr = itertools.count()
    for q in requests:
        if q["hot"]:
            ti, vi, backend = q["variant"]
            groups[(vi * 2 + (backend == "cffi")) % nworkers].append(q)
        else:
            groups[4 + next(rr) % 4].append(q)
    results: dict = {}
    problems = []
    with cf.ThreadPoolExecutor(max_workers=8) as ex:
        futs = {ex.submit(run_script, "base", f"{tag}_base{w}", {"requests": g}, timeout): w
                for w, g in enumerate(groups) if g}
        for f in cf.as_completed(futs):
            rc, res, log = f.result()
            if rc != 0 or res is None:
                problems.append({"worker": futs[f], "rc": rc, "log": log})
            else:
                results.update(res)
    return results, problems


def check_programme(chk: Check, tag: str, seed_info: dict, prog: dict, timeout: int) -> dict:
    """Runs baseline and the threaded run; records violations. Returns counters."""
    allreq = [q for t in prog["threads"] for q in t]
    base, problems = baseline(tag, allreq, timeout)
    stats = {"requests": len(allreq), "mismatch": 0}
    if problems:
        chk.broken.append({"kind": "harness", "what": "baseline process failed", "detail": problems[:2], **seed_info})
        return stats
    base_errors = {k: v for k, v in base.items() if "error" in v}
    if base_errors:
        # a request that fails alone is not a concurrency matter; it must fail the same way concurrently
        stats["baseline_errors"] = len(base_errors)
    rc, par, log = run_script("par", f"{tag}_par", prog, timeout)
    replay_prog = {"threads": prog["threads"], "warm": prog["warm"], "switch": prog["switch"]}
    if rc != 0 or par is None:
        chk.violation(
            "the process running the threads died or hung (exit status != 0)",
            {"input": {**seed_info, "programme": replay_prog}, "expected": "exit status 0, every result equal to the "
             "sequential one", "actual": {"rc": rc, "log": log}},
        )
        stats["crash"] = 1
        return stats
    if par["notes"]:
        chk.violation(
            "threads did not finish (deadlock / broken barrier)",
            {"input": {**seed_info, "programme": replay_prog}, "expected": "all threads return", "actual": par["notes"]},
        )
        stats["hang"] = 1
        return stats
    bad = []
    for q in allreq:
        k = str(q["id"])
        exp = base.get(k)
        for when in ("now", "later"):
            got = par[when].get(k)
            if when == "later" and got is None and "error" in (par["now"].get(k) or {}):
                continue
            if got != exp:
                bad.append({"request": q, "when": when, "expected": exp, "actual": got})
    stats["mismatch"] = len(bad)
    if bad:
        chk.violation(
            f"a concurrent call returned something else than the same call made alone ({len(bad)} of "
            f"{2 * len(allreq)} reads differ)",
            {"input": {**seed_info, "programme": replay_prog}, "expected": bad[0]["expected"], "actual": bad[0]["actual"],
             "first_differences": bad[:5]},
        )
    return stats


def model_sanity(chk: Check):
    """Run the executable model on random schedules (vm_compute): results of complete runs = sequential."""
    rng = chk.rng
    lines = []
    for _ in range(40):
        n = rng.choice([2, 3, 4])
        progs = []
        for _i in range(n):
            calls = []
            for _c in range(rng.randint(1, 3)):
                be = rng.choice(["Llvm", "Cffi"])
                calls.append("{| c_key := {| k_problem := %d; k_backend := %s |}; c_input := %d |}" % (rng.randint(0, 2), be, rng.randint(0, 9)))
            progs.append("[" + "; ".join(calls) + "]")
        sched = []
        for _s in range(rng.randint(10, 80)):
            if rng.random() < 0.05:
                sched.append("AEvict {| k_problem := %d; k_backend := %s |}" % (rng.randint(0, 2), rng.choice(["Llvm", "Cffi"])))
            else:
                sched.append(f"AThread {rng.randrange(n)}")
        lines.append(f"(([{'; '.join(progs)}]), [{'; '.join(sched)}])")
    text = (
        "From TV Require Import model.Concurrency.\nFrom Coq Require Import List Arith Bool. Import ListNotations.\n"
        "Definition den (k : key) (x : nat) : nat := 100 * k_problem k + 10 * (match k_backend k with Llvm => 1 | Cffi => 2 end) + x.\n"
        "Definition prefixb (a b : list nat) : bool := (length a <=? length b) && forallb (fun p => Nat.eqb (fst p) (snd p)) (combine a b).\n"
        "Definition ok (c : list (list call) * list action) : bool :=\n"
        "  let st := run den (fst c) (snd c) in\n"
        "  forallb (fun i => prefixb (results st i) (sequential_result den (fst c) i) &&\n"
        "                    (negb (complete st) || (length (results st i) =? length (sequential_result den (fst c) i))))\n"
        "          (seq 0 (length (fst c))).\n"
        "Definition cases := [\n" + ";\n".join(lines) + "].\n"
        "Eval vm_compute in (forallb ok cases, length (filter (fun c => complete (run den (fst c) (snd c))) cases)).\n"
    )
    ok, out = chk.coq_eval("c14_model", text, timeout=600)
    flat = " ".join(out.split())
    if not ok or "(true," not in flat:
        chk.broken.append({"kind": "correspondence", "what": "executable model disagrees with its own theorem on random schedules", "output": flat[-800:]})
    else:
        chk.count("model_schedules_run", 40)
        chk.note("model on 40 random schedules: " + flat[:80])


def run(chk: Check):
    chk.rule = (
        "programmes of evaluate/tensor_method requests derived from the seed: N threads x R rounds; round 0 = burst of "
        "never-seen problems (fresh tensor names; some on the cffi back end so that several FFI.compile race), later rounds "
        "= 65% hot problems (5 assignments x 2 format variants x both back ends, partly pre-cached) / 35% never-seen; inputs "
        "random; a case is one request, distinct by (assignment, formats, back end, inputs), compared twice (immediately "
        "and after the round) with the same request made alone in a fresh process"
    )
    chk.trusted += [
        "hand model coq/model/Concurrency.v; atomicity of its steps = GIL + C implementation of functools.lru_cache + "
        "WeakKeyDictionary + llvmlite's global lock + MCJIT + dlopen: ASSUMED by the model",
        "stress correspondence (tools/harness/c14_stress.py) samples schedules: evidence, not proof",
    ]
    chk.extra["partial"] = (
        "theorems quantify over all schedules of the protocol model; the real interleavings (bytecode-level, inside "
        "lru_cache / llvmlite / cffi / dlopen) are only sampled by the stress run"
    )
    chk.coq_props()
    model_sanity(chk)

    if WORK.exists():
        shutil.rmtree(WORK, ignore_errors=True)
    WORK.mkdir(parents=True, exist_ok=True)
    thorough = chk.tier == "thorough"
    plan = []  # (n threads, rounds, cffi_fresh in burst, cffi among hot)
    if thorough:
        for rep in range(2):
            plan += [(2, 200, 2, True), (4, 200, 3, True), (8, 200, 4, rep == 0), (16, 200, 6, rep == 0)]
    else:
        plan += [(2, 20, 2, True), (4, 20, 3, True), (8, 20, 4, False)]
    # corpus first
    cdir = VERIF / "corpus" / "C14"
    jobs = []
    if cdir.is_dir():
        for p in sorted(cdir.glob("*.json")):
            try:
                c = json.loads(p.read_text())
            except ValueError:
                continue
            jobs.append((f"corpus_{p.stem}", {"corpus": p.name}, c["programme"]))
    for idx, (n, rounds, cf_fresh, cf_hot) in enumerate(plan):
        pseed = chk.rng.randrange(1 << 30)
        prog = make_programme(random.Random(pseed), n, rounds, cf_fresh, cf_hot)
        jobs.append((f"p{idx}_n{n}", {"seed": chk.seed, "programme_seed": pseed, "threads": n, "rounds": rounds,
                                      "cffi_fresh": cf_fresh, "cffi_hot": cf_hot}, prog))
    timeout = 3000 if thorough else 900
    # programmes run one after the other (each already uses all cores: threads + baseline workers + gcc)
    with cf.ThreadPoolExecutor(max_workers=2 if not thorough else 3) as ex:
        futs = {ex.submit(check_programme, chk, tag, info, prog, timeout): (tag, info, prog) for tag, info, prog in jobs}
        for f in cf.as_completed(futs):
            tag, info, prog = futs[f]
            st = f.result()
            chk.count("programmes")
            chk.count("requests", st["requests"])
            chk.count("reads_compared", 2 * st["requests"])
            chk.count("mismatching_reads", st.get("mismatch", 0))
            chk.count(f"threads={info.get('threads', 'corpus')}")
            for q in (x for t in prog["threads"] for x in t):
                chk.case((q["assignment"], q["out_format"], q["backend"], q["kind"], json.dumps(q["inputs"], sort_keys=True)),
                         nontrivial=True)
                chk.count("backend=" + q["backend"])
                chk.count("hot" if q["hot"] else "never-seen")
                chk.count("kind=" + q["kind"])
            if prog["threads"] and prog["threads"][0]:
                q = prog["threads"][0][-1]
                chk.sample({"programme": info, "a_request": {k: q[k] for k in ("kind", "backend", "assignment", "out_format")}})
    # tie by regeneration: _porcelain.py, _tensor_method.py, _compile_cffi.py, _compile_llvm.py are dumped statement for
    # statement and followed by an abstract interpreter (coq/model/ConcurrencyApi.v); PROVED on every path: the shared-state
    # steps of a call are exactly the protocol model's step sequence, the lock is held exactly around FFI.compile,
    # TensorMethod.__call__ writes nothing shared, the cache is functools.lru_cache of TensorMethod(problem, backend)
    # (coq/props/TIE_concurrency.v) + self-check against instrumented real calls
    from props._tie import run_tie
    run_tie(chk, ["concurrency"])

    # hammer: unsynchronised phases (one shared compiled method called with per-thread sizes; never-seen problems
    # compiled while cached calls repeat, enough of them for the kernel cache to fill and evict)
    for rep in range(3 if thorough else 1):
        hspec = {"seed": chk.seed * 101 + rep, "threads": 8, "calls": 4000 if thorough else 1200, "builders": 3,
                 "fresh": 400 if thorough else 220, "repeaters": 12, "switch": 1e-6, "timeout": 600 if thorough else 240}
        rc, res, log = run_script("hammer", f"hammer{rep}", hspec, timeout=hspec["timeout"] + 120)
        if res is None:
            chk.violation("the threaded process crashed or hung in the hammer phases (exit status "
                          f"{rc}); alone, the same calls return", {"input": {"hammer": hspec}, "log": log[-1500:]})
            continue
        for k, v in res["counts"].items():
            chk.count("hammer:" + k, v)
        for i in range(res["counts"]["sizes_calls"] // 100 + res["counts"]["fresh_built"]):
            chk.case(("hammer", chk.seed, rep, i), nontrivial=True)
        for a in res["anomalies"][:5]:
            chk.violation("a call made while other threads were inside the library returned something else than the same call alone "
                          f"(hammer phase '{a.get('phase')}')", {"input": {"hammer": hspec}, "anomaly": a})
    if not os.environ.get("C14_KEEP"):
        shutil.rmtree(WORK, ignore_errors=True)


def replay(chk: Check, payload: dict) -> int:
    inp = payload.get("input")
    if inp and "hammer" in inp:
        WORK.mkdir(parents=True, exist_ok=True)
        bad = 0
        for attempt in range(3):
            rc, res, log = run_script("hammer", f"replay_hammer{attempt}", inp["hammer"], timeout=inp["hammer"].get("timeout", 240) + 120)
            print(f"attempt {attempt}: rc={rc} anomalies={None if res is None else len(res['anomalies'])}")
            if res is None or res["anomalies"]:
                bad = 1
                print(json.dumps((res or {}).get("anomalies", [])[:1], indent=1)[:3000])
                break
        shutil.rmtree(WORK, ignore_errors=True)
        return bad
    if not inp or "programme" not in inp:
        print("replay has no programme (see 'broken' in the file)")
        return 1
    WORK.mkdir(parents=True, exist_ok=True)
    before = len(chk.violations)
    rc = 0
    for attempt in range(3):  # a race may need more than one run to show again
        st = check_programme(chk, f"replay{attempt}", {k: v for k, v in inp.items() if k != "programme"}, inp["programme"], 900)
        print(f"attempt {attempt}: {st}")
        if len(chk.violations) > before:
            rc = 1
            break
    shutil.rmtree(WORK, ignore_errors=True)
    for v in chk.violations[before:]:
        print("VIOLATION:", v["what"], "->", v["replay"])
    return rc
