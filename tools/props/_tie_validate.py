"""TIE entry for the regenerated argument validation of kernel calls (auto-discovered by props/_tie.py).
Suggested call: run_tie(chk, ["validate"]) in C10 (beside "variables", "index_participants")."""
TIE_EXTRA = {
    "validate": {
        "gen": ["Deparse.v", "TensorMethod.v"],
        "vo": "proofs/GenValidate_equiv.vo",
        "theorems": ["gen_call_equiv", "gen_init_equiv", "gen_validate_equiv",
                     "gen_validate_ok_implies_consistent", "gen_validate_complete", "gen_validate_refusal"],
        "source": "compile/_tensor_method.py (TensorMethod.__init__ before code generation, __call__ between "
                  "signature.bind and the allocation of the output; + Mode, Format, Problem fields)",
        "model": "coq/model/Validate.v (tm_init, check_arguments, check_indexes, output_dimensions, validate)",
    },
}
