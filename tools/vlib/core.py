"""Shared plumbing for every property check.

A property check is a module tools/props/Cxx.py exposing ``run(chk)`` where ``chk`` is a
:class:`Check`.  The module records obligations (theorems that built), correspondence counters,
samples, violations and known findings on ``chk``; ``chk.finish()`` writes the evidence file, prints
the VIOLATION / KNOWN-FINDING lines and returns the exit code.

Nothing here writes outside /verif (scratch: /verif/build) and nothing reads /tmp.
"""

from __future__ import annotations

import fcntl
import hashlib
import json
import os
import random
import re
import subprocess
import sys
import time
from pathlib import Path

VERIF = Path(__file__).resolve().parents[2]
REPO = Path(os.environ.get("VERIF_REPO", "/repo"))
SRC = REPO / "src"
COQ = VERIF / "coq"
BUILD = VERIF / "build"
PY = "/venv/bin/python"
GUARD = "TENSORA_VERIF_INITIAL_CAPACITY"

FORBIDDEN = re.compile(
    r"\b(Admitted|admit|Axiom|Axioms|Parameter|Parameters|Conjecture|Conjectures|"
    r"Admit Obligations|bypass_check|native_compute)\b|Unset\s+Guard|Unset\s+Positivity|"
    r"Unset\s+Universe\s+Checking|type-in-type|impredicative-set"
)


def impl_env(extra: dict | None = None, hashseed: str = "0") -> dict:
    """Environment for running /repo's code: source tree on PYTHONPATH, pinned hash seed."""
    env = dict(os.environ)
    env["PYTHONPATH"] = f"{SRC}:{VERIF / 'tools'}"
    env["PYTHONHASHSEED"] = hashseed
    env["PYTHONDONTWRITEBYTECODE"] = "1"
    env.pop("PYTHONSTARTUP", None)
    if extra:
        env.update({k: str(v) for k, v in extra.items()})
    return env


def sh(cmd, timeout=600, env=None, cwd=None, input=None):
    """Run a command, capture text output; never raises on failure or timeout."""
    try:
        p = subprocess.run(
            cmd,
            shell=isinstance(cmd, str),
            cwd=cwd,
            env=env,
            input=input,
            capture_output=True,
            text=True,
            timeout=timeout,
        )
        return p.returncode, p.stdout, p.stderr
    except subprocess.TimeoutExpired as e:
        out = e.stdout.decode() if isinstance(e.stdout, bytes) else (e.stdout or "")
        err = e.stderr.decode() if isinstance(e.stderr, bytes) else (e.stderr or "")
        return 124, out, err + f"\n[timeout after {timeout}s]"


class BuildLock:
    def __enter__(self):
        BUILD.mkdir(exist_ok=True)
        self.f = open(BUILD / ".lock", "w")
        fcntl.flock(self.f, fcntl.LOCK_EX)
        return self

    def __exit__(self, *a):
        fcntl.flock(self.f, fcntl.LOCK_UN)
        self.f.close()


def coq_project_setup():
    """(Re)generate _CoqProject and Makefile from the .v files present."""
    files = sorted(
        str(p.relative_to(COQ))
        for p in COQ.rglob("*.v")
        if "cases" not in p.parts and not p.name.startswith(".")
    )
    text = "-Q . TV\n-arg -w -arg -notation-overridden,-deprecated-hint-without-locality,-deprecated-instance-without-locality,-ambiguous-paths,-deprecated-syntactic-definition\n" + "\n".join(files) + "\n"
    proj = COQ / "_CoqProject"
    if not proj.exists() or proj.read_text() != text or not (COQ / "Makefile").exists():
        proj.write_text(text)
        rc, out, err = sh("coq_makefile -f _CoqProject -o Makefile", cwd=COQ, timeout=120)
        if rc != 0:
            raise RuntimeError("coq_makefile failed: " + out + err)


def scan_forbidden() -> list[str]:
    bad = []
    for p in COQ.rglob("*.v"):
        txt = p.read_text(errors="replace")
        # strip comments (non-nested approximation is enough: we forbid the words even in code only)
        # string literals cannot declare anything (Python identifiers such as "inspect.Parameter" occur in regenerated
        # effect programs): blank them first, then comments
        stripped = re.sub(r'"(?:[^"]|"")*"', '""', txt)
        stripped = re.sub(r"\(\*.*?\*\)", "", stripped, flags=re.S)
        for m in FORBIDDEN.finditer(stripped):
            bad.append(f"{p.relative_to(VERIF)}: {m.group(0)}")
    return bad


def parse_assumptions(output: str) -> dict[str, list[str]]:
    """Parse the output of a props file: blocks printed by Print Assumptions, in order."""
    blocks = []
    cur = None
    for line in output.splitlines():
        if line.startswith("Closed under the global context"):
            blocks.append([])
            cur = None
        elif line.startswith("Axioms:"):
            cur = []
            blocks.append(cur)
        elif cur is not None:
            m = re.match(r"^([A-Za-z_][\w.']*)\s*$|^([A-Za-z_][\w.']*)\s*:", line)
            if m:
                cur.append(m.group(1) or m.group(2))
    return blocks


def coq_term_str(s: str) -> str:
    return '"' + s.replace('"', '""') + '"%string'


class Check:
    def __init__(self, prop: str, tier: str, seed: int):
        self.prop = prop
        self.tier = tier
        self.seed = seed
        self.rng = random.Random(f"{prop}:{seed}")
        self.t0 = time.time()
        self.violations: list[dict] = []
        self.known: list[str] = []
        self.info: list[str] = []
        self.obligations: list[dict] = []
        self.samples: list = []
        self.counters: dict = {}
        self.distinct: set = set()
        self.evaluations = 0
        self.trusted: list[str] = []
        self.assumptions: list[str] = []
        self.rule = ""
        self.level = "proof"
        self.extra: dict = {}
        self.checker_cmd = ""
        self.broken: list[dict] = []  # obligations / correspondences that no longer check
        (BUILD / "cases").mkdir(parents=True, exist_ok=True)
        (VERIF / "replays" / prop).mkdir(parents=True, exist_ok=True)

    # ---------------------------------------------------------------- counters / samples
    def count(self, key: str, n: int = 1):
        self.counters[key] = self.counters.get(key, 0) + n

    def case(self, canonical, nontrivial: bool = True):
        """Record one explored case; `canonical` is hashed for the distinct count."""
        self.evaluations += 1
        if nontrivial:
            h = hashlib.sha1(repr(canonical).encode()).hexdigest()[:16]
            self.distinct.add(h)

    def sample(self, s, limit: int = 8):
        if len(self.samples) < limit:
            self.samples.append(s)

    # ---------------------------------------------------------------- Coq
    def coq_make(self, targets: list[str], timeout: int = 1500) -> tuple[bool, str]:
        with BuildLock():
            coq_project_setup()
            cmd = ["timeout", str(timeout), "make", "-j8", "-k"] + targets
            rc, out, err = sh(cmd, cwd=COQ, timeout=timeout + 30)
        return rc == 0, out + err

    def coq_props(self, props_file: str | None = None, deps_timeout: int = 1500) -> bool:
        """Build coq/props/<prop>.v (and dependencies); count theorems; collect assumptions.

        Returns True when every theorem of the property file is accepted by coqc."""
        props_file = props_file or f"props/{self.prop}.v"
        path = COQ / props_file
        text = path.read_text()
        theorems = re.findall(r"^\s*(?:Theorem|Corollary)\s+([\w']+)", text, flags=re.M)
        bad = scan_forbidden()
        if bad:
            self.broken.append({"kind": "forbidden-construct", "where": bad[:10]})
        ok, log = self.coq_make([props_file + "o"], timeout=deps_timeout)
        out = ""
        if ok:
            # re-run the (small) statement file itself to capture Print Assumptions
            (BUILD / "props_out").mkdir(parents=True, exist_ok=True)
            outvo = BUILD / "props_out" / (Path(props_file).stem + ".vo")
            rc, out, err = sh(
                ["timeout", "600", "coqc", "-Q", ".", "TV", "-w", "none", props_file, "-o", str(outvo)],
                cwd=COQ,
                timeout=630,
            )
            ok = rc == 0
            log += out + err
        self.checker_cmd = f"cd {COQ} && make {props_file}o && coqc -Q . TV {props_file}"
        blocks = parse_assumptions(out) if ok else []
        for i, name in enumerate(theorems):
            ax = blocks[i] if i < len(blocks) else None
            self.obligations.append({"theorem": name, "discharged": bool(ok), "axioms": ax})
            if ax:
                for a in ax:
                    if a not in self.assumptions:
                        self.assumptions.append(a)
        if not ok:
            tail = "\n".join(log.strip().splitlines()[-40:])
            self.broken.append({"kind": "proof", "file": props_file, "coq_output_tail": tail})
        elif self.tier == "thorough":
            # independent re-check of the compiled property file and everything it depends on
            lib = "TV." + props_file[:-2].replace("/", ".")
            rc, out, err = sh(["timeout", "1500", "coqchk", "-silent", "-o", "-Q", ".", "TV", lib], cwd=COQ, timeout=1530)
            txt = out + err
            self.extra["coqchk"] = {"exit": rc, "library": lib,
                                    "axioms": re.findall(r"^\s+([A-Za-z_][\w.']*)\s*$", txt.split("* Axioms:")[-1], flags=re.M)[:60] if "* Axioms:" in txt else [],
                                    "tail": txt.strip().splitlines()[-6:]}
            if rc != 0 and rc != 124:
                self.broken.append({"kind": "proof", "file": props_file, "coqchk_output_tail": txt[-2000:]})
        return ok

    def coq_eval(self, name: str, text: str, timeout: int = 900) -> tuple[bool, str]:
        """Compile a scratch .v (cases) against the built development; return its stdout."""
        d = BUILD / "cases"
        f = d / f"{name}.v"
        f.write_text(text)
        rc, out, err = sh(
            ["timeout", str(timeout), "coqc", "-Q", str(COQ), "TV", "-w", "none", str(f)],
            cwd=d,
            timeout=timeout + 30,
        )
        return rc == 0, out + (("\n" + err) if rc != 0 else "")

    def coq_run_files(self, paths: list[str], workers: int = 5, timeout: int = 900) -> dict[str, tuple[bool, str]]:
        """Compile already-written scratch .v files in parallel; returns path -> (ok, output)."""
        from concurrent.futures import ThreadPoolExecutor

        def one(path):
            rc, out, err = sh(
                ["timeout", str(timeout), "coqc", "-Q", str(COQ), "TV", "-w", "none", path],
                cwd=os.path.dirname(path),
                timeout=timeout + 30,
            )
            return path, (rc == 0, out + (("\n" + err) if rc != 0 else ""))

        with ThreadPoolExecutor(max_workers=workers) as ex:
            return dict(ex.map(one, paths))

    def regen(self, files: list[str]) -> bool:
        """Regenerate coq/gen/<files> from /repo (write-if-changed); a failed translation is a
        broken obligation."""
        rc, out, err = sh([PY, "-B", str(VERIF / "tools" / "regen.py")] + files, env=impl_env(), timeout=300)
        ok = True
        try:
            status = json.loads((BUILD / "regen_status.json").read_text())
        except Exception:
            status = {}
        for f in files:
            if status.get(f) != "ok":
                ok = False
                self.broken.append({"kind": "translation", "file": f, "error": status.get(f, out + err)[:2000]})
        return ok

    # ---------------------------------------------------------------- implementation side
    def impl(self, script: str, args: list[str] | None = None, input: str | None = None,
             timeout: int = 900, env: dict | None = None, hashseed: str = "0"):
        """Run tools/harness/<script> under /venv python against /repo/src."""
        cmd = [PY, "-B", str(VERIF / "tools" / "harness" / script)] + (args or [])
        return sh(cmd, timeout=timeout, env=impl_env(env, hashseed), cwd=str(VERIF), input=input)

    # ---------------------------------------------------------------- results
    def write_replay(self, payload: dict) -> str:
        blob = json.dumps(payload, sort_keys=True, default=str)
        h = hashlib.sha1(blob.encode()).hexdigest()[:12]
        p = VERIF / "replays" / self.prop / f"{h}.json"
        payload = dict(payload)
        payload.setdefault("property", self.prop)
        payload.setdefault("replay_cmd", f"./check {self.prop} --replay replays/{self.prop}/{h}.json")
        p.write_text(json.dumps(payload, indent=1, sort_keys=True, default=str))
        return str(p.relative_to(VERIF))

    def violation(self, what: str, replay: dict, no_input: bool = False):
        if len(self.violations) >= 40:  # enough witnesses; keep counting only
            self.count("violations_not_recorded")
            return
        replay = dict(replay)
        replay["what"] = what
        path = self.write_replay(replay)
        self.violations.append({"what": what, "replay": path, "no_input": no_input})

    def known_finding(self, fid: str, what: str):
        line = f"KNOWN-FINDING: property={self.prop} {fid} {what}"
        if line not in self.known:
            self.known.append(line)

    def note(self, s: str):
        self.info.append(s)

    def finish(self) -> int:
        # a broken obligation / correspondence with no concrete failing input is still a violation
        if self.broken and not self.violations:
            self.violation(
                "proof obligation or correspondence no longer checks; searcher found no failing input",
                {"broken": self.broken},
                no_input=True,
            )
        wall = time.time() - self.t0
        n_obl = len(self.obligations)
        n_dis = sum(1 for o in self.obligations if o["discharged"])
        cov = {
            "obligations": n_obl,
            "discharged": n_dis,
            "checker_cmd": self.checker_cmd or "n/a",
            "trusted_base": self.trusted + [f"axiom: {a}" for a in self.assumptions],
            "theorems": self.obligations,
            "evaluations": self.evaluations,
            "distinct_nontrivial": len(self.distinct),
            "rule": self.rule,
            "samples": self.samples or ["(no correspondence cases in this run)"],
            "counters": self.counters,
            "known_findings_printed": self.known,
            "broken": self.broken,
            "notes": self.info,
        }
        cov.update(self.extra)
        ev = {
            "property_id": self.prop,
            "tier": self.tier,
            "seed": self.seed,
            "level": self.level,
            "coverage": cov,
            "assumptions": self.trusted,
            "wall_s": round(wall, 2),
            "violations": len(self.violations),
        }
        # evidence is only ever written for runs against /repo itself; runs pointed at a scratch
        # tree (VERIF_REPO, used to try the checks on seeded defects) leave it alone
        evdir = VERIF / "evidence" if str(REPO) == "/repo" else BUILD / "evidence_scratch"
        evdir.mkdir(parents=True, exist_ok=True)
        (evdir / f"{self.prop}.json").write_text(json.dumps(ev, indent=1, default=str))
        for k in self.known:
            print(k)
        for i in self.info:
            print("INFO:", i)
        for v in self.violations[:5]:
            tail = " no-failing-input-found" if v["no_input"] else ""
            print(f"VIOLATION property={self.prop} replay={v['replay']}{tail}")
        if len(self.violations) > 5:
            print(f"({len(self.violations) - 5} further violations of {self.prop} not printed; see evidence/{self.prop}.json)")
        print(
            f"[{self.prop}] tier={self.tier} seed={self.seed} theorems={n_dis}/{n_obl} "
            f"cases={self.evaluations} distinct={len(self.distinct)} violations={len(self.violations)} "
            f"wall={wall:.1f}s"
        )
        sys.stdout.flush()
        return 1 if self.violations else 0


def load_known() -> dict:
    p = VERIF / "known_findings.json"
    if p.exists():
        return json.loads(p.read_text())
    return {"findings": [], "fixed": []}


def known_for(prop: str) -> list[dict]:
    return [f for f in load_known().get("findings", []) if f.get("property") == prop]
