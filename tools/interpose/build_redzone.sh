#!/bin/bash
# Build the C05 red-zone allocator into /verif/build/interpose/libredzone.so (offline, gcc only).
set -eu
here="$(cd "$(dirname "$0")" && pwd)"
out="$here/../../build/interpose"
mkdir -p "$out"
tmp="$out/libredzone.so.$$"
gcc -O2 -fPIC -shared -Wall -Wextra -fno-builtin-malloc -fno-builtin-free -fno-builtin-calloc -fno-builtin-realloc \
    -o "$tmp" "$here/redzone.c"
mv -f "$tmp" "$out/libredzone.so"
echo "built $out/libredzone.so"
