/* C13 allocator interposer (LD_PRELOAD).
 *
 * Observes every malloc/calloc/realloc/free/... of the process and keeps, per address, the current
 * "generation" (a serial number given at allocation), whether that generation is live and how often
 * free() was called on it.  A driver script (tools/harness/c13_driver.py) talks to it through the
 * exported interpose_* functions:
 *
 *   interpose_serial()            current allocation serial (to bracket a call: blocks allocated inside
 *                                 the window have  s0 < serial <= s1)
 *   interpose_watch(a, out[4])    start tracking address a: out = {found, serial, live, frees}.
 *                                 From now on free(a) is COUNTED AND NOT FORWARDED to libc
 *                                 (quarantine: the address is never reused, a second free is counted
 *                                 instead of aborting the process, the memory stays readable).
 *   interpose_query(a, out[4])    out = {watched, serial, live, frees} for a watched address
 *   interpose_release()           really free every quarantined block, forget all watches
 *   interpose_stray_double()      number of free() calls on a non-watched address whose current
 *                                 generation had already been freed (forwarded to libc anyway)
 *
 * Events on watched addresses are appended to the file named by INTERPOSE_LOG (all events when
 * INTERPOSE_ALL=1):   "A addr size serial" | "F addr serial nfrees" | "R old new size" | "W addr serial live"
 *
 * No dlsym: glibc exports __libc_malloc & co, so there is no bootstrap recursion (calloc inside
 * dlsym).  No stdio, no allocation inside the hooks: a spin lock, an mmap'ed open-addressing table,
 * write(2).  Build: tools/interpose/build.sh -> /verif/build/interpose/libinterpose.so
 */
#define _GNU_SOURCE
#include <errno.h>
#include <fcntl.h>
#include <stdatomic.h>
#include <stddef.h>
#include <stdint.h>
#include <stdlib.h>
#include <string.h>
#include <sys/mman.h>
#include <unistd.h>

extern void *__libc_malloc(size_t);
extern void __libc_free(void *);
extern void *__libc_calloc(size_t, size_t);
extern void *__libc_realloc(void *, size_t);
extern void *__libc_memalign(size_t, size_t);

typedef struct {
  uintptr_t addr;
  uint64_t serial;
  uint32_t frees;
  uint8_t live;
  uint8_t watched;
  uint16_t pad;
} entry_t;

static entry_t *table = 0;
static size_t cap = 0;   /* power of two */
static size_t used = 0;
static uint64_t serial = 0;
static uint64_t stray_double = 0;
static int log_fd = -2;  /* -2: not yet opened, -1: none */
static int log_all = 0;
static atomic_flag lock_ = ATOMIC_FLAG_INIT;
#define WMAX 16384
static uintptr_t wlist[WMAX]; /* addresses currently watched */
static size_t nw = 0;

static void lock(void) { while (atomic_flag_test_and_set_explicit(&lock_, memory_order_acquire)) { } }
static void unlock(void) { atomic_flag_clear_explicit(&lock_, memory_order_release); }

static size_t hash_(uintptr_t a) {
  uint64_t x = (uint64_t)a >> 4;
  x *= 0x9E3779B97F4A7C15ull;
  return (size_t)(x >> 20);
}

static entry_t *map_(size_t n) {
  void *p = mmap(0, n * sizeof(entry_t), PROT_READ | PROT_WRITE, MAP_PRIVATE | MAP_ANONYMOUS, -1, 0);
  return p == MAP_FAILED ? 0 : (entry_t *)p;
}

static entry_t *find_(uintptr_t a, int insert);

static void grow_(void) {
  size_t ncap = cap ? cap * 2 : ((size_t)1 << 20);
  entry_t *nt = map_(ncap);
  if (!nt) return;
  entry_t *ot = table;
  size_t ocap = cap;
  table = nt;
  cap = ncap;
  used = 0;
  for (size_t i = 0; i < ocap; i++)
    if (ot[i].addr) {
      entry_t *e = find_(ot[i].addr, 1);
      if (e) { uintptr_t a = e->addr; *e = ot[i]; e->addr = a; }
    }
  if (ot) munmap(ot, ocap * sizeof(entry_t));
}

static entry_t *find_(uintptr_t a, int insert) {
  if (!table || (insert && used * 2 >= cap)) grow_();
  if (!table) return 0;
  size_t m = cap - 1, i = hash_(a) & m;
  for (;;) {
    if (table[i].addr == a) return &table[i];
    if (table[i].addr == 0) {
      if (!insert) return 0;
      table[i].addr = a;
      used++;
      return &table[i];
    }
    i = (i + 1) & m;
  }
}

/* ---- logging (only on watched addresses unless INTERPOSE_ALL=1) ---- */
static void open_log_(void) {
  if (log_fd != -2) return;
  const char *p = getenv("INTERPOSE_LOG");
  const char *all = getenv("INTERPOSE_ALL");
  log_all = all && all[0] == '1';
  log_fd = -1;
  if (p && p[0]) log_fd = open(p, O_WRONLY | O_CREAT | O_APPEND | O_CLOEXEC, 0644);
}

static char *hex_(char *q, uint64_t v) {
  char tmp[17];
  int n = 0;
  do { tmp[n++] = "0123456789abcdef"[v & 15]; v >>= 4; } while (v);
  while (n) *q++ = tmp[--n];
  return q;
}

static void log_(char kind, uint64_t a, uint64_t b, uint64_t c) {
  if (log_fd < 0) return;
  char buf[80], *q = buf;
  *q++ = kind; *q++ = ' ';
  q = hex_(q, a); *q++ = ' ';
  q = hex_(q, b); *q++ = ' ';
  q = hex_(q, c); *q++ = '\n';
  ssize_t r = write(log_fd, buf, (size_t)(q - buf));
  (void)r;
}

/* ---- bookkeeping, called with the lock held ---- */
static void note_alloc_(void *p, size_t size) {
  if (!p) return;
  if (log_fd == -2) open_log_();
  entry_t *e = find_((uintptr_t)p, 1);
  if (!e) return;
  e->serial = ++serial;
  e->live = 1;
  e->frees = 0;
  e->watched = 0; /* a quarantined address is never handed out again, so this only clears stale flags */
  if (log_all) log_('A', (uint64_t)(uintptr_t)p, size, e->serial);
}

/* returns 1 when the call must be forwarded to libc */
static int note_free_(void *p) {
  if (log_fd == -2) open_log_();
  entry_t *e = find_((uintptr_t)p, 1);
  if (!e) return 1;
  if (e->watched) {
    e->frees++;
    e->live = 0;
    log_('F', (uint64_t)(uintptr_t)p, e->serial, e->frees);
    return 0; /* quarantine */
  }
  if (e->serial != 0 && !e->live) stray_double++;
  e->frees++;
  e->live = 0;
  if (log_all) log_('F', (uint64_t)(uintptr_t)p, e->serial, e->frees);
  return 1;
}

/* ---- the interposed entry points ---- */
void *malloc(size_t n) {
  void *p = __libc_malloc(n);
  lock(); note_alloc_(p, n); unlock();
  return p;
}

void *calloc(size_t a, size_t b) {
  void *p = __libc_calloc(a, b);
  lock(); note_alloc_(p, a * b); unlock();
  return p;
}

void free(void *p) {
  if (!p) return;
  lock();
  int fwd = note_free_(p);
  unlock();
  if (fwd) __libc_free(p);
}

void *realloc(void *p, size_t n) {
  if (!p) return malloc(n);
  if (n == 0) { free(p); return 0; } /* glibc: realloc(p, 0) frees p and returns NULL */
  lock();
  entry_t *e = find_((uintptr_t)p, 0);
  int watched = e && e->watched;
  if (watched) { /* nobody may resize a block the driver tracks: record, stop tracking it */
    log_('R', (uint64_t)(uintptr_t)p, 0, n);
    e->frees += 1000; /* poison: shows up as a wrong free count */
  }
  unlock();
  if (watched) return 0;
  void *r = __libc_realloc(p, n);
  if (r) {
    lock();
    if (r != p) {
      entry_t *o = find_((uintptr_t)p, 1);
      if (o) { o->live = 0; o->frees++; }
      note_alloc_(r, n);
    }
    if (log_all) log_('R', (uint64_t)(uintptr_t)p, (uint64_t)(uintptr_t)r, n);
    unlock();
  }
  return r;
}

void *reallocarray(void *p, size_t a, size_t b) {
  size_t n;
  if (__builtin_mul_overflow(a, b, &n)) { errno = ENOMEM; return 0; }
  return realloc(p, n);
}

void *memalign(size_t al, size_t n) {
  void *p = __libc_memalign(al, n);
  lock(); note_alloc_(p, n); unlock();
  return p;
}

void *aligned_alloc(size_t al, size_t n) { return memalign(al, n); }

int posix_memalign(void **out, size_t al, size_t n) {
  if (al % sizeof(void *) != 0 || (al & (al - 1)) != 0 || al == 0) return EINVAL;
  void *p = memalign(al, n);
  if (!p) return ENOMEM;
  *out = p;
  return 0;
}

void *valloc(size_t n) { return memalign((size_t)sysconf(_SC_PAGESIZE), n); }

void *pvalloc(size_t n) {
  size_t ps = (size_t)sysconf(_SC_PAGESIZE);
  return memalign(ps, (n + ps - 1) / ps * ps);
}

/* ---- driver API ---- */
uint64_t interpose_serial(void) {
  lock(); uint64_t s = serial; unlock();
  return s;
}

uint64_t interpose_stray_double(void) {
  lock(); uint64_t s = stray_double; unlock();
  return s;
}

/* out = {found, serial, live, frees}; marks the address watched (quarantine on free) */
void interpose_watch(void *a, uint64_t *out) {
  lock();
  if (log_fd == -2) open_log_();
  entry_t *e = find_((uintptr_t)a, 1);
  if (!e) { out[0] = 0; out[1] = out[2] = out[3] = 0; unlock(); return; }
  out[0] = e->serial != 0 || e->frees != 0;
  out[1] = e->serial;
  out[2] = e->live;
  out[3] = e->frees;
  if (!out[0]) e->live = 1; /* allocated by a path we did not see: assume live */
  if (!e->watched && nw < WMAX) wlist[nw++] = (uintptr_t)a;
  e->watched = 1;
  log_('W', (uint64_t)(uintptr_t)a, e->serial, e->live);
  unlock();
}

void interpose_query(void *a, uint64_t *out) {
  lock();
  entry_t *e = find_((uintptr_t)a, 0);
  if (!e) { out[0] = out[1] = out[2] = out[3] = 0; unlock(); return; }
  out[0] = e->watched;
  out[1] = e->serial;
  out[2] = e->live;
  out[3] = e->frees;
  unlock();
}

/* really free every quarantined block (once), drop all watches; returns how many were released */
uint64_t interpose_release(void) {
  uint64_t n = 0;
  for (;;) {
    void *victim = 0;
    int more = 0;
    lock();
    while (nw > 0 && !victim) {
      entry_t *e = find_(wlist[--nw], 0);
      if (e && e->watched) {
        e->watched = 0;
        if (!e->live && e->frees > 0 && e->frees < 1000) victim = (void *)e->addr;
      }
    }
    more = nw > 0;
    unlock();
    if (victim) { __libc_free(victim); n++; }
    if (!more && !victim) break;
  }
  return n;
}
