#!/bin/bash
# Build the C13 allocator interposer into /verif/build/interpose/libinterpose.so (offline, gcc only).
set -eu
here="$(cd "$(dirname "$0")" && pwd)"
out="$here/../../build/interpose"
mkdir -p "$out"
tmp="$out/libinterpose.so.$$"
gcc -O2 -fPIC -shared -Wall -Wextra -fno-builtin-malloc -fno-builtin-free -fno-builtin-calloc -fno-builtin-realloc \
    -o "$tmp" "$here/interpose.c"
mv -f "$tmp" "$out/libinterpose.so"
echo "built $out/libinterpose.so"
