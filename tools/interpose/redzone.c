/* Red-zone allocator (LD_PRELOAD) for C05: every malloc/calloc/realloc block gets a 16-byte header
 * {magic, size} and a 16-byte canary behind the requested size.  free()/realloc() verify the canary and
 * write one line  "OVERFLOW size=<n> first_bad=<offset past the end> serial=<k>\n"  to the file named by
 * REDZONE_LOG when it was overwritten (the process continues).  redzone_check_all() is not provided:
 * blocks are checked when they are released or resized -- the harness drops every result and collects
 * before it exits.  Blocks that do not carry the magic (allocated before this library was loaded, or by
 * memalign & co) are forwarded untouched; a wrapped block is never moved by libc's realloc and its header is cleared
 * before it is released, so freed memory never contains a stale header that could make such a block look wrapped.  A write BEFORE the block destroys the magic: the block is then
 * forwarded to libc's free with the user pointer, which aborts -- also a detected failure.
 * No stdio, no allocation in the hooks.  Build: tools/interpose/build_redzone.sh */
#define _GNU_SOURCE
#include <fcntl.h>
#include <stdint.h>
#include <stdlib.h>
#include <string.h>
#include <unistd.h>

extern void *__libc_malloc(size_t);
extern void __libc_free(void *);
extern void *__libc_realloc(void *, size_t);

#define MAGIC 0x7e5a0c05d0beef01ull
#define HDR 16
#define RZ 16
static const unsigned char PAT = 0xC5;
static int log_fd = -2;
static uint64_t serial_ = 0;
static int poison_ = -1; /* REDZONE_POISON=1: fresh malloc/realloc-grown bytes are filled with 0xAB (not calloc) */
static uint64_t overflows_ = 0;

static void open_log_(void) {
  if (log_fd != -2) return;
  const char *p = getenv("REDZONE_LOG");
  log_fd = -1;
  if (p && p[0]) log_fd = open(p, O_WRONLY | O_CREAT | O_APPEND | O_CLOEXEC, 0644);
}

static char *dec_(char *q, uint64_t v) {
  char tmp[24];
  int n = 0;
  do { tmp[n++] = (char)('0' + v % 10); v /= 10; } while (v);
  while (n) *q++ = tmp[--n];
  return q;
}

static void report_(uint64_t size, uint64_t off) {
  overflows_++;
  open_log_();
  if (log_fd < 0) return;
  char buf[120], *q = buf;
  const char *a = "OVERFLOW size=";
  while (*a) *q++ = *a++;
  q = dec_(q, size);
  a = " first_bad=";
  while (*a) *q++ = *a++;
  q = dec_(q, off);
  a = " serial=";
  while (*a) *q++ = *a++;
  q = dec_(q, serial_);
  *q++ = '\n';
  ssize_t r = write(log_fd, buf, (size_t)(q - buf));
  (void)r;
}

uint64_t redzone_overflows(void) { return overflows_; }

/* marker written by the harness between cases, so that a report can be attributed */
void redzone_mark(uint64_t k) {
  open_log_();
  if (log_fd < 0) return;
  char buf[40], *q = buf;
  *q++ = 'M'; *q++ = ' ';
  q = dec_(q, k);
  *q++ = '\n';
  ssize_t r = write(log_fd, buf, (size_t)(q - buf));
  (void)r;
}

static void *wrap_(unsigned char *raw, size_t n) {
  if (!raw) return 0;
  ((uint64_t *)raw)[0] = MAGIC;
  ((uint64_t *)raw)[1] = (uint64_t)n;
  memset(raw + HDR + n, PAT, RZ);
  serial_++;
  return raw + HDR;
}

static int ours_(void *p) { return p && ((uintptr_t)p & 15) == 0 && ((uint64_t *)((unsigned char *)p - HDR))[0] == MAGIC; }

static void verify_(void *p) {
  unsigned char *u = (unsigned char *)p;
  uint64_t n = ((uint64_t *)(u - HDR))[1];
  for (int i = 0; i < RZ; i++)
    if (u[n + i] != PAT) { report_(n, (uint64_t)i); return; }
}

static int poison_on_(void) {
  if (poison_ < 0) { const char *p = getenv("REDZONE_POISON"); poison_ = (p && p[0] == '1') ? 1 : 0; }
  return poison_;
}

void *malloc(size_t n) {
  unsigned char *raw = (unsigned char *)__libc_malloc(n + HDR + RZ);
  if (raw && poison_on_()) memset(raw + HDR, 0xAB, n);
  return wrap_(raw, n);
}

void *calloc(size_t a, size_t b) {
  size_t n = a * b;
  if (b && n / b != a) return 0;
  unsigned char *raw = (unsigned char *)__libc_malloc(n + HDR + RZ);
  if (!raw) return 0;
  memset(raw + HDR, 0, n);
  return wrap_(raw, n);
}

void free(void *p) {
  if (!p) return;
  if (!ours_(p)) { __libc_free(p); return; }
  verify_(p);
  ((uint64_t *)((unsigned char *)p - HDR))[0] = 0;
  __libc_free((unsigned char *)p - HDR);
}

void *realloc(void *p, size_t n) {
  if (!p) return malloc(n);
  if (!ours_(p)) return __libc_realloc(p, n);
  verify_(p);
  if (n == 0) { free(p); return 0; }
  /* never let libc move a wrapped block: the old copy would keep a stale {magic, size} header in freed
     memory, and a later memalign'ed (unwrapped) block handed out at that address would be taken for ours.
     Allocate, copy, release through our own free(), which clears the header first. */
  uint64_t old = ((uint64_t *)((unsigned char *)p - HDR))[1];
  void *q = malloc(n);
  if (!q) return 0;
  memcpy(q, p, old < n ? old : n);
  free(p);
  return q;
}

size_t malloc_usable_size(void *p) {
  if (!p) return 0;
  if (ours_(p)) return (size_t)((uint64_t *)((unsigned char *)p - HDR))[1];
  return 0;
}
