HOOK_COMMITS = []

CHECKS = []

_PENDING = "check not built yet in this round (planned, see DESIGN.md section 4)"
NOT_APPLICABLE = [{"property_id": f"C{i:02d}", "reason": _PENDING} for i in range(1, 17)]
