"""MANIFEST entries: one JSON file per claimed property in tools/manifest.d/Cxx.json with keys
text (level_claimed.text), note (level_note), technique, optional design_ref.
Properties without a file are listed under not_applicable with the reason below (or the reason in
tools/manifest.d/not_applicable.json)."""
import json
from pathlib import Path

D = Path(__file__).resolve().parent / "manifest.d"
HOOK_COMMITS = json.loads((D / "hook_commits.json").read_text()) if (D / "hook_commits.json").exists() else []
CHECKS = []
_enabled = set(json.loads((D / "enabled.json").read_text())) if (D / "enabled.json").exists() else None
for p in sorted(D.glob("C[0-9][0-9].json")):
    if _enabled is not None and p.stem not in _enabled:
        continue
    e = json.loads(p.read_text())
    e["property_id"] = p.stem
    CHECKS.append(e)
_na = json.loads((D / "not_applicable.json").read_text()) if (D / "not_applicable.json").exists() else {}
_PENDING = "no check is registered for this property yet (planned in DESIGN.md section 4; not claimed until its check passes on the unchanged tree)"
_claimed = {c["property_id"] for c in CHECKS}
NOT_APPLICABLE = [
    {"property_id": f"C{i:02d}", "reason": _na.get(f"C{i:02d}", _PENDING)}
    for i in range(1, 17)
    if f"C{i:02d}" not in _claimed
]
