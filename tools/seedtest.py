"""Confirm a seeded defect and run the property's check against it.

usage: seedtest.py <prop> <variant-dir> [--no-tests] [--tier quick]
<variant-dir> holds patch.diff, demo.py (and notes.md).  Steps: scratch worktree of /repo HEAD;
demo on the clean tree must exit 0; apply patch; demo must exit non-zero; the repo's tests (tests,
tests_cffi, fuzz_tests/test_parsing.py) must pass; run ./check <prop> with VERIF_REPO pointing at the
worktree; store everything under /verif/seeded/<prop>_<name>/ ; remove the worktree."""
import json
import os
import shutil
import subprocess
import sys
import time
from pathlib import Path

prop, vdir = sys.argv[1], Path(sys.argv[2])
run_tests = "--no-tests" not in sys.argv
tier = sys.argv[sys.argv.index("--tier") + 1] if "--tier" in sys.argv else "quick"
name = f"{prop}_{vdir.name}"
wt = Path(f"/root/scratch/seedtest_{name}")
out = Path("/verif/seeded") / name
out.mkdir(parents=True, exist_ok=True)
meta = {"property": prop, "variant": vdir.name, "repo_head": subprocess.check_output(["git", "-C", "/repo", "rev-parse", "--short", "HEAD"]).decode().strip()}


def sh(cmd, **kw):
    p = subprocess.run(cmd, shell=True, capture_output=True, text=True, **kw)
    return p.returncode, (p.stdout + p.stderr)[-3000:]


sh(f"git -C /repo worktree remove --force {wt}")
rc, o = sh(f"git -C /repo worktree add --detach {wt} HEAD")
assert rc == 0, o
env = dict(os.environ, PYTHONPATH=f"{wt}/src", PYTHONHASHSEED="0")
try:
    rc0, o0 = sh(f"cd {wt} && timeout 600 /venv/bin/python {vdir}/demo.py", env=env)
    meta["demo_clean_exit"] = rc0
    rc, o = sh(f"cd {wt} && git apply {vdir}/patch.diff")
    meta["patch_applies"] = rc == 0
    if rc != 0:
        meta["patch_error"] = o
    rc1, o1 = sh(f"cd {wt} && timeout 600 /venv/bin/python {vdir}/demo.py", env=env)
    meta["demo_patched_exit"] = rc1
    meta["demo_patched_output_tail"] = o1[-800:]
    if run_tests:
        t0 = time.time()
        for attempt in range(3):  # xdist occasionally dies at interpreter shutdown on a loaded machine: look for the summary line
            rct, ot = sh(f"cd {wt} && timeout 2400 /venv/bin/python -m pytest -q -p no:cacheprovider -n 4 tests tests_cffi fuzz_tests/test_parsing.py 2>&1 | tail -15", env=env)
            lines = [l for l in ot.strip().splitlines() if " passed" in l or " failed" in l]
            if lines:
                break
        meta["tests_result"] = lines[-1] if lines else (ot.strip().splitlines()[-1] if ot.strip() else "")
        meta["tests_pass"] = bool(lines) and " failed" not in meta["tests_result"] and " error" not in meta["tests_result"].lower()
        meta["tests_s"] = round(time.time() - t0)
    t0 = time.time()
    # run the check in a private copy of /verif: coq/gen is regenerated from the mutated tree and must not
    # disturb builds that are going on in /verif itself
    cp = Path(f"/root/scratch/verifcopy_{name}")
    sh(f"mkdir -p {cp} && rsync -a --delete --exclude build/cases --exclude .git --exclude replays /verif/ {cp}/")
    rcc, oc = sh(f"cd {cp} && VERIF_REPO={wt} VERIF_SEED=0 timeout 3000 ./check {prop} --tier {tier}", env=dict(os.environ))
    sh(f"rm -rf /verif/seeded/{name}/replays; mkdir -p /verif/seeded/{name}/replays; for f in $(ls -S -r {cp}/replays/{prop} 2>/dev/null | head -3); do cp {cp}/replays/{prop}/$f /verif/seeded/{name}/replays/; done; rm -rf {cp}")
    meta["check_exit"] = rcc
    meta["check_s"] = round(time.time() - t0)
    meta["check_output_tail"] = "\n".join(oc.strip().splitlines()[-8:])
    meta["detected"] = rcc == 1 and "VIOLATION" in oc
    meta["detected_with_concrete_input"] = meta["detected"] and any("VIOLATION" in l and "no-failing-input-found" not in l for l in oc.splitlines())
finally:
    sh(f"git -C /repo worktree remove --force {wt}")
for f in ("patch.diff", "demo.py", "notes.md"):
    if (vdir / f).exists():
        shutil.copy(vdir / f, out / f)
try:
    summ = json.loads(Path("/verif/seeded/summaries.json").read_text()).get(name, {})
    meta.update(summ)
except Exception:
    pass
meta["what_ran"] = f"tools/seedtest.py {prop} {vdir} (demo clean/patched, repo tests, VERIF_REPO=<worktree> ./check {prop} --tier {tier})"
(out / "meta.json").write_text(json.dumps(meta, indent=1))
print(json.dumps({k: meta[k] for k in meta if k not in ("check_output_tail", "demo_patched_output_tail")}, indent=1))
print(meta.get("check_output_tail", ""))
