"""Assemble /verif/DESIGN.md from design.d/ (front matter, per-property records), known_findings.json
and seeded/*/meta.json."""
import json
import re
from pathlib import Path

V = Path(__file__).resolve().parents[1]
D = V / "design.d"
out = [(D / "00_front.md").read_text().rstrip() + "\n"]


def demote(text: str) -> str:
    """make every heading of a per-property record at least level 3"""
    lines = []
    for l in text.splitlines():
        m = re.match(r"^(#+) (.*)", l)
        if m:
            n = len(m.group(1))
            l = "#" * min(6, n + 2 if n <= 2 else n + 1) + " " + m.group(2)
        lines.append(l)
    return "\n".join(lines)


for i in range(1, 17):
    pid = f"C{i:02d}"
    f = D / f"{pid}.md"
    if not f.exists():
        continue
    t = f.read_text().strip()
    if not t.startswith("###"):
        t = demote(t)
    out.append("\n" + t + "\n")
    extra = D / f"{pid}_printer.md"
    if extra.exists():
        out.append("\n" + demote(extra.read_text().strip()) + "\n")

for extra_name in ["CERT", "CERT_kinds", "C01G", "TIE"] + sorted(p.stem for p in D.glob("TIE_*.md")):
    f = D / f"{extra_name}.md"
    if f.exists():
        out.append("\n" + demote(f.read_text().strip()) + "\n")

k = json.loads((V / "known_findings.json").read_text())
out.append("\n---------------------------------------------------------------------------------------------------\n\n## 5. Defects found on the unchanged tree\n")
out.append("Each was reproduced against the real code with a concrete witness. Repaired defects are one\n`fix:` commit each in /repo (the repository's 5120 stable tests pass at the final HEAD); a `fixed`\nentry suppresses nothing — every check passes on the repaired tree without a KNOWN-FINDING line for\nit and reports the violation again if it returns.\n\n**Fixed**\n")
for f in k.get("fixed", []):
    out.append(f"* {f}")
out.append("\n**Known findings (recorded, not repaired)**\n")
for f in k.get("findings", []):
    out.append(f"* **{f['id']}** ({f['property']}) — {f.get('what', f.get('summary', ''))}\n  * call site: {f['call_site']}\n  * classifier: {f['classifier']}\n  * witness: {f.get('witness', '')}")
out.append((D / "98_limits.md").read_text() if (D / "98_limits.md").exists() else "")
out.append("\n---------------------------------------------------------------------------------------------------\n\n## 7. Seeded changes: which checks catch which\n")
out.append("Produced by fresh sub-agents that were given only the property text and a scratch worktree\n(nothing from /verif). Each was confirmed (`tools/seedtest.py`): demo exits 0 on the clean tree and\nnon-zero with the change, the repository's tests pass with the change, then the property's check was\nrun with `VERIF_REPO` pointing at the changed tree. Stored under `seeded/<property>_<variant>/`.\n")
out.append("| seeded change | needs to manifest | tests pass | check result |\n|---|---|---|---|")
for m in sorted((V / "seeded").glob("*/meta.json")):
    j = json.loads(m.read_text())
    res = ("obsolete: " + j["obsolete"]) if j.get("obsolete") else "VIOLATION with concrete input" if j.get("detected_with_concrete_input") else ("VIOLATION (no-failing-input-found)" if j.get("detected") else "**missed**")
    out.append(f"| {m.parent.name}: {j.get('summary', '')} | {j.get('needs', '')} | {j.get('tests_result', 'n/a')} | {res} ({j.get('check_s', '?')} s) |")
extra = D / "99_seed_notes.md"
if extra.exists():
    out.append("\n" + extra.read_text())
(V / "DESIGN.md").write_text("\n".join(out) + "\n")
print("DESIGN.md written", sum(len(x.splitlines()) for x in out), "lines")
