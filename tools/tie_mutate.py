"""TIE regression: apply one source mutation at a time to a SCRATCH worktree of /repo and run the TIE
obligations against it (never touches /repo itself).

    git -C /repo worktree add --detach /root/scratch/tie HEAD
    /venv/bin/python -B tools/tie_mutate.py [mutation names ...]      # default: all
    git -C /repo worktree remove --force /root/scratch/tie
    /venv/bin/python -B tools/regen.py                                  # gen/*.v back to /repo's text

Expected: every mutation -> proof=False (regen=True); every `ok_*` edit -> all True; every `fc_*`
(construct outside the translated fragment) -> regen=False."""
import json, os, subprocess, sys, time
SCRATCH = os.environ.get("TIE_SCRATCH", "/root/scratch/tie")
S = SCRATCH + "/src/tensora/"
MUT = {
 # name: (tie names, file, old, new)
 "exh_mul_left": ("exhaust", "iteration_graph/identifiable_expression/_exhaust_tensor.py",
    "    else:\n        return Multiply(left_exhausted, right_exhausted)", "    else:\n        return left_exhausted"),
 "exh_add_swap": ("exhaust", "iteration_graph/identifiable_expression/_exhaust_tensor.py",
    "    elif left_exhausted == Integer(0):\n        # Covers the case where both are exhausted\n        return right_exhausted",
    "    elif left_exhausted == Integer(0):\n        # Covers the case where both are exhausted\n        return left_exhausted"),
 "exh_no_shortcircuit": ("exhaust", "iteration_graph/identifiable_expression/_exhaust_tensor.py",
    "    if left_exhausted is self.left and right_exhausted is self.right:\n        # Short circuit when there are no changes\n        return self\n    elif left_exhausted == Integer(0) or",
    "    if left_exhausted is self.left:\n        # Short circuit when there are no changes\n        return self\n    elif left_exhausted == Integer(0) or"),
 "exh_tensor_name": ("exhaust", "iteration_graph/identifiable_expression/_exhaust_tensor.py",
    "if self.id == reference:", "if self.name == reference:"),
 "ctx_zero_dense": ("context", "iteration_graph/identifiable_expression/_extract_context.py",
    "if self == ast.Integer(0) or self == ast.Float(0.0):", "if self == ast.Integer(0):"),
 "ctx_add_or": ("context", "iteration_graph/identifiable_expression/_extract_context.py",
    "is_sparse=self.is_sparse and other.is_sparse,", "is_sparse=self.is_sparse or other.is_sparse,"),
 "ctx_dense_swapped": ("context", "iteration_graph/identifiable_expression/_extract_context.py",
    "if self.modes[maybe_layer] == Mode.dense:", "if self.modes[maybe_layer] == Mode.compressed:"),
 "ctx_leaves_lost": ("context", "iteration_graph/identifiable_expression/_extract_context.py",
    "            sparse_leaves=self.sparse_leaves + other.sparse_leaves,\n            dense_leaves=self.dense_leaves + other.dense_leaves,\n            indexes=self.indexes | other.indexes,\n        )\n\n\n@singledispatch",
    "            sparse_leaves=self.sparse_leaves,\n            dense_leaves=self.dense_leaves + other.dense_leaves,\n            indexes=self.indexes | other.indexes,\n        )\n\n\n@singledispatch"),
 "names_swap_pos_crd": ("names", "iteration_graph/_names.py",
    'return Variable(f"{tensor}_{layer}_pos")', 'return Variable(f"{tensor}_{layer}_crd")'),
 "names_drop_sep": ("names", "iteration_graph/_names.py",
    'return Variable(f"p_{reference}_{layer}")', 'return Variable(f"p_{reference}{layer}")'),
 "names_prev_off": ("names", "iteration_graph/_names.py",
    "return layer_pointer(reference, layer - 1)", "return layer_pointer(reference, layer)"),
 "dep_add_noparens": ("deparse", "expression/ast.py",
    '        if isinstance(self.right, (Add, Subtract)):\n            # Preserve AST even though addition is associative.\n            right_string = f"({right_string})"',
    '        if isinstance(self.right, (Subtract,)):\n            # Preserve AST even though addition is associative.\n            right_string = f"({right_string})"'),
 "dep_mul_left": ("deparse", "expression/ast.py",
    "        if isinstance(self.left, (Add, Subtract)):\n            left_string = f\"({left_string})\"\n\n        right_string = self.right.deparse()\n        # Preserve AST even though multiplication",
    "        if isinstance(self.left, (Add,)):\n            left_string = f\"({left_string})\"\n\n        right_string = self.right.deparse()\n        # Preserve AST even though multiplication"),
 "dep_comma_space": ("deparse", "expression/ast.py", '",".join(self.indexes)', '", ".join(self.indexes)'),
 "des_hoist_uncond": ("desugar", "desugar/_desugar_expression.py",
    "        if carried_by_every_term(self.left, index) and carried_by_every_term(self.right, index)\n    }\n\n    output = desugar.Add(\n        desugar_expression(self.left, left_indexes - intersection_indexes, ids),\n        desugar_expression(self.right, right_indexes - intersection_indexes, ids),\n    )",
    "        if True\n    }\n\n    output = desugar.Add(\n        desugar_expression(self.left, left_indexes - intersection_indexes, ids),\n        desugar_expression(self.right, right_indexes - intersection_indexes, ids),\n    )"),
 "des_sub_sign": ("desugar", "desugar/_desugar_expression.py",
    "        desugar.Multiply(\n            desugar.Integer(-1),\n            desugar_expression(self.right, right_indexes - intersection_indexes, ids),",
    "        desugar.Multiply(\n            desugar.Integer(1),\n            desugar_expression(self.right, right_indexes - intersection_indexes, ids),"),
 "des_carried_mul_and": ("desugar", "desugar/_desugar_expression.py",
    "            return carried_by_every_term(self.left, index) or carried_by_every_term(\n                self.right, index\n            )",
    "            return carried_by_every_term(self.left, index) and carried_by_every_term(\n                self.right, index\n            )"),
 "des_terms_no_neg": ("desugar", "desugar/_desugar_expression.py",
    "(not negative, factors) for negative, factors in additive_terms(self.right)",
    "(negative, factors) for negative, factors in additive_terms(self.right)"),
 "des_ids_order": ("desugar", "desugar/_desugar_expression.py",
    "    output = desugar.Multiply(\n        desugar_expression(self.left, left_indexes - intersection_indexes, ids),\n        desugar_expression(self.right, right_indexes - intersection_indexes, ids),\n    )",
    "    right_first = desugar_expression(self.right, right_indexes - intersection_indexes, ids)\n    output = desugar.Multiply(\n        desugar_expression(self.left, left_indexes - intersection_indexes, ids),\n        right_first,\n    )"),
 "des_dist_contract_all": ("desugar", "desugar/_desugar_expression.py",
    "for index in term_indexes.intersection(contract_indexes):", "for index in term_indexes:"),
 "des_target_id": ("desugar", "desugar/_desugar_expression.py",
    "    all_indexes = set(assignment.index_participants().keys())\n    contract_indexes = all_indexes - set(assignment.target.indexes)",
    "    all_indexes = set(assignment.expression.index_participants().keys())\n    contract_indexes = all_indexes"),
 "ip_off_by_one": ("index_participants", "expression/ast.py",
    "participants.get(index_name, set()) | {(self.name, i)}", "participants.get(index_name, set()) | {(self.name, i + 1)}"),
 "ip_merge_left_only": ("index_participants", "expression/ast.py",
    "index_name: left_indexes.get(index_name, set()) | right_indexes.get(index_name, set())",
    "index_name: left_indexes.get(index_name, set())"),
 "ip_merge_keys_left": ("index_participants", "expression/ast.py",
    "for index_name in {*left_indexes.keys(), *right_indexes.keys()}", "for index_name in {*left_indexes.keys()}"),
 # constructs the translator does not know: regeneration must FAIL CLOSED
 "fc_exh_is_other": ("exhaust", "iteration_graph/identifiable_expression/_exhaust_tensor.py",
    "    if left_exhausted is self.left and right_exhausted is self.right:\n        # Short circuit when there are no changes\n        return self\n    elif left_exhausted == Integer(0) or",
    "    if left_exhausted is self.right and right_exhausted is self.right:\n        # Short circuit when there are no changes\n        return self\n    elif left_exhausted == Integer(0) or"),
 "fc_names_upper": ("names", "iteration_graph/_names.py",
    'return Variable(f"{tensor}_vals")', 'return Variable(f"{tensor.upper()}_vals")'),
 "fc_dep_while": ("deparse", "expression/ast.py",
    '        return self.name + "(" + ",".join(self.indexes) + ")"',
    '        out = self.name + "("\n        i = 0\n        while i < len(self.indexes):\n            out = out + self.indexes[i]\n            i = i + 1\n        return out + ")"'),
 "fc_des_sorted": ("desugar", "desugar/_desugar_expression.py",
    "    for index in contract_indexes:\n        output = desugar.Contract(index, output)\n    return output",
    "    for index in sorted(contract_indexes):\n        output = desugar.Contract(index, output)\n    return output"),
 "fc_ctx_global": ("context", "iteration_graph/identifiable_expression/_extract_context.py",
    "    left = extract_context(self.left, index)\n    right = extract_context(self.right, index)\n    return left.multiply(right)",
    "    left = extract_context(self.left, index)\n    right = extract_context(self.right, index)\n    print(left)\n    return left.multiply(right)"),
 # harmless edits: must NOT break
}
def harmless_exhaust(src):
    # rename a local variable and swap two independent statements in exhaust_tensor_add
    a = ("    left_exhausted = exhaust_tensor(self.left, reference)\n    right_exhausted = exhaust_tensor(self.right, reference)\n"
         "    if left_exhausted is self.left and right_exhausted is self.right:\n        # Short circuit when there are no changes\n        return self\n    elif left_exhausted == Integer(0):")
    assert a in src
    b = ("    right_exhausted = exhaust_tensor(self.right, reference)\n    lhs = exhaust_tensor(self.left, reference)\n"
         "    if lhs is self.left and right_exhausted is self.right:\n        return self\n    elif lhs == Integer(0):")
    src = src.replace(a, b)
    c = "    elif right_exhausted == Integer(0):\n        return left_exhausted\n    else:\n        return Add(left_exhausted, right_exhausted)"
    assert c in src
    return src.replace(c, "    elif right_exhausted == Integer(0):\n        return lhs\n    else:\n        return Add(lhs, right_exhausted)")
def harmless_context(src):
    a = "    left = extract_context(self.left, index)\n    right = extract_context(self.right, index)\n    return left.add(right)"
    assert a in src
    return src.replace(a, "    lhs = extract_context(self.left, index)\n    rhs = extract_context(self.right, index)\n    result = lhs.add(rhs)\n    return result")
def harmless_names(src):
    a = 'def vals_name(tensor: str) -> Variable:\n    return Variable(f"{tensor}_vals")'
    assert a in src
    return src.replace(a, 'def vals_name(tensor: str) -> Variable:\n    suffix = "_vals"\n    return Variable(tensor + suffix)')
def harmless_deparse(src):
    a = "        left_string = self.left.deparse()\n\n        right_string = self.right.deparse()\n        if isinstance(self.right, (Add, Subtract)):\n            # Preserve AST even though addition is associative."
    assert a in src
    return src.replace(a, "        rs = self.right.deparse()\n        left_string = self.left.deparse()\n        right_string = rs\n        if isinstance(self.right, (Subtract, Add)):\n            # Preserve AST even though addition is associative.")
def harmless_desugar(src):
    a = ("    left_indexes = set(self.left.index_participants().keys()).intersection(contract_indexes)\n"
         "    right_indexes = set(self.right.index_participants().keys()).intersection(contract_indexes)\n\n"
         "    intersection_indexes = left_indexes.intersection(right_indexes)\n")
    assert src.count(a) == 1
    b = ("    rhs_indexes = set(self.right.index_participants().keys()).intersection(contract_indexes)\n"
         "    left_indexes = set(self.left.index_participants().keys()).intersection(contract_indexes)\n"
         "    right_indexes = rhs_indexes\n\n"
         "    intersection_indexes = left_indexes.intersection(right_indexes)\n")
    src = src.replace(a, b)
    c = "    output = desugar.Tensor(next(ids), self.name, self.indexes)\n    for index in contract_indexes:\n        output = desugar.Contract(index, output)\n    return output"
    assert src.count(c) == 1
    return src.replace(c, "    result = desugar.Tensor(next(ids), self.name, self.indexes)\n    for k in contract_indexes:\n        result = desugar.Contract(k, result)\n    return result")
def mutate_variables(src):
    # only in Multiply.variables: merged lists in the wrong order
    i = src.index("class Multiply(Expression):")
    a = "variables_mapping[name] = [*variables_mapping[name], *variables]"
    j = src.index(a, i)
    return src[:j] + "variables_mapping[name] = [*variables, *variables_mapping[name]]" + src[j + len(a):]
def harmless_variables(src):
    i = src.index("class Subtract(Expression):")
    a = ("        variables_mapping = self.left.variables().copy()\n        for name, variables in self.right.variables().items():\n"
         "            if name in variables_mapping:\n                variables_mapping[name] = [*variables_mapping[name], *variables]\n"
         "            else:\n                variables_mapping[name] = variables\n        return variables_mapping")
    j = src.index(a, i)
    b = ("        merged = self.left.variables().copy()\n        for key, tensors in self.right.variables().items():\n"
         "            if key not in merged:\n                merged[key] = tensors\n"
         "            else:\n                merged[key] = merged[key] + tensors\n        return merged")
    return src[:j] + b + src[j + len(a):]
def harmless_ip(src):
    a = ("    left_indexes = left.index_participants()\n    right_indexes = right.index_participants()\n")
    assert src.count(a) == 1
    src = src.replace(a, "    right_indexes = right.index_participants()\n    left_indexes = left.index_participants()\n")
    b = "        participants = {}\n        for i, index_name in enumerate(self.indexes):\n            participants[index_name] = participants.get(index_name, set()) | {(self.name, i)}\n        return participants"
    assert src.count(b) == 1
    return src.replace(b, "        result = {}\n        for position, key in enumerate(self.indexes):\n            previous = result.get(key, set())\n            result[key] = previous | {(self.name, position)}\n        return result")
HARMLESS = {
 "ok_ip_rename": ("index_participants", "expression/ast.py", harmless_ip),
 "var_mul_order": ("variables", "expression/ast.py", mutate_variables),
 "ok_var_rewrite": ("variables", "expression/ast.py", harmless_variables),
 "ok_des_reorder": ("desugar", "desugar/_desugar_expression.py", harmless_desugar),
 "ok_exh_rename": ("exhaust", "iteration_graph/identifiable_expression/_exhaust_tensor.py", harmless_exhaust),
 "ok_ctx_rename": ("context", "iteration_graph/identifiable_expression/_extract_context.py", harmless_context),
 "ok_names_concat": ("names", "iteration_graph/_names.py", harmless_names),
 "ok_dep_reorder": ("deparse", "expression/ast.py", harmless_deparse),
}
def run(name):
    if name in HARMLESS:
        tie, f, fn = HARMLESS[name]
        p = S + f; orig = open(p).read(); new = fn(orig)
    else:
        tie, f, old, new_ = MUT[name]
        p = S + f; orig = open(p).read()
        assert orig.count(old) == 1, (name, orig.count(old))
        new = orig.replace(old, new_)
    open(p, "w").write(new)
    try:
        env = dict(os.environ, VERIF_REPO=SCRATCH, PYTHONHASHSEED="0")
        t = time.time()
        r = subprocess.run(["/venv/bin/python", "-B", "/verif/tools/tie_check.py", tie], env=env, capture_output=True, text=True, cwd="/verif")
        out = r.stdout
        first = " ".join(l for l in out.splitlines() if l.startswith("TIE ")) or r.stderr[-500:]
        kinds = []
        if "BROKEN" in out:
            try:
                br = json.loads(out.split("BROKEN", 1)[1])
                kinds = [(b.get("kind"), (b.get("coq_output_tail") or b.get("error") or json.dumps(b.get("examples", "")))[-300:]) for b in br]
            except Exception as e:
                kinds = ["unparsed: " + out.split("BROKEN", 1)[1][:1500]]
        print(f"== {name} [{tie}] {time.time()-t:.0f}s\n   {first}")
        for k in kinds: print("   ", k)
        sys.stdout.flush()
    finally:
        open(p, "w").write(orig)
for n in (sys.argv[1:] or list(MUT) + list(HARMLESS)):
    run(n)
