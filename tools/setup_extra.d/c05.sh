#!/bin/bash
# setup step for C05: build the LD_PRELOAD red-zone allocator
exec "$(cd "$(dirname "$0")" && pwd)/../interpose/build_redzone.sh"
