#!/bin/bash
# setup step for C13: build the LD_PRELOAD allocator interposer
exec "$(cd "$(dirname "$0")" && pwd)/../interpose/build.sh"
