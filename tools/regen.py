"""Regenerate coq/gen/*.v from /repo's current working tree (write-if-changed).

Writes build/regen_status.json: {file: "ok" | error text}.  Exit code 0 always; checks read the
status file and turn a failed translation into a broken obligation."""
import json
import sys
import traceback
from pathlib import Path

sys.path.insert(0, str(Path(__file__).resolve().parent))
from vlib.core import BUILD, COQ, SRC  # noqa: E402


def targets():
    from py2coq import ir
    t = {
        "IRAst.v": lambda: ir.gen_irast(SRC),
        "Peephole.v": lambda: ir.gen_peephole(SRC),
    }
    try:
        from py2coq import extra
        t.update(extra.targets(SRC))
    except ImportError:
        pass
    # further translators: tools/py2coq/extra_<name>.py, each exposing targets(SRC) -> {file: thunk}
    import importlib
    for p in sorted((Path(__file__).resolve().parent / "py2coq").glob("extra_*.py")):
        mod = importlib.import_module("py2coq." + p.stem)
        t.update(mod.targets(SRC))
    return t


def main(only=None):
    status = {}
    gen = COQ / "gen"
    gen.mkdir(exist_ok=True)
    for name, fn in targets().items():
        if only and name not in only:
            continue
        try:
            text = fn()
            p = gen / name
            if not p.exists() or p.read_text() != text:
                p.write_text(text)
            status[name] = "ok"
        except Exception as e:  # fail closed: leave a file that does not compile
            status[name] = f"{type(e).__name__}: {e}"
            (gen / name).write_text(
                "(* translation failed: fail closed *)\nFail Definition translation_failed := 0.\n"
                f"Definition broken : False := I. (* {str(e)[:200].replace('*)', '* )')} *)\n"
            )
            traceback.print_exc()
    BUILD.mkdir(exist_ok=True)
    old = {}
    sp = BUILD / "regen_status.json"
    if sp.exists() and only:
        old = json.loads(sp.read_text())
    old.update(status)
    sp.write_text(json.dumps(old, indent=1))
    for k, v in status.items():
        print(f"regen {k}: {v}")
    return status


if __name__ == "__main__":
    main(sys.argv[1:] or None)
