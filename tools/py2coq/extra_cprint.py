"""py2coq.extra_cprint: the C back end's printer regenerated into Gallina on every run.

  codegen/_type_to_c.py  (space_variable, type_to_c and its 8 registrations)
  codegen/_ir_to_c.py    (parens, ir_to_c_expression and its 22 registrations, ir_to_c_declaration,
                          ir_to_c_statement: the one-line statements)                 -> gen/IrToC.v

The hand model coq/model/CPrint.v (tokens) is PROVED to be what a C lexer (coq/model/CLexer.v) makes
of the regenerated strings, in coq/proofs/GenCPrint_equiv.v; statements coq/props/TIE_cprint.v;
documentation design.d/TIE_cprint.md.

Idioms added here to those of core.py / extra.py (each one fail-closed):

  * default arguments `variable: str | None = None`, the same in the dispatcher and in every
    registration; a call that leaves the argument out passes the default; a `str` passed where
    `str | None` is expected becomes `Some s`;
  * `if v is None: A else: B` (statement) on an optional variable -> `match v with None => A | Some v => B`;
  * a helper that takes CLASSES as an argument (`parens(code, wrap_me)` with
    `wrap_me: type | tuple[type, ...]`, used in `isinstance(code, wrap_me)`): expanded at every call
    site with the classes written there (which must be literal class names);
  * class narrowing: `if isinstance(P, K) and <tests using P.f>: A  else: B` with P a field path
    (`self.value`) and K one concrete class -> `match P with K f1 f2 => if tests then A else B | _ => B`
    (B let-bound once); inside the tests and A, `P.f` is the field of that constructor.  Without the
    narrowing `P.f` would be a partial projection (AttributeError) under a short-circuit, which
    extra.py refuses;
  * a singledispatch family over `stmt` with a registration on the embedded root class
    (`@ir_to_c_statement.register(Expression)`): the arm of the embedding constructor `SExpr`.

Round 2 (statement structure): ir_to_c_block, ir_to_c_branch, ir_to_c_loop, indent_lines,
ir_to_c_function_definition, ir_to_c are translated too.  Further idioms:

  * a local list made by a display, never given a second name: `xs.append(e)` / `xs.extend(es)` are read as
    `xs = xs + [e]` / `xs = xs + es` (AST pre-pass; any other use of the name than these, `len(xs)`, `return xs`
    refuses the pre-pass and the translation then fails closed on the `.append`);
  * `xs = []` in a function that returns `xs`: typed by the declared return type;
  * `if P is not None: <assignments>` with P an optional field / variable -> `match P with Some p => .. | None => ..`;
    inside, P is the payload;
  * `xs[n:]` (constant n >= 0) -> `skipn n xs`;
  * `X == K(<literals>)` with K a constructor and every argument `[]` / `None` (after defaults) -> a pattern match;
  * `isinstance(v, K)` narrowing also on a local variable (the loop variable `statement`); inside the
    narrowed branch a direct call of the registration `ir_to_c_block(statement)` is the dispatcher call
    (it is refused anywhere else: on another class it would be an AttributeError, not the dispatch);
  * `map(f, xs)` with f a translated function (`omap` when f may raise); `sep.join(<generator>)`;
  * `for` loops with effects use `ofold_u` (PyLib's `ofold` with the function outside the `fix`, so that
    Coq's guard checker accepts the nested recursion `ir_to_c_statement(statement)` under the loop).
"""

from __future__ import annotations

import ast
from pathlib import Path

from .core import Family, FuncSig, Unsupported, is_raise_only, parse_functions
from .extra import (NOFX, XPRELUDE, Fx, XEmitter, XScope, XTranslator, XUniverse, ptype, safe, wrap)

CLASS_PARAM_ANNOTATIONS = {"type | tuple[type, ...]", "type", "tuple[type, ...]"}

# what this module expects to find (anything else: fail closed)
EXPECT_TYPE_FAMS = {"type_to_c"}
EXPECT_TYPE_PLAIN = ["space_variable"]
EXPECT_FAMS = {"ir_to_c_expression", "ir_to_c_statement"}
EXPECT_PLAIN = {"parens", "indent_lines", "ir_to_c_declaration", "ir_to_c_function_definition", "ir_to_c"}
LAYOUT_CLASSES = ["Block", "Branch", "Loop"]
ONE_LINE_CLASSES = ["Declaration", "Assignment", "DeclarationAssignment", "Return"]


def strip_doc(body):
    return [s for s in body if not (isinstance(s, ast.Expr) and isinstance(s.value, ast.Constant))]


class CTranslator(XTranslator):
    def __init__(self, U):
        super().__init__(U)
        self.defaults: dict[str, list[ast.expr | None]] = {}  # function -> default per parameter (None = none)
        self.class_helpers: dict[str, ast.FunctionDef] = {}  # helpers expanded at the call site
        self.class_consts: list[dict[str, list[ast.expr]]] = []  # stack: parameter -> class names
        self.narrow: dict[str, tuple] = {}  # dump of a path -> (ctor, {field: binder})
        self.opt_narrow: dict[str, tuple[str, str]] = {}  # dump of an optional path -> (binder, payload type)
        self.reg_functions: dict[str, tuple[str, str]] = {}  # registration function -> (family, python class)

    # -------------------------------------------------------------- coercion str -> str | None
    def coerce(self, t, frm, to):
        if to and frm and to == f"(option {frm})" and not frm.startswith("(option "):
            return f"(Some {t})"
        return super().coerce(t, frm, to)

    # -------------------------------------------------------------- calls
    def call_known(self, name, arg_nodes, sc, node, first=None):
        d = self.defaults.get(name)
        if d is not None:
            have = len(first or []) + len(arg_nodes)
            arg_nodes = list(arg_nodes)
            for dflt in d[have:]:
                if dflt is None:
                    raise Unsupported(node, "missing argument without default")
                arg_nodes.append(dflt)
        return super().call_known(name, arg_nodes, sc, node, first)

    def class_list(self, node, sc):
        """The literal classes of `K` / `(K1, K2)` / a class parameter of the helper being expanded."""
        if isinstance(node, ast.Name) and self.class_consts and node.id in self.class_consts[-1] \
                and node.id not in sc.types:
            return self.class_consts[-1][node.id]
        return None

    def call(self, e, sc, want):
        f = e.func
        if isinstance(f, ast.Name) and f.id == "isinstance" and len(e.args) == 2 and not e.keywords:
            ks = self.class_list(e.args[1], sc)
            if ks is not None:
                tup = ast.Tuple(elts=list(ks), ctx=ast.Load())
                e = ast.copy_location(ast.Call(func=f, args=[e.args[0], tup], keywords=[]), e)
                return super().call(e, sc, want)
        if isinstance(f, ast.Name) and f.id in self.class_helpers and f.id not in sc.types:
            return self.expand_helper(self.class_helpers[f.id], e, sc)
        # direct call of a registration, on a value narrowed to the class it is registered for
        if isinstance(f, ast.Name) and f.id in self.reg_functions and f.id not in sc.types and f.id not in self.sigs:
            fam, cls = self.reg_functions[f.id]
            if e.keywords or len(e.args) != 1:
                raise Unsupported(e, "direct call of a registration")
            key = ast.dump(e.args[0])
            if key not in self.narrow or self.narrow[key][0].pyclass != cls:
                raise Unsupported(e, f"direct call of the registration {f.id} on a value not known to be a {cls}")
            return self.call_known(fam, e.args, sc, e)
        # map(f, xs)
        if isinstance(f, ast.Name) and f.id == "map" and "map" not in sc.types and len(e.args) == 2 and not e.keywords \
                and isinstance(e.args[0], ast.Name) and e.args[0].id in self.sigs and e.args[0].id not in sc.types:
            g = e.args[0].id
            sig, fx = self.sigs[g], self.fx.get(g, NOFX)
            if len(sig.params) != 1 or fx.state or fx.fuel or g in self.ident:
                raise Unsupported(e, "map() with a function of this kind")
            xs, xt = self.expr(e.args[1], sc)
            if xt != f"(list {sig.params[0][1]})":
                raise Unsupported(e, f"map() of a {sig.params[0][1]} function over {xt}")
            if fx.opt:
                return self.add_pending(sc, "opt", "items", f"omap {sig.name} {xs}", e), f"(list {sig.ret})"
            return f"(map {sig.name} {xs})", f"(list {sig.ret})"
        # sep.join(<generator expression>)
        if isinstance(f, ast.Attribute) and f.attr == "join" and isinstance(f.value, ast.Constant) \
                and isinstance(f.value.value, str) and len(e.args) == 1 and not e.keywords \
                and isinstance(e.args[0], ast.GeneratorExp):
            g = e.args[0]
            lc = ast.copy_location(ast.ListComp(elt=g.elt, generators=g.generators), g)
            xs, xt = self.comprehension(lc, sc)
            self.need(xt, "(list string)", e)
            return f"(py_join {self.expr(f.value, sc)[0]} {xs})", "string"
        return super().call(e, sc, want)

    def expand_helper(self, fn: ast.FunctionDef, call: ast.Call, sc: XScope):
        """`helper(x, (A, B))`: the helper's body with its parameters let-bound; a parameter
        annotated as a class / tuple of classes is replaced by the literal classes of the call."""
        if call.keywords or len(call.args) != len(fn.args.args) or fn.args.kwonlyargs or fn.args.vararg \
                or fn.args.kwarg or fn.args.defaults or fn.decorator_list:
            raise Unsupported(call, "call of a helper that is expanded in place")
        if self.class_consts:
            raise Unsupported(call, "nested expansion of class-parameter helpers")
        inner = XScope(self, None, None, None, self_name="self__", mode="pure")
        inner.counter = sc.counter
        consts: dict[str, list[ast.expr]] = {}
        lets = []
        for a, p in zip(call.args, fn.args.args):
            if p.annotation is None:
                raise Unsupported(fn, "helper parameter without annotation")
            ann = ast.unparse(p.annotation)
            if ann in CLASS_PARAM_ANNOTATIONS:
                ks = list(a.elts) if isinstance(a, ast.Tuple) else [a]
                for k in ks:
                    cn = self.class_of_name(k)
                    if cn is None or cn not in self.U.ctors:
                        raise Unsupported(call, "class argument that is not a literal constructor class")
                consts[p.arg] = ks
                continue
            t, ty = self.guarded(a, sc)
            want = self.U.coq_type(p.annotation)
            if want != ty:
                raise Unsupported(call, f"argument of type {ty} for a {want}")
            lets.append(f"let {safe(p.arg)} := {t} in")
            inner.types[p.arg] = ty
        # every return must return a local variable (so that the type of the result is known)
        rets = [n for n in ast.walk(fn) if isinstance(n, ast.Return)]
        if not rets or not all(isinstance(r.value, ast.Name) for r in rets):
            raise Unsupported(fn, "an expanded helper must return a local variable")
        for n in ast.walk(fn):
            # the class parameter may only be used as the second argument of isinstance
            if isinstance(n, ast.Name) and n.id in consts:
                ok = any(isinstance(c, ast.Call) and isinstance(c.func, ast.Name) and c.func.id == "isinstance"
                         and len(c.args) == 2 and c.args[1] is n for c in ast.walk(fn))
                if not ok:
                    raise Unsupported(fn, "class parameter used other than in isinstance(x, <parameter>)")
        self.class_consts.append(consts)
        try:
            body = self.body(list(fn.body), inner)
        finally:
            self.class_consts.pop()
        tys = {inner.types.get(r.value.id) for r in rets}
        if len(tys) != 1 or None in tys:
            raise Unsupported(fn, "cannot tell the type of the helper's result")
        return "(" + " ".join(lets + [body]) + ")", tys.pop()

    # -------------------------------------------------------------- attribute paths under narrowing
    def literal_pattern(self, node, ty: str):
        if isinstance(node, ast.List) and not node.elts and ty.startswith("(list "):
            return "nil"
        if isinstance(node, ast.Constant) and node.value is None and ty.startswith("(option "):
            return "None"
        return None

    def ctor_literal(self, node):
        """K(<literals>) -> "K p1 p2" (a pattern), or None."""
        if not (isinstance(node, ast.Call) and not node.keywords):
            return None
        cn = self.class_of_name(node.func)
        if cn is None or cn not in self.U.ctors:
            return None
        ct, k = self.U.ctors[cn], self.U.classes[cn]
        pats = []
        for i, ((fn, ty), (_, _, default)) in enumerate(zip(ct.fields, k.fields)):
            a = node.args[i] if i < len(node.args) else default
            p = self.literal_pattern(a, ty) if a is not None else None
            if p is None:
                return None
            pats.append(p)
        if len(node.args) > len(ct.fields):
            return None
        return f"{ct.coq} {' '.join(pats)}".strip(), ct.ind

    def expr(self, e, sc, want=None):
        if self.opt_narrow and isinstance(e, (ast.Attribute, ast.Name)) and ast.dump(e) in self.opt_narrow:
            return self.opt_narrow[ast.dump(e)]
        if isinstance(e, ast.Compare) and len(e.ops) == 1 and isinstance(e.ops[0], (ast.Eq, ast.NotEq)):
            for x, y in ((e.left, e.comparators[0]), (e.comparators[0], e.left)):
                lit = self.ctor_literal(y)
                if lit is not None:
                    t, ty = self.expr(x, sc)
                    if ty != lit[1]:
                        raise Unsupported(e, "== between different types")
                    r = f"(match {t} with {lit[0]} => true | _ => false end)"
                    return (r if isinstance(e.ops[0], ast.Eq) else f"(negb {r})"), "bool"
        if isinstance(e, ast.Subscript) and isinstance(e.slice, ast.Slice):
            sl = e.slice
            if sl.upper is None and sl.step is None and isinstance(sl.lower, ast.Constant) \
                    and isinstance(sl.lower.value, int) and not isinstance(sl.lower.value, bool) and 0 <= sl.lower.value < 100:
                x, xt = self.expr(e.value, sc)
                if not xt.startswith("(list ") or xt == "(list _)":
                    raise Unsupported(e, "slice of a non-list")
                return f"(skipn {sl.lower.value} {x})", xt
            raise Unsupported(e, "slice other than xs[n:]")
        if isinstance(e, ast.Attribute) and self.narrow:
            key = ast.dump(e.value)
            if key in self.narrow:
                ct, binders = self.narrow[key]
                if e.attr not in binders:
                    raise Unsupported(e, f"class {ct.pyclass} has no field {e.attr}")
                return binders[e.attr], dict(ct.fields)[e.attr]
        t, ty = super().expr(e, sc, want)
        if ty == "string" and isinstance(e, (ast.JoinedStr, ast.BinOp)) and t.startswith("(") and t.endswith(")"):
            t += "%string"  # a string concatenation may sit inside a list concatenation ( ... )%list
        return t, ty

    # -------------------------------------------------------------- statements
    def for_loop(self, s, rest, sc):
        """extra.py's loop; a loop with effects uses ofold_u with the accumulator type written out (the
        pattern `fun '(a, b) x => ..` needs it)."""
        targets = [x.id for x in ast.walk(s.target) if isinstance(x, ast.Name)]
        carried = [n for n in self.all_assigned(s.body) if n in sc.types and n not in targets]
        tys = [sc.types[n] for n in carried]
        text = super().for_loop(s, rest, sc)
        if "ofold (fun " in text:
            if sc.state or any(t.endswith("_)") or t == "_" for t in tys) or text.count("ofold (fun ") != 1:
                raise Unsupported(s, "loop with effects whose accumulator type is not known")
            text = text.replace("ofold (fun ", f"@ofold_u _ ({' * '.join(tys)}) (fun ", 1)
        return text

    def is_path(self, n) -> bool:
        """self.f, self.f.g ... : a field path (no call, no subscript)."""
        while isinstance(n, ast.Attribute):
            n = n.value
        return isinstance(n, ast.Name)

    def path_label(self, n) -> str:
        return n.attr if isinstance(n, ast.Attribute) else n.id

    def narrowing_test(self, test):
        """isinstance(P, K)  |  isinstance(P, K) and t1 and ...   ->  (P, K, [t1, ...])"""
        first, more = test, []
        if isinstance(test, ast.BoolOp) and isinstance(test.op, ast.And):
            first, more = test.values[0], list(test.values[1:])
        if isinstance(first, ast.Call) and isinstance(first.func, ast.Name) and first.func.id == "isinstance" \
                and len(first.args) == 2 and not first.keywords and isinstance(first.args[0], (ast.Attribute, ast.Name)) \
                and self.is_path(first.args[0]) and not isinstance(first.args[1], ast.Tuple):
            cn = self.class_of_name(first.args[1])
            if cn is not None and cn in self.U.ctors:
                uses = any(isinstance(x, ast.Attribute) and ast.dump(x.value) == ast.dump(first.args[0])
                           for t in more for x in ast.walk(t))
                if uses or not more:
                    return first.args[0], cn, more
        return None

    def body(self, stmts, sc):
        # ---- xs = []  ...  return xs : the declared return type
        if stmts and isinstance(stmts[0], ast.Assign) and len(stmts[0].targets) == 1 \
                and isinstance(stmts[0].targets[0], ast.Name) and isinstance(stmts[0].value, ast.List) \
                and not stmts[0].value.elts and stmts[0].targets[0].id not in sc.types \
                and sc.ret and sc.ret.startswith("(list ") and sc.ret != "(list _)" \
                and any(isinstance(r, ast.Return) and isinstance(r.value, ast.Name) and r.value.id == stmts[0].targets[0].id
                        for st in stmts[1:] for r in ast.walk(st)):
            name = stmts[0].targets[0].id
            sc.types[name] = sc.ret
            k = self.body(stmts[1:], sc)
            return f"let {safe(name)} := (nil : {sc.ret}) in\n    {k}"
        # ---- if P is not None: <assignments only>
        if stmts and isinstance(stmts[0], ast.If) and not stmts[0].orelse:
            s, rest = stmts[0], stmts[1:]
            t = s.test
            if isinstance(t, ast.Compare) and len(t.ops) == 1 and isinstance(t.ops[0], ast.IsNot) \
                    and isinstance(t.comparators[0], ast.Constant) and t.comparators[0].value is None \
                    and isinstance(t.left, (ast.Attribute, ast.Name)) and self.is_path(t.left):
                names = self.assigned_names(list(s.body))
                if names and not self.has_effects(list(s.body), sc) and all(n in sc.types for n in names):
                    if sc.pending:
                        raise AssertionError("pending effects before an if")
                    v, vt = self.guarded(t.left, sc)
                    if not vt.startswith("(option ") or vt == "(option _)":
                        raise Unsupported(s, "`is not None` on a value that is not optional")
                    key = ast.dump(t.left)
                    if key in self.opt_narrow:
                        raise Unsupported(s, "nested `is not None` on the same value")
                    b = sc.fresh(self.path_label(t.left))
                    tup = ast.Tuple(elts=[ast.Name(id=n, ctx=ast.Load()) for n in names], ctx=ast.Load()) \
                        if len(names) > 1 else ast.Name(id=names[0], ctx=ast.Load())
                    s1 = sc.sub(None)
                    self.opt_narrow[key] = (b, vt[len("(option "):-1])
                    try:
                        a = self.body(list(s.body) + [ast.Return(value=tup)], s1)
                    finally:
                        del self.opt_narrow[key]
                    for n in names:
                        if s1.types[n] != sc.types[n]:
                            raise Unsupported(s, f"variable {n} changes type")
                        sc.origins.pop(n, None)
                    pat = safe(names[0]) if len(names) == 1 else "'(" + ", ".join(safe(n) for n in names) + ")"
                    val = safe(names[0]) if len(names) == 1 else "(" + ", ".join(safe(n) for n in names) + ")"
                    k = self.body(rest, sc)
                    return f"let {pat} := (match {v} with Some {b} => {a} | None => {val} end) in\n    {k}"
        if stmts and isinstance(stmts[0], ast.If):
            s, rest = stmts[0], stmts[1:]
            t = s.test
            # ---- if v is None: A else: B
            if isinstance(t, ast.Compare) and len(t.ops) == 1 and isinstance(t.ops[0], (ast.Is, ast.IsNot)) \
                    and isinstance(t.left, ast.Name) and isinstance(t.comparators[0], ast.Constant) \
                    and t.comparators[0].value is None and sc.types.get(t.left.id, "").startswith("(option ") \
                    and sc.types[t.left.id] != "(option _)":
                v = t.left.id
                vt = sc.types[v]
                none_b, some_b = (s.body, s.orelse) if isinstance(t.ops[0], ast.Is) else (s.orelse, s.body)
                if sc.pending:
                    raise AssertionError("pending effects before an if")
                if not (self.returns(s.body) and s.orelse and self.returns(s.orelse)):
                    raise Unsupported(s, "`if v is None` whose branches do not both return")
                if rest:
                    raise Unsupported(rest[0], "code after an if that returns on both paths")
                saved, saved_o = dict(sc.types), dict(sc.origins)
                a = self.body(list(none_b), sc)
                sc.types, sc.origins = dict(saved), dict(saved_o)
                sc.types[v] = vt[len("(option "):-1]
                b = self.body(list(some_b), sc)
                sc.types, sc.origins = saved, saved_o
                return f"match {safe(v)} with\n    | None => {a}\n    | Some {safe(v)} => {b}\n    end"
            # ---- if isinstance(P, K) and tests: A else: B
            nt = self.narrowing_test(t)
            if nt is not None:
                path, cn, tests = nt
                if sc.pending:
                    raise AssertionError("pending effects before an if")
                key = ast.dump(path)
                if key in self.narrow:
                    raise Unsupported(s, "nested narrowing of the same path")
                p, pt = self.guarded(path, sc)
                ct = self.U.ctors[cn]
                if ct.ind != pt:
                    raise Unsupported(s, "isinstance across types")
                binders = {fn: sc.fresh(f"{self.path_label(path)}_{fn}") for fn, _ in ct.fields}
                saved, saved_o, saved_s = dict(sc.types), dict(sc.origins), sc.state
                # else branch first (it does not see the narrowing)
                if s.orelse:
                    b = self.body(list(s.orelse) + ([] if self.returns(s.orelse) else list(rest)), sc)
                else:
                    b = self.body(list(rest), sc)
                sc.types, sc.origins, sc.state = dict(saved), dict(saved_o), saved_s
                self.narrow[key] = (ct, binders)
                try:
                    conds = []
                    for c in tests:
                        ctext, cty = self.guarded(c, sc)
                        self.need(cty, "bool", c)
                        conds.append(ctext)
                    a = self.body(list(s.body) + ([] if self.returns(s.body) else list(rest)), sc)
                finally:
                    del self.narrow[key]
                sc.types, sc.origins, sc.state = saved, saved_o, saved_s
                k = sc.fresh("otherwise")
                pat = " ".join(binders[fn] for fn, _ in ct.fields)
                # the else-continuation is let-bound once, as a thunk (call-by-value evaluation must not run it
                # when the narrowed branch is taken)
                inner = f"if {' && '.join(conds)} then {a}\n      else {k} tt" if conds else a
                wild = "" if len(self.U.inds[ct.ind]) + sum(1 for (_, sup) in self.U.embed if sup == ct.ind) == 1 \
                    else f"\n    | _ => {k} tt"
                return (f"let {k} := (fun _ : unit => {b}) in\n    match {p} with\n    | {ct.coq} {pat} =>\n      {inner}{wild}\n    end")
        return super().body(stmts, sc)


def desugar_list_mutation(fn: ast.FunctionDef) -> ast.FunctionDef:
    """`xs.append(e)` -> `xs = xs + [e]`, `xs.extend(es)` -> `xs = xs + es`, for every local `xs` that is made
    by a list display and only ever used as: assignment target, receiver of append / extend, `len(xs)`,
    `return xs`.  (Such a list has no second name, so the functional reading is exact.)  Other lists are
    left alone (their `.append` then fails closed as an unsupported statement)."""
    import copy

    fn = copy.deepcopy(fn)
    made = set()
    for n in ast.walk(fn):
        if isinstance(n, ast.Assign) and len(n.targets) == 1 and isinstance(n.targets[0], ast.Name) \
                and isinstance(n.value, ast.List) and not any(isinstance(x, ast.Starred) for x in n.value.elts):
            made.add(n.targets[0].id)
    params = {a.arg for a in fn.args.args}
    made -= params
    parents = {}
    for n in ast.walk(fn):
        for c in ast.iter_child_nodes(n):
            parents[c] = n
    ok = set(made)
    for n in ast.walk(fn):
        if isinstance(n, ast.Name) and n.id in made:
            par = parents.get(n)
            good = False
            if isinstance(n.ctx, ast.Store) and isinstance(par, ast.Assign) and isinstance(par.value, ast.List):
                good = True
            elif isinstance(par, ast.Attribute) and par.attr in ("append", "extend") and isinstance(parents.get(par), ast.Call) \
                    and parents[par].func is par and len(parents[par].args) == 1 and not parents[par].keywords \
                    and isinstance(parents.get(parents[par]), ast.Expr):
                good = True
            elif isinstance(par, ast.Call) and isinstance(par.func, ast.Name) and par.func.id == "len" and par.args == [n]:
                good = True
            elif isinstance(par, ast.Return) and par.value is n:
                good = True
            if not good:
                ok.discard(n.id)

    class T(ast.NodeTransformer):
        def visit_Expr(self, node):
            c = node.value
            if isinstance(c, ast.Call) and isinstance(c.func, ast.Attribute) and c.func.attr in ("append", "extend") \
                    and isinstance(c.func.value, ast.Name) and c.func.value.id in ok and len(c.args) == 1 and not c.keywords:
                x = c.func.value.id
                rhs = ast.List(elts=[c.args[0]], ctx=ast.Load()) if c.func.attr == "append" else c.args[0]
                new = ast.Assign(targets=[ast.Name(id=x, ctx=ast.Store())],
                                 value=ast.BinOp(left=ast.Name(id=x, ctx=ast.Load()), op=ast.Add(), right=rhs))
                return ast.fix_missing_locations(ast.copy_location(new, node))
            return node

    return ast.fix_missing_locations(T().visit(fn))


OFOLD_U = """(* PyLib.ofold with the function outside the [fix] (needed for nested recursion under a loop) *)
Definition ofold_u {A B} (f : B -> A -> option B) : list A -> B -> option B :=
  fix go (xs : list A) (acc : B) {struct xs} : option B :=
    match xs with
    | [] => Some acc
    | x :: r => match f acc x with None => None | Some acc1 => go r acc1 end
    end.
"""


class CEmitter(XEmitter):
    """XEmitter + default arguments + the embedded-root arm of a family over `stmt`."""

    def check_defaults(self, fn: ast.FunctionDef, name: str):
        n = len(fn.args.args)
        d = [None] * (n - len(fn.args.defaults)) + list(fn.args.defaults)
        for x in d:
            if x is not None and not (isinstance(x, ast.Constant) and x.value is None):
                raise Unsupported(fn, "default argument other than None")
        if name in self.tr.defaults:
            if [ast.dump(x) if x is not None else None for x in self.tr.defaults[name]] != \
                    [ast.dump(x) if x is not None else None for x in d]:
                raise Unsupported(fn, "registration with other defaults than the dispatcher")
        else:
            self.tr.defaults[name] = d

    def declare(self, fam: Family, domain: str, partial=False, ident=False, fuel=False):
        super().declare(fam, domain, partial, ident, fuel)
        self.check_defaults(fam.base, fam.name)

    def declare_function(self, fn, partial=False, fuel=False):
        if fn.decorator_list or fn.args.kwonlyargs or fn.args.vararg or fn.args.kwarg:
            raise Unsupported(fn, "function signature")
        params = []
        for a in fn.args.args:
            if a.annotation is None:
                raise Unsupported(fn, "argument without annotation")
            params.append((a.arg, self.U.coq_type(a.annotation)))
        if fn.returns is None:
            raise Unsupported(fn, "function without return annotation")
        self.tr.sigs[fn.name] = FuncSig(fn.name, params, self.U.coq_type(fn.returns))
        self.tr.fx[fn.name] = Fx(opt=partial or fuel, state=self.state_param(params), fuel=fuel)
        self.check_defaults(fn, fn.name)

    def xarm(self, fam: Family, ct) -> str:
        sig = self.tr.sigs[fam.name]
        fx = self.tr.fx.get(fam.name, NOFX)
        fn = self.registration_for(fam, ct.pyclass)
        if fn is None:
            if not is_raise_only(fam.base):
                raise Unsupported(fam.base, "default body is not a bare raise")
            if fx.opt:
                return "None"
            raise Unsupported(fam.base, f"no registration for {ct.pyclass} and the default raises")
        sname = fn.args.args[0].arg
        if len(fn.args.args) != len(sig.params) or fn.args.kwonlyargs or fn.args.vararg or fn.args.kwarg:
            raise Unsupported(fn, "registration has a different signature")
        self.check_defaults(fn, fam.name)
        params = [(a.arg, pt) for a, (pn, pt) in zip(fn.args.args[1:], sig.params[1:])]
        sc = self.scope_for(fam.name, ct, ct.ind, sname, params)
        body = self.finish_body(self.tr.body(desugar_list_mutation(fn).body, sc), sc)
        lets = []
        if sname != "self":
            lets.append(f"let {safe(sname)} := self in")
        for a, (pn, pt) in zip(fn.args.args[1:], sig.params[1:]):
            if a.arg != pn:
                lets.append(f"let {safe(a.arg)} := {safe(pn)} in")
        return " ".join(lets + [body])

    def embedded_arm(self, fam: Family, sub: str, emb: str) -> str:
        """Arm of the constructor that embeds inductive `sub` (Expression as a Statement): the
        registration on the Python root class of `sub`."""
        roots = [c for c, ind in self.U.root_of.items() if ind == sub and c not in self.U.ctors
                 and not any(self.U.is_sub(c, o) and c != o for o, i2 in self.U.root_of.items()
                             if i2 == sub and o not in self.U.ctors)]
        fn = None
        for r in roots:
            for classes, f in fam.regs:
                if r in classes:
                    fn = f
        if fn is None:
            raise Unsupported(fam.base, f"no registration for the embedded {sub}")
        if len(fn.args.args) != 1 or fn.args.defaults:
            raise Unsupported(fn, "signature of the registration on the embedded class")
        sname = fn.args.args[0].arg
        sc = self.scope_for(fam.name, None, sub, sname, [])
        sc.types[sname] = sub
        body = self.finish_body(self.tr.body(fn.body, sc), sc)
        return f"  | {emb} e_ =>\n    let {safe(sname)} := e_ in {body}"

    def emit_statement_family(self, n: str, skip: list[str]) -> str:
        """A family over `stmt` with the arm of the embedding constructor; one Fixpoint on self (Block
        recurses under its loop, Branch / Loop on their fields)."""
        fam = self.fams[n]
        sig = self.tr.sigs[n]
        dom = sig.params[0][1]
        ps = " ".join(f"({safe(pn)} : {ptype(pt)})" for pn, pt in sig.params)
        out = [f"Fixpoint {n} {ps} {{struct self}} : {self.full_ret(n)} :=", "  match self with"]
        for ct in self.U.inds[dom]:
            fn = self.registration_for(fam, ct.pyclass)
            sname = fn.args.args[0].arg if fn is not None else "self"
            pat = " ".join(f"{sname}_{f}" for f, _ in ct.fields)
            out.append(f"  | {ct.coq} {pat} =>".replace("  =>", " =>"))
            if ct.pyclass in skip:
                if fn is None:
                    raise Unsupported(fam.base, f"no registration for {ct.pyclass}")
                out.append(f"    None (* NOT TRANSLATED: {fn.name} (statement layout); this None is not Python's behaviour *)")
            else:
                out.append("    " + self.xarm(fam, ct))
        for (sub, sup), emb in self.U.embed.items():
            if sup == dom:
                out.append(self.embedded_arm(fam, sub, emb))
        out.append("  end.")
        return "\n".join(out) + "\n"


def only_definitions(tree: ast.Module, what: str):
    for node in tree.body:
        ok = isinstance(node, (ast.FunctionDef, ast.ImportFrom, ast.Import)) or (
            isinstance(node, ast.Assign) and all(isinstance(t, ast.Name) and t.id == "__all__" for t in node.targets)) or (
            isinstance(node, ast.Expr) and isinstance(node.value, ast.Constant))
        if not ok:
            raise Unsupported(node, f"top-level statement of {what}")


def check_imports(tree: ast.Module, U, what: str, allowed_modules: dict[str, set[str] | None]):
    """Every imported class name must mean the class of that name of ir/ast.py / ir/types.py (no
    `import X as Y`), so that `Add` in this module is the constructor Add."""
    for node in tree.body:
        if isinstance(node, ast.Import):
            raise Unsupported(node, f"import statement in {what}")
        if isinstance(node, ast.ImportFrom):
            mod = "." * node.level + (node.module or "")
            if mod not in allowed_modules:
                raise Unsupported(node, f"import from an unexpected module in {what}")
            for al in node.names:
                if al.asname is not None and al.asname != al.name:
                    raise Unsupported(node, "import ... as ...")
                names = allowed_modules[mod]
                if names is None:
                    if al.name not in U.classes:
                        raise Unsupported(node, f"imported name {al.name} is not a class of the IR")
                elif al.name not in names:
                    raise Unsupported(node, f"unexpected imported name {al.name}")


def gen_ir_to_c(src: Path) -> str:
    from . import ir

    U = ir.build_universe(src, XUniverse)
    tr = CTranslator(U)
    tr.float_str = "str_float"
    out = [XPRELUDE.format(src="src/tensora/codegen/_type_to_c.py, src/tensora/codegen/_ir_to_c.py"),
           "From TV Require Import gen.IRAst.\n"]

    # ---------------------------------------------------------------- _type_to_c.py
    ttree = ast.parse((src / "tensora/codegen/_type_to_c.py").read_text())
    only_definitions(ttree, "_type_to_c.py")
    check_imports(ttree, U, "_type_to_c.py", {"functools": {"singledispatch"}, "..ir.types": None})
    tfams, tplain = parse_functions(ttree)
    if set(tfams) != EXPECT_TYPE_FAMS or list(tplain) != EXPECT_TYPE_PLAIN:
        raise Unsupported(ast.Constant(sorted(tfams) + sorted(tplain)), "unexpected functions in _type_to_c.py")
    te = CEmitter(tr, tfams)
    te.declare_function(tplain["space_variable"])
    out.append(te.emit_function(tplain["space_variable"]))
    te.declare(tfams["type_to_c"], "ty")
    out.append(te.emit_xgroup(["type_to_c"]))

    # ---------------------------------------------------------------- _ir_to_c.py
    tree = ast.parse((src / "tensora/codegen/_ir_to_c.py").read_text())
    only_definitions(tree, "_ir_to_c.py")
    check_imports(tree, U, "_ir_to_c.py", {"functools": {"singledispatch"}, "..ir.ast": None,
                                            "._type_to_c": {"type_to_c"}})
    fams, plain = parse_functions(tree)
    if set(fams) != EXPECT_FAMS or set(plain) != EXPECT_PLAIN:
        raise Unsupported(ast.Constant(sorted(fams) + sorted(plain)), "unexpected functions in _ir_to_c.py")
    fe = CEmitter(tr, fams)
    fe.tr.defaults.setdefault("type_to_c", tr.defaults["type_to_c"])
    tr.class_helpers["parens"] = plain["parens"]
    out.append(U.emit_projections("function_definition"))
    out.append(U.emit_projections("module"))
    out.append(OFOLD_U)
    out.append("Section IrToC.\n(* Python's str(float) (repr of a binary64) is not modelled: an abstract rendering *)\n"
               "Variable str_float : F -> string.\n")
    fe.declare(fams["ir_to_c_expression"], "expr")
    out.append("(* parens(code, wrap_me) is expanded at each call with the classes written there *)")
    out.append(fe.emit_xgroup(["ir_to_c_expression"]))
    out.append("(* None = a Python exception (AttributeError: self.name.name on something that is not a Declaration of a Variable) *)")
    fe.declare_function(plain["ir_to_c_declaration"], partial=True)
    out.append(fe.emit_function(plain["ir_to_c_declaration"]))
    fe.declare_function(plain["indent_lines"])
    out.append(fe.emit_function(plain["indent_lines"]))
    fe.declare(fams["ir_to_c_statement"], "stmt", partial=True)
    stmt_classes = [ct.pyclass for ct in U.inds["stmt"]]
    if sorted(stmt_classes) != sorted(LAYOUT_CLASSES + ONE_LINE_CLASSES):
        raise Unsupported(ast.Constant(stmt_classes), "unexpected set of statement classes")
    for fam in fams.values():
        for classes, fn in fam.regs:
            if len(classes) == 1:
                tr.reg_functions[fn.name] = (fam.name, classes[0])
    out.append("(* None = a Python exception (AttributeError in a declaration, IndexError of if_false_lines[0]) *)")
    out.append(fe.emit_statement_family("ir_to_c_statement", []))
    fe.declare_function(plain["ir_to_c_function_definition"], partial=True)
    out.append(fe.emit_function(plain["ir_to_c_function_definition"]))
    fe.declare_function(plain["ir_to_c"], partial=True)
    out.append(fe.emit_function(plain["ir_to_c"]))
    out.append("End IrToC.\n")
    return "\n".join(out)


def targets(src: Path) -> dict:
    return {"IrToC.v": lambda: gen_ir_to_c(src)}
