"""py2coq.extra_concurrency: the shared-state code of property C14 dumped as Python abstract syntax
(TIE target "concurrency").

  compile/_porcelain.py, compile/_tensor_method.py, compile/_compile_cffi.py, compile/_compile_llvm.py
      imports, module-level assignments, every function and every method: statement for statement
  compile/_cffi_ownership.py, compile/_initialize_llvm.py
      only their module-level assignments (global_weakkeydict, tensor_cdefs, tensor_lib, target): the functions of
      _cffi_ownership.py are the TIE target "ownership"; here they are interface calls
                                                                                     -> gen/ConcurrencyGen.v

The translator is deliberately dumb: it prints the syntax tree in the constructors of
coq/model/ConcurrencyApi.v (expr, stmt, fundef, pymodule).  ALL meaning (which operations touch state that
other threads see, aliasing, lru_cache, `with lock:`) is given by the interpreter in ConcurrencyApi.v and the
theorems of coq/proofs/GenConcurrency_equiv.v are about what it computes on this dump.  Constructs the
syntax cannot express raise Unsupported (fail closed: the generated file does not compile).
Documentation: design.d/TIE_concurrency.md.
"""

from __future__ import annotations

import ast
from pathlib import Path

from .core import Unsupported

FULL = ["_porcelain", "_tensor_method", "_compile_cffi", "_compile_llvm"]     # dumped completely
GLOBALS_ONLY = ["_cffi_ownership", "_initialize_llvm"]                        # module-level assignments only
OURS = FULL + GLOBALS_ONLY


def cstr(s: str) -> str:
    s = "".join(c if 32 <= ord(c) < 127 else " " for c in s)
    return '"' + s.replace('"', '""') + '"'


def clist(xs) -> str:
    return "[" + "; ".join(xs) + "]"


def has_call(e) -> bool:
    return any(isinstance(n, (ast.Call, ast.Await, ast.Yield, ast.YieldFrom)) for n in ast.walk(e))


def expr(e) -> str:
    if isinstance(e, ast.Name):
        return f"(EName {cstr(e.id)})"
    if isinstance(e, ast.Constant):
        return f"(EConst {cstr(repr(e.value)[:40])})"
    if isinstance(e, ast.Attribute):
        return f"(EAttr {expr(e.value)} {cstr(e.attr)})"
    if isinstance(e, ast.Call):
        args = []
        seen_kw = False
        for a in e.args:
            if isinstance(a, ast.Starred):
                args.append(f'("*", {expr(a.value)})')
            else:
                args.append(f'("", {expr(a)})')
        for k in e.keywords:
            seen_kw = True
            if k.arg is None:
                args.append(f'("**", {expr(k.value)})')
            else:
                args.append(f"({cstr('=' + k.arg)}, {expr(k.value)})")
        # Python evaluates the arguments in the order written; a starred argument written after a keyword
        # would be evaluated before it in the dump
        if seen_kw and e.args and e.keywords:
            last_pos = max((a.lineno, a.col_offset) for a in e.args)
            first_kw = min((k.value.lineno, k.value.col_offset) for k in e.keywords)
            if last_pos > first_kw:
                raise Unsupported(e, "positional argument after a keyword argument")
        return f"(ECall {expr(e.func)} {clist(args)})"
    if isinstance(e, ast.Subscript):
        return f"(ESub {expr(e.value)} {expr(e.slice)})"
    if isinstance(e, ast.Slice):
        return f'(EMk "slice" {clist(expr(p) for p in (e.lower, e.upper, e.step) if p is not None)})'
    if isinstance(e, (ast.Tuple, ast.List, ast.Set)):
        kind = {ast.Tuple: "tuple", ast.List: "list", ast.Set: "set"}[type(e)]
        return f"(EMk {cstr(kind)} {clist(expr(x.value if isinstance(x, ast.Starred) else x) for x in e.elts)})"
    if isinstance(e, ast.Dict):
        parts = []
        for k, v in zip(e.keys, e.values):
            if k is not None:
                parts.append(expr(k))
            parts.append(expr(v))
        return f'(EMk "dict" {clist(parts)})'
    if isinstance(e, ast.JoinedStr):
        parts = []
        for v in e.values:
            if isinstance(v, ast.FormattedValue):
                parts.append(expr(v.value))
                if v.format_spec is not None:
                    parts.append(expr(v.format_spec))
            elif not isinstance(v, ast.Constant):
                raise Unsupported(v, "f-string part")
        return f'(EMk "fstring" {clist(parts)})'
    if isinstance(e, ast.Compare):
        return f'(EMk "compare" {clist(expr(x) for x in [e.left] + list(e.comparators))})'
    if isinstance(e, ast.BoolOp):
        if any(has_call(v) for v in e.values[1:]):
            raise Unsupported(e, "call under and/or (evaluated conditionally)")
        return f'(EMk "boolop" {clist(expr(x) for x in e.values)})'
    if isinstance(e, ast.IfExp):
        if has_call(e.body) or has_call(e.orelse):
            raise Unsupported(e, "call under a conditional expression")
        return f'(EMk "ifexp" {clist(expr(x) for x in (e.test, e.body, e.orelse))})'
    if isinstance(e, ast.UnaryOp):
        return f'(EMk "unary" [{expr(e.operand)}])'
    if isinstance(e, ast.BinOp):
        return f'(EMk "binop" [{expr(e.left)}; {expr(e.right)}])'
    if isinstance(e, (ast.ListComp, ast.SetComp, ast.GeneratorExp, ast.DictComp)):
        kind = {ast.ListComp: "list", ast.SetComp: "set", ast.GeneratorExp: "generator", ast.DictComp: "dict"}[type(e)]
        elts = [e.key, e.value] if isinstance(e, ast.DictComp) else [e.elt]
        gens = []
        for g in e.generators:
            if g.is_async:
                raise Unsupported(e, "async comprehension")
            gens.append(f"({target(g.target)}, {expr(g.iter)}, {clist(expr(c) for c in g.ifs)})")
        return f"(EComp {cstr(kind)} {clist(expr(x) for x in elts)} {clist(gens)})"
    raise Unsupported(e, "expression")


def target(t) -> str:
    if isinstance(t, ast.Name):
        return f"(EName {cstr(t.id)})"
    if isinstance(t, (ast.Tuple, ast.List)):
        if any(isinstance(x, ast.Starred) for x in t.elts):
            raise Unsupported(t, "starred target")
        return f'(EMk "tuple" {clist(target(x) for x in t.elts)})'
    if isinstance(t, ast.Attribute):
        return f"(EAttr {expr(t.value)} {cstr(t.attr)})"
    if isinstance(t, ast.Subscript):
        return f"(ESub {expr(t.value)} {expr(t.slice)})"
    raise Unsupported(t, "assignment target")


def import_key(s: ast.ImportFrom) -> str:
    mod = s.module or ""
    if s.level == 1 and mod in OURS:
        return mod
    return "." * s.level + mod


def pattern(p) -> str:
    if isinstance(p, ast.MatchValue):
        return f"(PValue {expr(p.value)})"
    if isinstance(p, ast.MatchClass):
        if p.kwd_attrs or p.kwd_patterns:
            raise Unsupported(p, "keyword class pattern")
        caps = []
        for q in p.patterns:
            if not (isinstance(q, ast.MatchAs) and q.pattern is None and q.name is not None):
                raise Unsupported(p, "sub-pattern that is not a capture")
            caps.append(cstr(q.name))
        return f"(PClass {expr(p.cls)} {clist(caps)})"
    if isinstance(p, ast.MatchAs) and p.pattern is None and p.name is None:
        return "PWild"
    raise Unsupported(p, "pattern")


def is_doc(s) -> bool:
    return isinstance(s, ast.Expr) and isinstance(s.value, ast.Constant) and isinstance(s.value.value, str)


def stmts(ss, ind: int) -> str:
    pad = " " * ind
    out = []
    for s in ss:
        if is_doc(s):
            continue
        out.extend(stmt(s, ind + 1))
    if not out:
        return "[]"
    return "[\n" + ";\n".join(pad + " " + x for x in out) + "\n" + pad + "]"


def stmt(s, ind: int) -> list[str]:
    if isinstance(s, ast.Assign):
        return [f"SAssign {clist(target(t) for t in s.targets)} {expr(s.value)}"]
    if isinstance(s, ast.AnnAssign):
        if s.value is None:
            return []
        return [f"SAssign [{target(s.target)}] {expr(s.value)}"]
    if isinstance(s, ast.Expr):
        return [f"SExpr {expr(s.value)}"]
    if isinstance(s, ast.If):
        return [f"SIf {expr(s.test)} {stmts(s.body, ind)} {stmts(s.orelse, ind)}"]
    if isinstance(s, ast.For):
        if s.orelse:
            raise Unsupported(s, "for-else")
        return [f"SFor {target(s.target)} {expr(s.iter)} {stmts(s.body, ind)}"]
    if isinstance(s, ast.With):
        # `with a, b:` = `with a: with b:`
        body = stmts(s.body, ind)
        for item in reversed(s.items):
            if item.optional_vars is None:
                name = ""
            elif isinstance(item.optional_vars, ast.Name):
                name = item.optional_vars.id
            else:
                raise Unsupported(s, "with ... as <pattern>")
            body_one = f"SWith {expr(item.context_expr)} {cstr(name)} {body}"
            body = "[" + body_one + "]"
        return [body_one]
    if isinstance(s, ast.Match):
        cases = []
        for c in s.cases:
            if c.guard is not None:
                raise Unsupported(c.guard, "case guard")
            cases.append(f"({pattern(c.pattern)}, {stmts(c.body, ind + 1)})")
        return [f"SMatch {expr(s.subject)} {clist(cases)}"]
    if isinstance(s, ast.Raise):
        if s.cause is not None or s.exc is None:
            raise Unsupported(s, "raise ... from / bare raise")
        return [f"SRaise {expr(s.exc)}"]
    if isinstance(s, ast.Return):
        return [f"SReturn {expr(s.value) if s.value is not None else '(EConst ' + cstr('None') + ')'}"]
    if isinstance(s, ast.ImportFrom):
        key = import_key(s)
        out = []
        for a in s.names:
            if a.name == "*":
                raise Unsupported(s, "import *")
            out.append(f"SImport {cstr(a.asname or a.name)} {cstr(key)} {cstr(a.name)}")
        return out
    if isinstance(s, ast.Pass):
        return ["SPass"]
    # AugAssign (in-place mutation through a name), while, try, del, global, nonlocal, nested def/class, assert, import
    raise Unsupported(s, "statement")


def fundef(fn: ast.FunctionDef, ind: int) -> str:
    if isinstance(fn, ast.AsyncFunctionDef) or fn.args.posonlyargs:
        raise Unsupported(fn, "function signature")
    a = fn.args
    params = []
    defaults = [None] * (len(a.args) - len(a.defaults)) + list(a.defaults)
    for p, d in zip(a.args, defaults):
        params.append((p.arg, d))
    for p, d in zip(a.kwonlyargs, a.kw_defaults):
        params.append((p.arg, d))
    ps = clist(f"({cstr(n)}, {'Some ' + expr(d) if d is not None else 'None'})" for n, d in params)
    pad = " " * ind
    return ("{| f_decorators := " + clist(expr(d) for d in fn.decorator_list) + ";\n"
            + pad + "   f_params := " + ps + ";\n"
            + pad + f"   f_vararg := {cstr(a.vararg.arg if a.vararg else '')}; f_kwarg := {cstr(a.kwarg.arg if a.kwarg else '')};\n"
            + pad + "   f_body := " + stmts(fn.body, ind + 3) + " |}")


def module(src: Path, name: str, full: bool) -> str:
    path = src / "tensora" / "compile" / (name + ".py")
    mod = ast.parse(path.read_text())
    imports, assigns, funs, classes = [], [], [], []
    for s in mod.body:
        if is_doc(s):
            continue
        if isinstance(s, ast.Import):
            for a in s.names:
                if a.asname is None and "." in a.name:
                    raise Unsupported(s, "import a.b without `as`")
                imports.append(f'({cstr(a.asname or a.name)}, ({cstr(a.name)}, ""))')
        elif isinstance(s, ast.ImportFrom):
            key = import_key(s)
            for a in s.names:
                if a.name == "*":
                    raise Unsupported(s, "import *")
                imports.append(f"({cstr(a.asname or a.name)}, ({cstr(key)}, {cstr(a.name)}))")
        elif isinstance(s, (ast.Assign, ast.AnnAssign)):
            ts = s.targets if isinstance(s, ast.Assign) else [s.target]
            if isinstance(s, ast.AnnAssign) and s.value is None:
                continue
            for t in ts:
                if not isinstance(t, ast.Name):
                    raise Unsupported(s, "module-level assignment to something else than a name")
                if t.id == "__all__":
                    continue
                assigns.append(f"({cstr(t.id)}, {expr(s.value)})")
        elif isinstance(s, ast.FunctionDef):
            if full:
                funs.append(f"({cstr(s.name)},\n   {fundef(s, 3)})")
        elif isinstance(s, ast.ClassDef):
            if not full:
                continue
            if s.keywords:
                raise Unsupported(s, "class keywords (metaclass)")
            meths = []
            for c in s.body:
                if is_doc(c) or isinstance(c, (ast.Assign, ast.AnnAssign, ast.Pass)):
                    continue      # class-level fields / enumeration members: no behaviour
                if isinstance(c, ast.FunctionDef):
                    if c.decorator_list:
                        raise Unsupported(c, "decorated method")
                    meths.append(f"({cstr(c.name)},\n    {fundef(c, 4)})")
                else:
                    raise Unsupported(c, "class body")
            classes.append(f"({cstr(s.name)}, {clist(meths)})")
        elif isinstance(s, ast.Expr) and not full:
            continue              # _initialize_llvm: llvm.initialize_* at import time (once, under the import lock: MODELLED)
        elif isinstance(s, ast.If) and not full:
            continue              # _cffi_ownership: platform-dependent dlopen of libc (binds tensor_lib)
        else:
            # a module-level statement of the dumped modules that is not import / assignment / def / class:
            # code that runs at import time or rebinding of globals
            raise Unsupported(s, f"module-level statement of {name}.py")
    return (f"Definition mod_{name} : pymodule :=\n"
            f" {{| m_name := {cstr(name)};\n"
            f"    m_imports := {clist(imports)};\n"
            f"    m_assigns := {clist(assigns)};\n"
            f"    m_funs := " + ("[\n  " + ";\n  ".join(funs) + "]" if funs else "[]") + ";\n"
            f"    m_classes := " + ("[\n  " + ";\n  ".join(classes) + "]" if classes else "[]") + " |}.\n\n")


HEADER = """(* GENERATED by /verif/tools/py2coq/extra_concurrency.py from src/tensora/compile/{_porcelain,_tensor_method,
   _compile_cffi,_compile_llvm}.py (complete) and the module-level assignments of _cffi_ownership.py and
   _initialize_llvm.py -- do not edit; regenerated on every check run.  Python abstract syntax in the
   constructors of coq/model/ConcurrencyApi.v; its meaning is the interpreter there. *)
From Coq Require Import List String.
From TV Require Import model.Concurrency model.ConcurrencyApi.
Import ListNotations.
Open Scope string_scope.

"""


def check_no_rebinding(src: Path):
    """`global x` / nested functions are refused by stmt(); here: the names the API interprets are bound once."""
    for name in FULL:
        mod = ast.parse((src / "tensora" / "compile" / (name + ".py")).read_text())
        seen = set()
        for s in mod.body:
            names = []
            if isinstance(s, (ast.FunctionDef, ast.ClassDef)):
                names = [s.name]
            elif isinstance(s, ast.Assign):
                names = [t.id for t in s.targets if isinstance(t, ast.Name)]
            elif isinstance(s, (ast.Import, ast.ImportFrom)):
                names = [a.asname or a.name for a in s.names]
            for n in names:
                if n in seen and n != "__all__":
                    raise Unsupported(s, f"module-level name {n} bound twice in {name}.py")
                seen.add(n)


def gen_concurrency(src: Path) -> str:
    check_no_rebinding(src)
    out = HEADER
    for name in FULL:
        out += module(src, name, True)
    for name in GLOBALS_ONLY:
        out += module(src, name, False)
    out += "Definition prog : program := " + clist("mod_" + n for n in OURS) + ".\n"
    return out


def targets(src: Path) -> dict:
    return {"ConcurrencyGen.v": lambda: gen_concurrency(src)}
