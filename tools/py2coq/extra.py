"""py2coq.extra: further files of /repo/src/tensora regenerated into Gallina on every run.

  identifiable_expression/ast.py (+ Mode, TensorLayer, Context)   -> gen/ExhaustAst.v
  identifiable_expression/_exhaust_tensor.py, _extract_context.py -> gen/Exhaust.v
  iteration_graph/_names.py                                       -> gen/Names.v
  expression/ast.py (the deparse methods)                         -> gen/Deparse.v
  desugar/ast.py, desugar/_desugar_expression.py                  -> gen/Desugar.v

The hand models (coq/model/{Exhaust,Context,Names,Parser,DesugarSem,Desugar}.v) are PROVED equal to
these generated definitions in coq/proofs/Gen*_equiv.v (statements: coq/props/TIE.v), so every
theorem about a hand model is a theorem about what the source says now.

Idioms beyond core.py (each one fail-closed: any other shape raises Unsupported); documented in
design.d/TIE.md:

  * Enum classes -> inductives with nullary constructors, `Mode.dense` -> constructor;
  * frozen dataclasses with one constructor -> records: projections `x.f`, methods with arguments
    (`left.add(right)`), keyword constructors, `field(default_factory=list)` / `frozenset()` defaults;
  * methods defined inside the classes of a hierarchy (`deparse`) -> one Fixpoint, one arm per
    concrete class, body taken from the class the method resolves to;
  * partial functions (option monad): `xs[i]`, `try: v = xs.index(x) except ValueError: ...`,
    `raise`, calls of other partial functions; left-to-right evaluation order is kept and a partial
    operation below a short-circuit operator is refused;
  * object identity `v is self.f` where `v = fam(self.f, ...)`: the family returns, beside its
    value, the flag "the result IS the argument object" (see design.d/TIE.md for the argument);
  * `+` on str / list / int, `-` on int, `|` on sets, f-strings, `str(int)`, `sep.join(xs)`;
  * `if` blocks that only re-assign local variables -> `let v := if c then .. else v`.
"""

from __future__ import annotations

import ast
from pathlib import Path

from .core import (COQ_RENAME, PRELUDE, Ctor, Family, FamilyEmitter, FuncSig, PyClass, Scope,
                   Translator, Universe, Unsupported, is_raise_only, parse_classes,
                   parse_functions)

XPRELUDE = PRELUDE + "From TV Require Import spec.PyLib.\nOpen Scope string_scope.\n"

# identifiers that may not be used as Gallina binders in the generated text
RESERVED = {
    "in", "let", "fun", "match", "end", "with", "as", "at", "if", "then", "else", "return", "using",
    "where", "for", "fix", "cofix", "forall", "exists", "exists2", "Type", "Prop", "Set", "SProp", "mod",
    "map", "fst", "snd", "filter", "existsb", "forallb", "negb", "app", "nil", "cons", "Some", "None",
    "true", "false", "list", "option", "bool", "string", "Z", "F", "nat", "length", "rev", "flat_map",
    "fold_left", "fold_right", "andb", "orb", "pair", "prod", "show_Z", "show_N", "py_join", "py_index",
    "py_getitem", "py_in", "set_union", "set_of_list", "obind", "omap", "pyset", "F0", "F1", "Fmake",
    "Feqb", "list_eqb", "option_eqb", "tt", "unit", "concat", "combine", "seq", "id",
}


def safe(name: str) -> str:
    return name + "_" if name in RESERVED else name


# --------------------------------------------------------------------------------------------
# class tables: enums, records, annotations written as module attributes
# --------------------------------------------------------------------------------------------


def parse_enum(tree: ast.Module, name: str) -> list[str]:
    """Members of `class <name>(Enum)` in source order."""
    for node in tree.body:
        if isinstance(node, ast.ClassDef) and node.name == name:
            if [ast.unparse(b) for b in node.bases] != ["Enum"]:
                raise Unsupported(node, "enum base")
            members = []
            for item in node.body:
                if isinstance(item, ast.Assign) and len(item.targets) == 1 and isinstance(item.targets[0], ast.Name):
                    members.append(item.targets[0].id)
                elif isinstance(item, (ast.FunctionDef, ast.Expr, ast.Pass)):
                    continue
                else:
                    raise Unsupported(item, f"body of enum {name}")
            if not members:
                raise Unsupported(node, "enum without members")
            return members
    raise Unsupported(ast.Constant(name), "enum class not found")


def parse_classes_lenient(tree: ast.Module, only: list[str] | None = None) -> dict[str, PyClass]:
    """parse_classes restricted to the named classes (other classes of the module may use
    constructs the class parser does not know)."""
    sub = ast.Module(body=[n for n in tree.body if isinstance(n, ast.ClassDef) and (only is None or n.name in only)],
                     type_ignores=[])
    return parse_classes(sub)


class XUniverse(Universe):
    def __init__(self):
        super().__init__()
        self.enums: dict[str, list[str]] = {}

    def add_enum(self, name: str, members: list[str]):
        self.enums[name] = members
        self.root_of[name] = name
        self.inds[name] = [Ctor(f"{name}_{m}", name, [], f"{name}.{m}") for m in members]

    def coq_type(self, ann: ast.expr) -> str:
        if isinstance(ann, ast.Constant) and isinstance(ann.value, str):
            ann = ast.parse(ann.value, mode="eval").body
        if isinstance(ann, ast.Attribute) and isinstance(ann.value, ast.Name):
            # `ast.Expression`, `id.Tensor`: module-qualified class name
            return self.coq_type(ast.copy_location(ast.Name(id=self.qualified(ann), ctx=ast.Load()), ann))
        if isinstance(ann, ast.Subscript) and isinstance(ann.value, ast.Name):
            if ann.value.id in ("frozenset", "set"):
                return f"(pyset {self.coq_type(ann.slice)})"
            if ann.value.id == "tuple" and isinstance(ann.slice, ast.Tuple) and not any(
                    isinstance(x, ast.Constant) and x.value is Ellipsis for x in ann.slice.elts):
                return "(" + " * ".join(self.coq_type(x) for x in ann.slice.elts) + ")"
            if ann.value.id == "Iterator":
                return f"(iterator {self.coq_type(ann.slice)})"
        return super().coq_type(ann)

    def qualified(self, a: ast.Attribute) -> str:
        return a.attr

    def eqb_name(self, ty: str) -> str:
        ty = ty.strip()
        if ty.startswith("(pyset "):
            raise Unsupported(ast.Constant(ty), "== on sets is not translated")
        return super().eqb_name(ty)

    def is_record(self, ind: str) -> bool:
        return ind in self.inds and len(self.inds[ind]) == 1 and ind not in self.enums and not any(
            sup == ind for (_, sup) in self.embed)

    def emit_projections(self, ind: str) -> str:
        ct = self.inds[ind][0]
        out = []
        for i, (fn, ty) in enumerate(ct.fields):
            pat = " ".join("x_" if j == i else "_" for j in range(len(ct.fields)))
            out.append(f"Definition {ind}_{fn} (r_ : {ind}) : {ty} := match r_ with {ct.coq} {pat} => x_ end.")
        return "\n".join(out) + "\n"


def elt_of(ty: str) -> str | None:
    for p in ("(list ", "(pyset "):
        if ty.startswith(p):
            return ty[len(p):-1]
    return None


# --------------------------------------------------------------------------------------------
# scope / translator
# --------------------------------------------------------------------------------------------


class XScope(Scope):
    def __init__(self, tr, self_ctor, self_type, ret, self_name="self", mode="pure", ident=None):
        super().__init__(tr, self_ctor, self_type, ret, self_name)
        self.mode = mode  # "pure" | "option"
        self.ident = ident  # name of the identity-tracked family being translated, or None
        self.pending: list[tuple[str, str, str]] = []  # (kind, variable, text)
        self.origins: dict[str, str] = {}  # variable bound from an identity-tracked call -> dump of its argument
        self.counter = [0]

    def fresh(self, base="t") -> str:
        self.counter[0] += 1
        return f"{base}_{self.counter[0]}_"

    def take(self):
        p, self.pending = self.pending, []
        return p

    def sub(self, ret, mode="pure"):
        s = XScope(self.tr, self.self_ctor, self.self_type, ret, self.self_name, mode, None)
        s.types = dict(self.types)
        s.counter = self.counter
        return s


def wrap(binds, inner: str) -> str:
    for kind, var, text in reversed(binds):
        if kind == "opt":
            inner = f"match {text} with None => None | Some {var} =>\n    {inner} end"
        elif kind == "pair":
            inner = f"let '({var}, {var}_is_arg) := {text} in\n    {inner}"
        else:
            raise AssertionError(kind)
    return inner


class XTranslator(Translator):
    def __init__(self, U: XUniverse):
        super().__init__(U)
        self.partial: set[str] = set()  # functions (python names) whose Gallina result is an option
        self.ident: set[str] = set()  # families returning (value, result-is-argument flag)
        self.rmethods: dict[tuple[str, str], str] = {}  # (inductive, method) -> coq function
        self.float_str: str | None = None  # name of the section variable rendering str(float)

    # ------------------------------------------------------------------ helpers
    def guarded(self, node, sc: XScope, want=None):
        """Translate an expression that Python evaluates only conditionally: it must not
        contain an exception-raising operation (that would be hoisted out of the condition)."""
        n = len(sc.pending)
        r = self.expr(node, sc, want)
        if len(sc.pending) != n:
            raise Unsupported(node, "exception-raising operation under a short-circuit / conditional")
        return r

    def add_pending(self, sc: XScope, kind: str, base: str, text: str, node) -> str:
        if kind == "opt" and sc.mode != "option":
            raise Unsupported(node, "exception-raising operation in a function translated as total")
        v = sc.fresh(base)
        sc.pending.append((kind, v, text))
        return v

    def args_for(self, sig: FuncSig, args, sc, node, skip=0):
        if len(args) != len(sig.params) - skip:
            raise Unsupported(node, "arity")
        out = []
        for a, (pn, pt) in zip(args, sig.params[skip:]):
            t, tt = self.expr(a, sc, want=pt)
            out.append(self.coerce(t, tt, pt))
        return out

    def coerce(self, t, frm, to):
        if frm == to or to is None:
            return t
        if frm in ("(list _)", "(pyset _)") and (to.startswith("(list ") or to.startswith("(pyset ")):
            return t
        return super().coerce(t, frm, to)

    # ------------------------------------------------------------------ expressions
    def expr(self, e, sc, want=None):
        U = self.U
        if isinstance(e, ast.Name):
            if e.id in sc.types:
                return safe(e.id), sc.types[e.id]
            raise Unsupported(e, "unbound name")
        if isinstance(e, ast.Attribute):
            # enum member
            if isinstance(e.value, ast.Name) and e.value.id in U.enums and e.value.id not in sc.types:
                if e.attr not in U.enums[e.value.id]:
                    raise Unsupported(e, "no such enum member")
                return f"{e.value.id}_{e.attr}", e.value.id
            if isinstance(e.value, ast.Name) and e.value.id == sc.self_name and sc.self_ctor:
                return super().expr(e, sc, want)
            # projection of a record value
            x, xt = self.expr(e.value, sc)
            if U.is_record(xt):
                for fn, ty in U.inds[xt][0].fields:
                    if fn == e.attr:
                        return f"({xt}_{fn} {x})", ty
                raise Unsupported(e, "no such field")
            raise Unsupported(e, "attribute of a value whose class is not known statically")
        if isinstance(e, ast.BoolOp):
            first = self.expr(e.values[0], sc)
            parts = [first] + [self.guarded(v, sc) for v in e.values[1:]]
            for _, ty in parts:
                self.need(ty, "bool", e)
            op = " && " if isinstance(e.op, ast.And) else " || "
            return "(" + op.join(t for t, _ in parts) + ")", "bool"
        if isinstance(e, ast.IfExp):
            c, cty = self.expr(e.test, sc)
            self.need(cty, "bool", e)
            a, at = self.guarded(e.body, sc, want)
            b, bt = self.guarded(e.orelse, sc, want or at)
            ty = self.unify(at, bt, e)
            return f"(if {c} then {self.coerce(a, at, ty)} else {self.coerce(b, bt, ty)})", ty
        if isinstance(e, ast.Compare) and len(e.ops) == 1 and isinstance(e.ops[0], (ast.Is, ast.IsNot)):
            return self.identity_test(e, sc)
        if isinstance(e, ast.Compare) and len(e.ops) == 1 and isinstance(e.ops[0], (ast.In, ast.NotIn)):
            x, xt = self.expr(e.left, sc)
            s, st = self.expr(e.comparators[0], sc)
            et = elt_of(st)
            if et is None or et != xt:
                raise Unsupported(e, "membership test")
            t = f"(py_in {U.eqb_name(xt)} {x} {s})"
            return (t if isinstance(e.ops[0], ast.In) else f"(negb {t})"), "bool"
        if isinstance(e, ast.Compare) and len(e.ops) == 1 and isinstance(
                e.ops[0], (ast.Lt, ast.LtE, ast.Gt, ast.GtE)):
            l, lt = self.expr(e.left, sc)
            r, rt = self.expr(e.comparators[0], sc)
            self.need(lt, "Z", e)
            self.need(rt, "Z", e)
            op = {ast.Lt: "<?", ast.LtE: "<=?", ast.Gt: ">?", ast.GtE: ">=?"}[type(e.ops[0])]
            return f"({l} {op} {r})%Z", "bool"
        if isinstance(e, ast.BinOp):
            l, lt = self.expr(e.left, sc, want)
            r, rt = self.expr(e.right, sc, want=lt if not lt.endswith("_)") else want)
            if lt.endswith("_)") and not rt.endswith("_)"):
                lt = rt
            if rt.endswith("_)"):
                rt = lt
            if isinstance(e.op, ast.Add):
                if lt == rt == "string":
                    return f"({l} ++ {r})", "string"
                if lt == rt and lt.startswith("(list "):
                    return f"({l} ++ {r})%list", lt
                if lt == rt == "Z":
                    return f"({l} + {r})%Z", "Z"
            if isinstance(e.op, ast.Sub) and lt == rt == "Z":
                return f"({l} - {r})%Z", "Z"
            if isinstance(e.op, ast.Mult) and lt == rt == "Z":
                return f"({l} * {r})%Z", "Z"
            if isinstance(e.op, ast.BitOr) and lt == rt and lt.startswith("(pyset "):
                return f"(set_union {U.eqb_name(elt_of(lt))} {l} {r})", lt
            raise Unsupported(e, f"binary operator on {lt}, {rt}")
        if isinstance(e, ast.JoinedStr):
            parts = []
            for v in e.values:
                if isinstance(v, ast.Constant) and isinstance(v.value, str):
                    if v.value:
                        parts.append(self.expr(v, sc)[0])
                elif isinstance(v, ast.FormattedValue) and v.conversion == -1 and v.format_spec is None:
                    parts.append(self.to_str(v.value, sc))
                else:
                    raise Unsupported(e, "f-string piece")
            if not parts:
                return '""%string', "string"
            if len(parts) == 1:
                return parts[0], "string"
            return "(" + " ++ ".join(parts) + ")", "string"
        if isinstance(e, ast.Subscript):
            x, xt = self.expr(e.value, sc)
            if not xt.startswith("(list "):
                raise Unsupported(e, "subscript of a non-list")
            if isinstance(e.slice, ast.Slice):
                raise Unsupported(e, "slice")
            i, it = self.expr(e.slice, sc)
            self.need(it, "Z", e)
            v = self.add_pending(sc, "opt", "item", f"py_getitem {x} {i}", e)
            return v, elt_of(xt)
        if isinstance(e, ast.Tuple):
            parts = [self.expr(x, sc) for x in e.elts]
            if len(parts) < 2:
                raise Unsupported(e, "tuple")
            return "(" + ", ".join(t for t, _ in parts) + ")", "(" + " * ".join(ty for _, ty in parts) + ")"
        if isinstance(e, ast.List) and e.elts and want and elt_of(want):
            parts = [self.expr(x, sc, want=elt_of(want)) for x in e.elts]
            ty = elt_of(want)
            return "[" + "; ".join(self.coerce(t, tt, ty) for t, tt in parts) + "]", f"(list {ty})"
        if isinstance(e, ast.ListComp):
            return self.comprehension(e, sc)
        return super().expr(e, sc, want)

    def comprehension(self, e: ast.ListComp, sc: XScope):
        if len(e.generators) != 1:
            raise Unsupported(e, "comprehension")
        g = e.generators[0]
        if not isinstance(g.target, ast.Name) or g.is_async:
            raise Unsupported(e, "comprehension target")
        it, ity = self.expr(g.iter, sc)
        if not ity.startswith("(list "):
            raise Unsupported(e, "comprehension over a non-list (iteration order of a set needs an oracle)")
        v = g.target.id
        old = sc.types.get(v)
        sc.types[v] = elt_of(ity)
        try:
            src = it
            for cond in g.ifs:
                c, cty = self.guarded(cond, sc)
                self.need(cty, "bool", e)
                src = f"(filter (fun {safe(v)} => {c}) {src})"
            n = len(sc.pending)
            body, bty = self.expr(e.elt, sc)
            inner = sc.pending[n:]
            del sc.pending[n:]
        finally:
            if old is None:
                sc.types.pop(v, None)
            else:
                sc.types[v] = old
        if inner:
            # the element expression may raise: evaluate left to right in the option monad
            f = f"(fun {safe(v)} => {wrap(inner, 'Some (' + body + ')')})"
            r = self.add_pending(sc, "opt", "items", f"omap {f} {src}", e)
            return r, f"(list {bty})"
        return f"(map (fun {safe(v)} => {body}) {src})", f"(list {bty})"

    def to_str(self, node, sc) -> str:
        t, ty = self.expr(node, sc)
        if ty == "string":
            return t
        if ty == "Z":
            return f"(show_Z {t})"
        if ty == "F" and self.float_str:
            return f"({self.float_str} {t})"
        raise Unsupported(node, f"str() of a value of type {ty}")

    def identity_test(self, e: ast.Compare, sc: XScope):
        neg = isinstance(e.ops[0], ast.IsNot)
        a, b = e.left, e.comparators[0]
        for x, y in ((a, b), (b, a)):
            if isinstance(x, ast.Name) and x.id in sc.origins and sc.origins[x.id] == ast.dump(y):
                t = f"{safe(x.id)}_is_arg"
                return (f"(negb {t})" if neg else t), "bool"
        # `x is None`
        for x, y in ((a, b), (b, a)):
            if isinstance(y, ast.Constant) and y.value is None:
                t, ty = self.expr(x, sc)
                if ty.startswith("(option "):
                    r = f"match {t} with None => true | Some _ => false end"
                    return (f"(negb ({r}))" if neg else f"({r})"), "bool"
        raise Unsupported(e, "identity test other than `v is <argument of the call that produced v>`")

    def call(self, e: ast.Call, sc, want):
        U = self.U
        f = e.func
        if isinstance(f, ast.Name) and f.id == "str" and len(e.args) == 1 and not e.keywords:
            return self.to_str(e.args[0], sc), "string"
        if isinstance(f, ast.Name) and f.id in ("frozenset", "set", "list") and not e.args and not e.keywords:
            return "nil", want or ("(list _)" if f.id == "list" else "(pyset _)")
        if isinstance(f, ast.Name) and f.id == "field" and not e.args and len(e.keywords) == 1 \
                and e.keywords[0].arg == "default_factory" and isinstance(e.keywords[0].value, ast.Name) \
                and e.keywords[0].value.id in ("list", "set", "frozenset"):
            return "nil", want or "(list _)"
        # sep.join(xs)
        if isinstance(f, ast.Attribute) and f.attr == "join" and isinstance(f.value, ast.Constant) \
                and isinstance(f.value.value, str) and len(e.args) == 1 and not e.keywords:
            xs, xt = self.expr(e.args[0], sc)
            self.need(xt, "(list string)", e)
            return f"(py_join {self.expr(f.value, sc)[0]} {xs})", "string"
        # calls of translated functions
        if isinstance(f, ast.Name) and f.id in self.sigs and f.id not in sc.types:
            sig = self.sigs[f.id]
            if e.keywords:
                raise Unsupported(e, "keyword arguments")
            args = self.args_for(sig, e.args, sc, e)
            text = f"{sig.name} {' '.join(args)}"
            if f.id in self.ident:
                v = self.add_pending(sc, "pair", "r", text, e)
                sc.origins[v.rstrip("_") + "_"] = ast.dump(e.args[0])
                return v, sig.ret
            if f.id in self.partial:
                v = self.add_pending(sc, "opt", "r", text, e)
                return v, sig.ret
            return f"({text})", sig.ret
        # method call on a value: record methods / methods of a class hierarchy
        if isinstance(f, ast.Attribute) and not e.keywords:
            recv = f.value
            if not (isinstance(recv, ast.Name) and (recv.id in U.enums or recv.id not in sc.types)
                    and not isinstance(recv, ast.Attribute)):
                try_recv = True
            else:
                try_recv = False
            if try_recv:
                n = len(sc.pending)
                x, xt = self.expr(recv, sc)
                key = (xt, f.attr)
                if key in self.rmethods:
                    name = self.rmethods[key]
                    sig = self.sigs[name]
                    args = self.args_for(sig, e.args, sc, e, skip=1)
                    text = f"{sig.name} {' '.join([x] + args)}"
                    if name in self.partial:
                        v = self.add_pending(sc, "opt", "r", text, e)
                        return v, sig.ret
                    return f"({text})", sig.ret
                del sc.pending[n:]
        return super().call(e, sc, want)

    # ------------------------------------------------------------------ statements
    def ret_wrap(self, t: str, node, sc: XScope) -> str:
        if sc.ident:
            flag = self.ident_flag(node, sc)
            t = f"({t}, {flag})"
        if sc.mode == "option":
            t = f"Some ({t})"
        return t

    def ident_flag(self, node, sc: XScope) -> str:
        """Is the returned object the `self` argument?  (design.d/TIE.md, section `is`)"""
        if isinstance(node, ast.Name) and node.id == sc.self_name:
            return "true"
        if isinstance(node, ast.Name) and node.id in sc.origins:
            arg = sc.origins[node.id]
            if arg == ast.dump(ast.Name(id=sc.self_name, ctx=ast.Load())):
                return f"{safe(node.id)}_is_arg"
            if self.is_self_field(arg, sc):
                return "false"  # a proper sub-object of self, or an object made by the call
        if isinstance(node, ast.Attribute) and isinstance(node.value, ast.Name) and node.value.id == sc.self_name:
            return "false"  # a proper sub-object of self
        if isinstance(node, ast.Call) and self.class_of_name(node.func) in self.U.ctors:
            return "false"  # a newly made object
        raise Unsupported(node, "cannot decide whether the returned object is the argument")

    def is_self_field(self, dump: str, sc: XScope) -> bool:
        if not sc.self_ctor:
            return False
        for fn, _ in sc.self_ctor.fields:
            if dump == ast.dump(ast.Attribute(value=ast.Name(id=sc.self_name, ctx=ast.Load()), attr=fn, ctx=ast.Load())):
                return True
        return False

    def fail(self, node, sc: XScope) -> str:
        if sc.mode == "option":
            return "None"
        raise Unsupported(node, "raise in a function translated as total")

    def assigned_names(self, stmts) -> list[str] | None:
        """Names assigned by a block that consists only of assignments (and such ifs)."""
        out: list[str] = []
        for s in stmts:
            if isinstance(s, ast.Assign) and len(s.targets) == 1 and isinstance(s.targets[0], ast.Name):
                if s.targets[0].id not in out:
                    out.append(s.targets[0].id)
            elif isinstance(s, ast.If):
                a, b = self.assigned_names(s.body), self.assigned_names(s.orelse)
                if a is None or b is None:
                    return None
                for n in a + b:
                    if n not in out:
                        out.append(n)
            elif isinstance(s, ast.Pass):
                continue
            else:
                return None
        return out

    def body(self, stmts, sc: XScope) -> str:
        if not stmts:
            raise Unsupported(ast.Pass(), "function body may fall off the end")
        s, rest = stmts[0], stmts[1:]
        if isinstance(s, ast.Expr) and isinstance(s.value, ast.Constant) and isinstance(s.value.value, str):
            return self.body(rest, sc)
        if isinstance(s, ast.Pass):
            return self.body(rest, sc)
        if isinstance(s, ast.Return):
            if rest:
                raise Unsupported(s, "code after return")
            if s.value is None:
                raise Unsupported(s, "bare return")
            t, ty = self.expr(s.value, sc, want=sc.ret)
            binds = sc.take()
            return wrap(binds, self.ret_wrap(self.coerce(t, ty, sc.ret), s.value, sc))
        if isinstance(s, ast.Raise):
            return self.fail(s, sc)
        if isinstance(s, ast.AnnAssign) and isinstance(s.target, ast.Name) and s.value is not None:
            s = ast.copy_location(ast.Assign(targets=[s.target], value=s.value), s)
        if isinstance(s, ast.Assign) and len(s.targets) == 1 and isinstance(s.targets[0], ast.Name):
            name = s.targets[0].id
            if name == sc.self_name:
                raise Unsupported(s, "assignment to self")
            t, ty = self.expr(s.value, sc, want=sc.types.get(name))
            binds = sc.take()
            sc.origins.pop(name, None)
            if binds and binds[-1][1] == t:
                # the value IS the result of the last bind: bind the python name directly
                kind, v, text = binds.pop()
                binds.append((kind, safe(name), text))
                if v in sc.origins:
                    sc.origins[name] = sc.origins.pop(v)
                sc.types[name] = ty
                return wrap(binds, self.body(rest, sc))
            if ty.endswith("_)"):
                raise Unsupported(s, "cannot infer the type of the assigned value")
            sc.types[name] = ty
            k = self.body(rest, sc)
            return wrap(binds, f"let {safe(name)} := {t} in\n    {k}")
        if isinstance(s, ast.Assign) and len(s.targets) == 1 and isinstance(s.targets[0], ast.Tuple) \
                and all(isinstance(x, ast.Name) for x in s.targets[0].elts):
            t, ty = self.expr(s.value, sc)
            binds = sc.take()
            names = [x.id for x in s.targets[0].elts]
            tys = split_product(ty)
            if tys is None or len(tys) != len(names):
                raise Unsupported(s, "tuple assignment")
            for n, nt in zip(names, tys):
                sc.types[n] = nt
                sc.origins.pop(n, None)
            k = self.body(rest, sc)
            return wrap(binds, f"let '({', '.join(safe(n) for n in names)}) := {t} in\n    {k}")
        if isinstance(s, ast.If):
            c, cty = self.expr(s.test, sc)
            self.need(cty, "bool", s)
            binds = sc.take()
            names = self.assigned_names(list(s.body) + list(s.orelse))
            if names is not None and names:
                # the if only re-assigns local variables
                for n in names:
                    if n not in sc.types:
                        # must then be assigned on both paths
                        a, b = self.assigned_names(s.body) or [], self.assigned_names(s.orelse) or []
                        if not (n in a and n in b):
                            raise Unsupported(s, f"variable {n} assigned on one path only")
                tup = ast.Tuple(elts=[ast.Name(id=n, ctx=ast.Load()) for n in names], ctx=ast.Load()) \
                    if len(names) > 1 else ast.Name(id=names[0], ctx=ast.Load())
                ret = ast.Return(value=tup)
                s1 = sc.sub(None)
                a = self.body(list(s.body) + [ret], s1)
                tys1 = dict(s1.types)
                s2 = sc.sub(None)
                b = self.body(list(s.orelse) + [ret], s2)
                for n in names:
                    if tys1[n] != s2.types[n]:
                        raise Unsupported(s, f"variable {n} has different types on the two paths")
                    sc.types[n] = tys1[n]
                    sc.origins.pop(n, None)
                pat = safe(names[0]) if len(names) == 1 else "'(" + ", ".join(safe(n) for n in names) + ")"
                k = self.body(rest, sc)
                return wrap(binds, f"let {pat} := (if {c} then {a} else {b}) in\n    {k}")
            saved, saved_o = dict(sc.types), dict(sc.origins)
            a = self.body(list(s.body) + ([] if self.returns(s.body) else rest), sc)
            sc.types, sc.origins = dict(saved), dict(saved_o)
            if s.orelse:
                b = self.body(list(s.orelse) + ([] if self.returns(s.orelse) else rest), sc)
            else:
                b = self.body(rest, sc)
            sc.types, sc.origins = saved, saved_o
            return wrap(binds, f"if {c} then {a}\n    else {b}")
        if isinstance(s, ast.Try):
            return self.try_index(s, rest, sc)
        raise Unsupported(s, "statement")

    def returns(self, stmts) -> bool:
        if not stmts:
            return False
        last = stmts[-1]
        if isinstance(last, (ast.Return, ast.Raise)):
            return True
        if isinstance(last, ast.If):
            return self.returns(last.body) and bool(last.orelse) and self.returns(last.orelse)
        return False

    def try_index(self, s: ast.Try, rest, sc: XScope) -> str:
        """try: v = xs.index(x)
           except ValueError: <handler that returns>"""
        ok = (
            len(s.body) == 1 and not s.orelse and not s.finalbody and len(s.handlers) == 1
            and isinstance(s.body[0], ast.Assign) and len(s.body[0].targets) == 1
            and isinstance(s.body[0].targets[0], ast.Name)
            and isinstance(s.body[0].value, ast.Call)
            and isinstance(s.body[0].value.func, ast.Attribute)
            and s.body[0].value.func.attr == "index"
            and len(s.body[0].value.args) == 1 and not s.body[0].value.keywords
            and isinstance(s.handlers[0].type, ast.Name) and s.handlers[0].type.id == "ValueError"
            and s.handlers[0].name is None
        )
        if not ok:
            raise Unsupported(s, "try statement other than `try: v = xs.index(x) / except ValueError:`")
        call = s.body[0].value
        xs, xt = self.guarded(call.func.value, sc)
        x, xty = self.guarded(call.args[0], sc)
        if not xt.startswith("(list ") or elt_of(xt) != xty:
            raise Unsupported(s, ".index on a non-list")
        if not self.returns(s.handlers[0].body):
            raise Unsupported(s, "except handler must return")
        saved, saved_o = dict(sc.types), dict(sc.origins)
        h = self.body(list(s.handlers[0].body), sc)
        sc.types, sc.origins = saved, saved_o
        name = s.body[0].targets[0].id
        sc.types[name] = "Z"
        sc.origins.pop(name, None)
        k = self.body(rest, sc)
        return (f"match py_index {self.U.eqb_name(xty)} {xs} {x} with\n    | None => {h}\n"
                f"    | Some {safe(name)} =>\n    {k}\n    end")


def split_product(ty: str) -> list[str] | None:
    ty = ty.strip()
    if not (ty.startswith("(") and ty.endswith(")")):
        return None
    inner, depth, parts, cur = ty[1:-1], 0, [], ""
    i = 0
    while i < len(inner):
        ch = inner[i]
        if ch == "(":
            depth += 1
        elif ch == ")":
            depth -= 1
        if depth == 0 and inner[i:i + 3] == " * ":
            parts.append(cur)
            cur = ""
            i += 3
            continue
        cur += ch
        i += 1
    parts.append(cur)
    return parts if len(parts) > 1 else None


# --------------------------------------------------------------------------------------------
# emitters
# --------------------------------------------------------------------------------------------


class XEmitter(FamilyEmitter):
    """singledispatch families in the option monad / with identity tracking; record methods;
    methods of a class hierarchy; plain functions over primitive arguments."""

    def __init__(self, tr: XTranslator, fams: dict[str, Family]):
        super().__init__(tr, fams)

    def declare(self, fam: Family, domain: str, partial=False, ident=False):
        super().declare(fam, domain)
        if partial:
            self.tr.partial.add(fam.name)
        if ident:
            self.tr.ident.add(fam.name)

    def full_ret(self, name: str) -> str:
        ret = self.tr.sigs[name].ret
        if name in self.tr.ident:
            ret = f"({ret} * bool)"
        if name in self.tr.partial:
            ret = f"(option {ret})"
        return ret

    def xarm(self, fam: Family, ct: Ctor) -> str:
        sig = self.tr.sigs[fam.name]
        mode = "option" if fam.name in self.tr.partial else "pure"
        fn = self.registration_for(fam, ct.pyclass)
        if fn is None:
            if not is_raise_only(fam.base):
                raise Unsupported(fam.base, "default body is not a bare raise")
            if mode == "option":
                return "None"
            raise Unsupported(fam.base, f"no registration for {ct.pyclass} and the default raises")
        sname = fn.args.args[0].arg
        if len(fn.args.args) != len(sig.params):
            raise Unsupported(fn, "registration has a different number of arguments")
        sc = XScope(self.tr, ct, ct.ind, sig.ret, self_name=sname, mode=mode,
                    ident=fam.name if fam.name in self.tr.ident else None)
        for a, (pn, pt) in zip(fn.args.args[1:], sig.params[1:]):
            sc.types[a.arg] = pt
        body = self.tr.body(fn.body, sc)
        # the registration may name its arguments differently from the dispatcher
        lets = []
        if sname != "self":
            lets.append(f"let {safe(sname)} := self in")
            body = body.replace(f"{sname}_", f"{sname}_")  # field variables keep the python spelling
        for a, (pn, pt) in zip(fn.args.args[1:], sig.params[1:]):
            if a.arg != pn:
                lets.append(f"let {safe(a.arg)} := {safe(pn)} in")
        return " ".join(lets + [body])

    def emit_xgroup(self, names: list[str]) -> str:
        out = []
        for i, n in enumerate(names):
            fam = self.fams[n]
            sig = self.tr.sigs[n]
            dom = sig.params[0][1]
            kw = "Fixpoint" if i == 0 else "with"
            ps = " ".join(f"({safe(pn)} : {pt})" for pn, pt in sig.params)
            out.append(f"{kw} {n} {ps} {{struct self}} : {self.full_ret(n)} :=")
            out.append("  match self with")
            for ct in self.U.inds[dom]:
                sname = "self"
                fn = self.registration_for(fam, ct.pyclass)
                if fn is not None:
                    sname = fn.args.args[0].arg
                pat = " ".join(f"{sname}_{fn_}" for fn_, _ in ct.fields)
                out.append(f"  | {ct.coq} {pat} =>".replace("  =>", " =>"))
                out.append("    " + self.xarm(fam, ct))
            out.append("  end")
        out[-1] += "."
        return "\n".join(out) + "\n"

    # -------------------------------------------------------------- record methods
    def emit_record_method(self, cls: str, meth: str, partial=False) -> str:
        U = self.U
        k = U.classes[cls]
        fn = k.methods[meth]
        ct = U.ctors[cls]
        if not U.is_record(ct.ind):
            raise Unsupported(fn, "record method on a class with several constructors")
        if fn.decorator_list or fn.args.kwonlyargs or fn.args.vararg or fn.args.kwarg or fn.args.defaults:
            raise Unsupported(fn, "method signature")
        sname = fn.args.args[0].arg
        params = [(sname, ct.ind)] + [(a.arg, U.coq_type(a.annotation)) for a in fn.args.args[1:]]
        if fn.returns is None:
            raise Unsupported(fn, "method without return annotation")
        ret = U.coq_type(fn.returns)
        name = f"{ct.ind}_{meth}"
        self.tr.sigs[name] = FuncSig(name, params, ret)
        self.tr.rmethods[(ct.ind, meth)] = name
        if partial:
            self.tr.partial.add(name)
        sc = XScope(self.tr, ct, ct.ind, ret, self_name=sname, mode="option" if partial else "pure")
        for pn, pt in params[1:]:
            sc.types[pn] = pt
        body = self.tr.body(fn.body, sc)
        ps = " ".join(f"({safe(pn)} : {pt})" for pn, pt in params)
        pat = " ".join(f"{sname}_{f}" for f, _ in ct.fields)
        return (f"Definition {name} {ps} : {self.full_ret(name)} :=\n  match {safe(sname)} with\n"
                f"  | {ct.coq} {pat} =>\n    {body}\n  end.\n")

    # -------------------------------------------------------------- methods of a hierarchy
    def resolve_method(self, cls: str, meth: str) -> ast.FunctionDef | None:
        for c in self.mro(cls):
            k = self.U.classes.get(c)
            if k and meth in k.methods:
                return k.methods[meth]
        return None

    def emit_hierarchy_method(self, ind: str, meth: str, ret: str, name: str, partial=False) -> str:
        """`def meth(self)` defined in the classes of the hierarchy behind inductive `ind`."""
        U = self.U
        self.tr.sigs[name] = FuncSig(name, [("self", ind)], ret)
        self.tr.rmethods[(ind, meth)] = name
        if partial:
            self.tr.partial.add(name)
        out = [f"Fixpoint {name} (self : {ind}) {{struct self}} : {self.full_ret(name)} :=", "  match self with"]
        for ct in U.inds[ind]:
            fn = self.resolve_method(ct.pyclass, meth)
            if fn is None:
                raise Unsupported(ast.Constant(ct.pyclass), f"class has no method {meth}")
            if [d for d in fn.decorator_list if ast.unparse(d) != "abstractmethod"] or len(fn.args.args) != 1:
                raise Unsupported(fn, "method signature")
            sname = fn.args.args[0].arg
            pat = " ".join(f"{sname}_{f}" for f, _ in ct.fields)
            out.append(f"  | {ct.coq} {pat} =>".replace("  =>", " =>"))
            if is_raise_only(fn):
                if not partial:
                    raise Unsupported(fn, f"{ct.pyclass}.{meth} only raises")
                out.append("    None")
                continue
            sc = XScope(self.tr, ct, ind, ret, self_name=sname, mode="option" if partial else "pure")
            body = self.tr.body(fn.body, sc)
            if sname != "self":
                body = f"let {safe(sname)} := self in {body}"
            out.append("    " + body)
        out.append("  end.")
        return "\n".join(out) + "\n"

    # -------------------------------------------------------------- plain functions
    def declare_function(self, fn: ast.FunctionDef, partial=False):
        if fn.decorator_list or fn.args.kwonlyargs or fn.args.vararg or fn.args.kwarg or fn.args.defaults:
            raise Unsupported(fn, "function signature")
        params = []
        for a in fn.args.args:
            if a.annotation is None:
                raise Unsupported(fn, "argument without annotation")
            params.append((a.arg, self.U.coq_type(a.annotation)))
        if fn.returns is None:
            raise Unsupported(fn, "function without return annotation")
        self.tr.sigs[fn.name] = FuncSig(fn.name, params, self.U.coq_type(fn.returns))
        if partial:
            self.tr.partial.add(fn.name)

    def emit_function(self, fn: ast.FunctionDef) -> str:
        sig = self.tr.sigs[fn.name]
        sc = XScope(self.tr, None, None, sig.ret, mode="option" if fn.name in self.tr.partial else "pure")
        for pn, pt in sig.params:
            sc.types[pn] = pt
        body = self.tr.body(fn.body, sc)
        ps = " ".join(f"({safe(pn)} : {pt})" for pn, pt in sig.params)
        return f"Definition {fn.name} {ps} : {self.full_ret(fn.name)} :=\n    {body}.\n"


# --------------------------------------------------------------------------------------------
# target 1: identifiable expressions, exhaust_tensor, extract_context
# --------------------------------------------------------------------------------------------

IDDIR = "tensora/iteration_graph/identifiable_expression"


def build_id_universe(src: Path) -> XUniverse:
    U = XUniverse()
    U.add_enum("Mode", parse_enum(ast.parse((src / "tensora/format/_format.py").read_text()), "Mode"))
    aclasses = parse_classes(ast.parse((src / IDDIR / "ast.py").read_text()))
    lclasses = parse_classes_lenient(ast.parse((src / IDDIR / "_tensor_layer.py").read_text()), ["TensorLayer"])
    cclasses = parse_classes_lenient(ast.parse((src / IDDIR / "_extract_context.py").read_text()), ["Context"])
    for need, table in (("Expression", aclasses), ("TensorLayer", lclasses), ("Context", cclasses)):
        if need not in table:
            raise Unsupported(ast.Constant(need), "missing class")
    for t in (aclasses, lclasses, cclasses):
        clash = set(U.classes) & set(t)
        if clash:
            raise Unsupported(ast.Constant(sorted(clash)), "class defined twice")
        U.classes.update(t)
    members = [c for c in aclasses if aclasses[c].is_dataclass and U.is_sub(c, "Expression")]
    other = [c for c in aclasses if aclasses[c].is_dataclass and c not in members]
    if other:
        raise Unsupported(ast.Constant(other), "dataclass outside the Expression hierarchy")
    U.add_inductive("id_expr", "Expression", members, prefix="Id")
    U.add_inductive("TensorLayer", "TensorLayer", ["TensorLayer"], prefix="Mk")
    U.add_inductive("Context", "Context", ["Context"], prefix="Mk")
    U.resolve_fields()
    return U


def gen_exhaust_ast(src: Path) -> str:
    U = build_id_universe(src)
    out = [XPRELUDE.format(src=f"src/tensora/format/_format.py (Mode), src/{IDDIR}/ast.py, _tensor_layer.py (fields), "
                               "_extract_context.py (class Context)")]
    out.append(U.emit_inductives([["Mode"], ["id_expr"], ["TensorLayer"], ["Context"]]))
    out.append(U.emit_eqb("Mode"))
    out.append(U.emit_eqb("id_expr"))
    out.append(U.emit_recognizers("id_expr"))
    out.append(U.emit_projections("TensorLayer"))
    out.append(U.emit_projections("Context"))
    return "\n".join(out)


def gen_exhaust(src: Path) -> str:
    U = build_id_universe(src)
    tr = XTranslator(U)
    out = [XPRELUDE.format(src=f"src/{IDDIR}/_exhaust_tensor.py, src/{IDDIR}/_extract_context.py"),
           "From TV Require Import gen.ExhaustAst.\n"]
    # ---- exhaust_tensor
    fams, plain = parse_functions(ast.parse((src / IDDIR / "_exhaust_tensor.py").read_text()))
    if set(fams) != {"exhaust_tensor"} or plain:
        raise Unsupported(ast.Constant(sorted(fams) + sorted(plain)), "unexpected functions in _exhaust_tensor.py")
    fe = XEmitter(tr, fams)
    fe.declare(fams["exhaust_tensor"], "id_expr", ident=True)
    out.append("(* exhaust_tensor returns (result, result IS the argument object): Python's `is` tests *)")
    out.append(fe.emit_xgroup(["exhaust_tensor"]))
    # ---- Context methods, extract_context
    ctree = ast.parse((src / IDDIR / "_extract_context.py").read_text())
    cfams, cplain = parse_functions(ctree)
    if set(cfams) != {"extract_context"} or cplain:
        raise Unsupported(ast.Constant(sorted(cfams) + sorted(cplain)), "unexpected functions in _extract_context.py")
    ce = XEmitter(tr, cfams)
    for m in U.classes["Context"].methods:
        out.append(ce.emit_record_method("Context", m))
    ce.declare(cfams["extract_context"], "id_expr", partial=True)
    out.append("(* None = a Python exception (IndexError of self.modes[layer], NotImplementedError) *)")
    out.append(ce.emit_xgroup(["extract_context"]))
    return "\n".join(out)


# --------------------------------------------------------------------------------------------


def targets(src: Path) -> dict:
    return {
        "ExhaustAst.v": lambda: gen_exhaust_ast(src),
        "Exhaust.v": lambda: gen_exhaust(src),
    }
